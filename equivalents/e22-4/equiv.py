#!/usr/bin/env python
"""Equivalence check for refactoring 4: ``open_image`` and
``filename_to_groupname`` in ``ceos_alos2/sar_image/__init__.py``.

Run as

    cd /tmp/wt4/e22 && PYTHONPATH=/tmp/wt4/e22 /venv/bin/python _eq/4/equiv.py

(or through pytest: ``python -m pytest -q -p no:cacheprovider _eq/4/equiv.py``).

Synthetic SAR image files are put on an in-memory file system whose every
request (``open`` / ``isfile`` / ``cat_file`` and each ``read`` on the opened
files) is logged.  ``open_image`` is called with all combinations of
``use_cache`` / ``create_cache``, several ``records_per_chunk`` values, with and
without local / remote cache files (valid, garbage, structurally wrong), on
broken images and badly named files.  For every case the script compares

- a canonical dump of the returned hierarchy (paths, urls, attrs, variables in
  order, the lazily loaded array with all of its fields, and the pixel values
  read through it), or the exception type and message,
- the logged I/O requests, in order, and
- the cache files found afterwards (relative name and digest of the content)

with ``EXPECTED``, recorded with the UNCHANGED code (``equiv.py --record``).
"""

import hashlib
import pathlib
import pprint
import shutil
import struct
import sys
import tempfile

import numpy as np
from construct import Struct
from fsspec.implementations.memory import MemoryFileSystem

from ceos_alos2 import sar_image
from ceos_alos2.array import Array
from ceos_alos2.hierarchy import Group, Variable
from ceos_alos2.sar_image import caching
from ceos_alos2.sar_image.file_descriptor import file_descriptor_record

SIGNAL_PREFIX = 544
PROCESSED_PREFIX = 192

SIGNAL_NAME = "IMG-HH-ALOS2225333100-180726-WWDR1.1__D-B3"
PROCESSED_NAME = "IMG-HV-ALOS2290760600-191011-WWDR1.5RUA"
ROOT = "/products/p1"


# --------------------------------------------------------------------------
# synthetic files
# --------------------------------------------------------------------------
def leaf_offsets(struct_, base=0):
    offset = base
    for sc in struct_.subcons:
        size = sc.sizeof()
        inner = getattr(sc, "subcon", None)
        if isinstance(inner, Struct):
            yield from leaf_offsets(inner, offset)
        else:
            yield sc.name, (offset, size)
        offset += size


DESCRIPTOR_FIELDS = dict(leaf_offsets(file_descriptor_record))


def preamble(seq, record_type, length):
    return struct.pack(">IBBBBI", seq, 50, record_type, 18, 20, length)


def make_descriptor(n_records, record_length, n_columns, **fields):
    buf = bytearray(b" " * 720)
    buf[:12] = preamble(1, 192, 720)
    values = {
        "number_of_sar_data_records": n_records,
        "sar_data_record_length": record_length,
        "number_of_lines_per_dataset": n_records,
        "number_of_data_groups_per_line": n_columns,
        "interleaving_id": "BSQ",
        **fields,
    }
    for name, value in values.items():
        offset, size = DESCRIPTOR_FIELDS[name]
        text = str(value)
        text = text.rjust(size) if isinstance(value, int) else text.ljust(size)
        assert len(text) == size, (name, value)
        buf[offset : offset + size] = text.encode("ascii")
    return bytes(buf)


def make_record(kind, seq, record_length):
    record_type, prefix = {"signal": (10, SIGNAL_PREFIX), "processed": (11, PROCESSED_PREFIX)}[kind]
    buf = bytearray(record_length)
    buf[:12] = preamble(seq + 1, record_type, record_length)
    struct.pack_into(">IIIIII", buf, 12, seq + 1, 1, 0, (record_length - prefix) // 2, 0, 0)
    struct.pack_into(">III", buf, 36, 2020, 32 + seq, 1000 * seq + 7)
    struct.pack_into(">HHHH", buf, 48, 2, 0, 0, 1)
    struct.pack_into(">II", buf, 56, 2_000_000 + seq, 3)
    if kind == "signal":
        struct.pack_into(">HHIIII", buf, 64, 1, 0, 27, 5, 6, 7)
        struct.pack_into(">Q", buf, 84, 1_000_000 * seq + 13)
        struct.pack_into(">II", buf, 92, 40 + seq, seq % 2)
        struct.pack_into(">I", buf, 128, 1)
        struct.pack_into(">II", buf, 132, 35_000_000 + seq, 139_000_000 + seq)
        struct.pack_into(">I", buf, 284, 710)
        pixels = np.arange(seq, seq + (record_length - prefix) // 4, dtype=">f4") / 4
        buf[prefix:] = pixels.tobytes()
    else:
        struct.pack_into(">III", buf, 64, 800_000, 850_000 + seq, 900_000)
        struct.pack_into(">II", buf, 132, 35_000_000 + seq, 35_500_000 + seq)
        pixels = np.arange(seq * 100, seq * 100 + (record_length - prefix) // 2, dtype=">u2")
        buf[prefix:] = pixels.tobytes()
    return bytes(buf)


def make_file(kind, n_records=5, n_columns=4, **fields):
    if kind == "signal":
        record_length = SIGNAL_PREFIX + 8 * n_columns
        fields = {
            "sar_data_format_type_code": "C*8",
            "number_of_burst_data": 2,
            "number_of_lines_per_burst": 3,
            "number_of_overlap_lines_with_adjacent_bursts": 1,
            **fields,
        }
    else:
        record_length = PROCESSED_PREFIX + 2 * n_columns
        fields = {
            "sar_data_format_type_code": "IU2",
            "maximum_data_range_of_pixel": 65535,
            **fields,
        }
    descriptor = make_descriptor(n_records, record_length, n_columns, **fields)
    return descriptor + b"".join(make_record(kind, seq, record_length) for seq in range(n_records))


# --------------------------------------------------------------------------
# logging file system
# --------------------------------------------------------------------------
LOG = []


class LoggedFile:
    def __init__(self, f, path):
        self._f = f
        self._path = path

    def read(self, size=-1):
        entry = ["read", self._path, size, None]
        LOG.append(entry)
        data = self._f.read(size)
        entry[3] = len(data)
        return data

    def seek(self, *args):
        LOG.append(["seek", self._path, *args])
        return self._f.seek(*args)

    def tell(self):
        LOG.append(["tell", self._path])
        return self._f.tell()

    def close(self):
        LOG.append(["close", self._path])
        return self._f.close()

    def __enter__(self):
        LOG.append(["enter", self._path])
        return self

    def __exit__(self, *exc_info):
        LOG.append(["exit", self._path, None if exc_info[0] is None else exc_info[0].__name__])
        self.close()

    def __getattr__(self, name):
        LOG.append(["getattr", self._path, name])
        return getattr(self._f, name)


class LoggingFileSystem(MemoryFileSystem):
    cachable = False

    def _open(self, path, mode="rb", **kwargs):
        LOG.append(["open", path, mode])
        return LoggedFile(super()._open(path, mode=mode, **kwargs), path)

    def isfile(self, path):
        LOG.append(["isfile", path])
        return super().isfile(path)

    def cat_file(self, path, start=None, end=None, **kwargs):
        LOG.append(["cat_file", path, start, end])
        return super().cat_file(path, start=start, end=end, **kwargs)


# --------------------------------------------------------------------------
# canonical dumps
# --------------------------------------------------------------------------
def digest(data):
    if isinstance(data, str):
        data = data.encode()
    return hashlib.sha256(data).hexdigest()[:16]


def describe(value):
    if isinstance(value, np.ndarray):
        return ("ndarray", str(value.dtype), value.shape, repr(value.tolist()))
    if isinstance(value, Array):
        fs = value.fs
        dump = {
            "fs": (type(fs).__name__, getattr(fs, "path", None), type(getattr(fs, "fs", None)).__name__),
            "url": value.url,
            "byte_ranges": value.byte_ranges,
            "shape": value.shape,
            "dtype": describe(value.dtype),
            "type_code": value.type_code,
            "records_per_chunk": describe(value.records_per_chunk),
            "chunk_offsets": value.chunk_offsets,
        }
        mark = len(LOG)
        try:
            pixels = value[(slice(None), slice(None))]
        except Exception as e:  # noqa: BLE001
            dump["pixels"] = f"{type(e).__name__}: {e}"
        else:
            dump["pixels"] = describe(pixels)
        dump["pixel-io"] = [tuple(entry) for entry in LOG[mark:]]
        del LOG[mark:]
        return ("Array", dump)
    if isinstance(value, Variable):
        return ("Variable", value.dims, describe(value.data), describe(value.attrs))
    if isinstance(value, Group):
        return (
            "Group",
            {
                "path": value.path,
                "url": value.url,
                "attrs": [(k, describe(v)) for k, v in value.attrs.items()],
                "data": [(k, describe(v)) for k, v in value.data.items()],
            },
        )
    if isinstance(value, dict):
        return ("dict", [(describe(k), describe(v)) for k, v in value.items()])
    if isinstance(value, (list, tuple)):
        return (type(value).__name__, [describe(v) for v in value])
    return (type(value).__qualname__, repr(value))


def summarize(result):
    """full dump as a digest, the interesting bits in readable form"""
    summary = {"digest": digest(repr(describe(result))), "type": type(result).__qualname__}
    if not isinstance(result, Group):
        summary["repr"] = repr(result)
        return summary

    summary["path"] = result.path
    summary["url"] = result.url
    summary["attrs"] = (len(result.attrs), digest(repr(list(result.attrs.items()))))
    summary["names"] = (len(result.data), digest(repr(list(result.data))))
    data = result.data.get("data")
    if isinstance(data, Variable) and isinstance(data.data, Array):
        array = data.data
        kind, dump = describe(array)
        pixels = dump["pixels"]
        summary["array"] = {
            "dims": data.dims,
            "attrs": data.attrs,
            "fs": dump["fs"],
            "url": array.url,
            "shape": array.shape,
            "dtype": describe(array.dtype),
            "type_code": array.type_code,
            "records_per_chunk": describe(array.records_per_chunk),
            "byte_ranges": (array.byte_ranges[:1], digest(repr(array.byte_ranges))),
            "chunk_offsets": (len(array.chunk_offsets), digest(repr(array.chunk_offsets))),
            "pixels": pixels if isinstance(pixels, str) else digest(repr(pixels)),
            "pixel-io": (len(dump["pixel-io"]), digest(repr(dump["pixel-io"]))),
        }
    return summary


def short(entries):
    """log entries with the common root abbreviated"""
    return [tuple(abbreviate(e) if isinstance(e, str) else e for e in entry) for entry in entries]


def abbreviate(text):
    return (
        text.replace(ROOT + "/", "~/").replace(SIGNAL_NAME, "{HH}").replace(PROCESSED_NAME, "{HV}")
    )


class Scenario:
    """fresh file system content + fresh local cache directory"""

    def __init__(self, files):
        self.files = files

    def __enter__(self):
        LoggingFileSystem.store.clear()
        LoggingFileSystem.pseudo_dirs[:] = [""]
        self.fs = LoggingFileSystem()
        for name, content in self.files.items():
            self.fs.pipe_file(f"{ROOT}/{name}", content)
        self.mapper = self.fs.get_mapper(ROOT)
        self.cache_root = pathlib.Path(tempfile.mkdtemp(prefix="equiv4-"))
        self._saved = caching.path.cache_root
        caching.path.cache_root = self.cache_root
        del LOG[:]
        return self

    def __exit__(self, *exc_info):
        caching.path.cache_root = self._saved
        shutil.rmtree(self.cache_root, ignore_errors=True)
        LoggingFileSystem.store.clear()

    def local_cache(self, name):
        return caching.path.local_cache_location(self.mapper.root, name)

    def call(self, *args, **kwargs):
        del LOG[:]
        try:
            result = sar_image.open_image(self.mapper, *args, **kwargs)
        except Exception as e:  # noqa: BLE001
            message = str(e).replace(str(self.cache_root), "<cache-root>")
            outcome = {"error": f"{type(e).__name__}: {message}"}
            outcome["io"] = short(LOG)
        else:
            io_log = short(LOG)
            del LOG[:]
            outcome = {"result": summarize(result), "io": io_log}
        outcome["local-caches"] = sorted(
            (abbreviate(str(p.relative_to(self.cache_root))), digest(p.read_bytes()))
            for p in self.cache_root.rglob("*")
            if p.is_file()
        )
        outcome["remote-files"] = sorted(
            (abbreviate(path), digest(f.getvalue()))
            for path, f in LoggingFileSystem.store.items()
        )
        del LOG[:]
        return outcome


def reference_cache(kind, name, rpc=2):
    """a valid cache file, produced by the library itself"""
    with Scenario({name: make_file(kind)}) as s:
        group = sar_image.open_image(s.mapper, name, use_cache=False, records_per_chunk=rpc)
        return caching.encode(group)


def image_cases():
    files = {SIGNAL_NAME: make_file("signal"), PROCESSED_NAME: make_file("processed", 6, 3)}

    # plain reads
    for name in files:
        for use_cache in (True, False):
            for create_cache in (True, False):
                for rpc in (1, 2, 4, 1024):
                    label = f"{name[4:6]}-use{int(use_cache)}-create{int(create_cache)}-rpc{rpc}"
                    kwargs = dict(
                        use_cache=use_cache, create_cache=create_cache, records_per_chunk=rpc
                    )
                    yield f"read/{label}", files, [((name,), kwargs)]
    yield "read/defaults", files, [((SIGNAL_NAME,), {})]
    yield "read/rpc-none-no-cache", files, [((SIGNAL_NAME,), {"use_cache": False})]
    yield "read/rpc-auto", files, [((PROCESSED_NAME,), {"records_per_chunk": "auto"})]
    yield "read/rpc-zero", files, [((PROCESSED_NAME,), {"records_per_chunk": 0})]
    yield "read/rpc-negative", files, [((PROCESSED_NAME,), {"records_per_chunk": -1})]
    yield "read/rpc-3-kw-order", files, [
        ((PROCESSED_NAME,), {"records_per_chunk": 3, "create_cache": True, "use_cache": False})
    ]
    yield "read/positional-options", files, [((SIGNAL_NAME, True, False, 2), {})]
    yield "read/unknown-option", files, [((SIGNAL_NAME,), {"chunks": 2})]
    yield "read/empty-image", {PROCESSED_NAME: make_file("processed", 0)}, [
        ((PROCESSED_NAME,), {"records_per_chunk": 2, "create_cache": True})
    ]
    yield "read/one-line", {PROCESSED_NAME: make_file("processed", 1)}, [
        ((PROCESSED_NAME,), {"records_per_chunk": 2, "create_cache": True})
    ]

    # local caches: created by the first call, used (or not) by the following ones
    yield "local-cache/create-then-use", files, [
        ((SIGNAL_NAME,), {"create_cache": True, "records_per_chunk": 2}),
        ((SIGNAL_NAME,), {"records_per_chunk": 2}),
        ((SIGNAL_NAME,), {"records_per_chunk": 4}),
        ((SIGNAL_NAME,), {"use_cache": False, "records_per_chunk": 2}),
        ((SIGNAL_NAME,), {"create_cache": True, "records_per_chunk": 1024}),
        ((PROCESSED_NAME,), {"records_per_chunk": 2}),
    ]
    yield "local-cache/recreate", files, [
        ((PROCESSED_NAME,), {"create_cache": True, "records_per_chunk": 2}),
        ((PROCESSED_NAME,), {"create_cache": True, "use_cache": False, "records_per_chunk": 3}),
        ((PROCESSED_NAME,), {"records_per_chunk": None}),
    ]

    # broken images
    truncated = {SIGNAL_NAME: files[SIGNAL_NAME][:-100]}
    for use_cache in (True, False):
        kwargs = {"use_cache": use_cache, "create_cache": True, "records_per_chunk": 2}
        yield f"broken/truncated-use{int(use_cache)}", truncated, [((SIGNAL_NAME,), kwargs)]
        yield f"broken/missing-use{int(use_cache)}", {}, [((SIGNAL_NAME,), kwargs)]
    yield "broken/empty", {SIGNAL_NAME: b""}, [((SIGNAL_NAME,), {"records_per_chunk": 2})]
    unknown_type = {PROCESSED_NAME: make_file("processed", sar_data_format_type_code="F*4")}
    yield "broken/unknown-type-code", unknown_type, [
        ((PROCESSED_NAME,), {"create_cache": True, "records_per_chunk": 2})
    ]
    wrong_record = bytearray(files[PROCESSED_NAME])
    wrong_record[720 + 5] = 77
    yield "broken/unknown-record-type", {PROCESSED_NAME: bytes(wrong_record)}, [
        ((PROCESSED_NAME,), {"create_cache": True, "records_per_chunk": 2})
    ]

    # names that can't be decoded: found out only after the file has been read
    for name in ("IMG-HH-nonsense", "sub/" + SIGNAL_NAME, "IMG-HH-ALOS2225333100-180726-XXXR1.1__D-B3"):
        renamed = {name: files[SIGNAL_NAME]}
        yield f"badname/{name}", renamed, [
            ((name,), {"create_cache": True, "records_per_chunk": 2}),
            ((name,), {"use_cache": False, "records_per_chunk": 2}),
        ]
    leader_like = "LED-ALOS2225333100-180726-WWDR1.1__D"
    yield "badname/no-polarization", {leader_like: files[SIGNAL_NAME]}, [
        ((leader_like,), {"create_cache": True, "records_per_chunk": 2}),
    ]


def remote_cache_cases():
    files = {SIGNAL_NAME: make_file("signal"), PROCESSED_NAME: make_file("processed", 6, 3)}
    valid = reference_cache("signal", SIGNAL_NAME)
    other = reference_cache("processed", PROCESSED_NAME)
    index = f"{SIGNAL_NAME}.index"

    calls = [
        ((SIGNAL_NAME,), {"records_per_chunk": 2}),
        ((SIGNAL_NAME,), {"records_per_chunk": 1024, "create_cache": True}),
        ((SIGNAL_NAME,), {"use_cache": False, "records_per_chunk": 2}),
        ((PROCESSED_NAME,), {"records_per_chunk": 2}),
    ]
    yield "remote-cache/valid", {**files, index: valid.encode()}, calls
    yield "remote-cache/valid-without-image", {index: valid.encode()}, calls[:3]
    yield "remote-cache/of-another-image", {**files, index: other.encode()}, calls[:2]
    for label, content in {
        "garbage": b"\x00\x01 not json",
        "empty": b"",
        "truncated": valid.encode()[: len(valid) // 2],
        "not-utf8": b"\xff\xfe{}",
        "json-empty-object": b"{}",
        "json-null": b"null",
        "json-list": b"[1, 2]",
        "json-number": b"5",
        "json-group-without-data": b'{"__type__": "group", "path": "x", "url": null, "attrs": {}}',
        "json-variable": (
            b'{"__type__": "variable", "dims": ["x"], "attrs": {},'
            b' "data": {"__type__": "array", "dtype": "int64", "data": [1, 2], "encoding": {}}}'
        ),
    }.items():
        yield f"remote-cache/{label}", {**files, index: content}, [
            ((SIGNAL_NAME,), {"records_per_chunk": 2, "create_cache": True}),
            ((SIGNAL_NAME,), {"records_per_chunk": 2, "use_cache": False}),
        ]

    # a local cache takes precedence over a remote one
    yield "both-caches/local-wins", {**files, index: other.encode()}, [
        ((SIGNAL_NAME,), {"use_cache": False, "create_cache": True, "records_per_chunk": 2}),
        ((SIGNAL_NAME,), {"records_per_chunk": 2}),
    ]


def local_garbage_case():
    files = {SIGNAL_NAME: make_file("signal")}
    with Scenario(files) as s:
        location = s.local_cache(SIGNAL_NAME)
        location.parent.mkdir(parents=True)
        location.write_text("{ broken")
        yield "local-cache/garbage", s.call(SIGNAL_NAME, records_per_chunk=2)
        yield "local-cache/garbage-overwritten", s.call(
            SIGNAL_NAME, records_per_chunk=2, create_cache=True
        )
        yield "local-cache/valid-again", s.call(SIGNAL_NAME, records_per_chunk=2)
        location.unlink()
        location.mkdir()
        yield "local-cache/is-a-directory", s.call(SIGNAL_NAME, records_per_chunk=2)
        yield "local-cache/is-a-directory-create", s.call(
            SIGNAL_NAME, records_per_chunk=2, create_cache=True
        )


def groupname_cases():
    names = [
        SIGNAL_NAME,
        PROCESSED_NAME,
        "IMG-VV-ALOS2225333100-180726-WWDR1.1__D-F1",
        "IMG-VH-ALOS2225333100-180726-WWDR1.1__D-B0",
        "IMG-HH-ALOS2225333100-180726-FBDR1.1__A",
        "IMG-ALOS2225333100-180726-WWDR1.1__D-B5",
        "IMG-ALOS2225333100-180726-WWDR1.1__D",
        "LED-ALOS2290760600-191011-WWDR1.5RUA",
        "TRL-ALOS2290760600-191011-WWDR1.5RUA",
        "VOL-ALOS2290760600-191011-WWDR1.5RUA",
        "LED-ALOS2290760600-191011-WWDR1.5RUA-B2",
        "IMG-HH-ALOS2225333100-180726-WWDR1.1__D-X3",
        "IMG-HH-ALOS2225333100-180726-WWDR1.1__D-B",
        "IMG-HH-ALOS2225333100-180732-WWDR1.1__D-B3",
        "IMG-HH-ALOS2225333100-180726-WWDX1.1__D-B3",
        "IMG-HX-ALOS2225333100-180726-WWDR1.1__D-B3",
        "img-hh-alos2225333100-180726-wwdr1.1__d-b3",
        "/data/" + SIGNAL_NAME,
        SIGNAL_NAME + ".index",
        SIGNAL_NAME + "\n",
        "",
        None,
        5,
        SIGNAL_NAME.encode(),
        pathlib.PurePosixPath(SIGNAL_NAME),
    ]
    for name in names:
        try:
            result = sar_image.filename_to_groupname(name)
        except Exception as e:  # noqa: BLE001
            yield f"groupname/{name!r}", {"error": f"{type(e).__name__}: {e}"}
        else:
            yield f"groupname/{name!r}", {"result": describe(result)}


def collect():
    outcomes = {}
    for cases in (image_cases(), remote_cache_cases()):
        for label, files, calls in cases:
            with Scenario(files) as s:
                for number, (args, kwargs) in enumerate(calls):
                    outcomes[f"{label}#{number}"] = s.call(*args, **kwargs)
    outcomes.update(local_garbage_case())
    outcomes.update(groupname_cases())
    return outcomes


# recorded with the unchanged code: `equiv.py --record`
# >>> EXPECTED
# fmt: off
EXPECTED = {'read/HH-use1-create1-rpc1#0': {'result': {'digest': '9b5b2892676b6c87',
                                            'type': 'Group',
                                            'path': 'HH_scan3',
                                            'url': None,
                                            'attrs': (15, 'f8d99856b25c71ae'),
                                            'names': (32, '7bce531cf4d41d8b'),
                                            'array': {'dims': ['rows', 'columns'],
                                                      'attrs': {},
                                                      'fs': ('DirFileSystem', '/products/p1', 'LoggingFileSystem'),
                                                      'url': 'IMG-HH-ALOS2225333100-180726-WWDR1.1__D-B3',
                                                      'shape': (5, 4),
                                                      'dtype': ('str', "'complex64'"),
                                                      'type_code': 'C*8',
                                                      'records_per_chunk': ('int', '1'),
                                                      'byte_ranges': ([(1264, 1296)], '7bdb7111993ae192'),
                                                      'chunk_offsets': (5, '49e94e5e30e54d97'),
                                                      'pixels': 'cdbee6abd261cb29',
                                                      'pixel-io': (17, '8bf2961d2f29bd4e')}},
                                 'io': [('isfile', '~/{HH}.index'), ('open', '~/{HH}', 'rb'), ('isfile', '/products/p1'), ('isfile', '/products'),
                                        ('isfile', '/'), ('enter', '~/{HH}'), ('read', '~/{HH}', 720, 720), ('read', '~/{HH}', 576, 576),
                                        ('read', '~/{HH}', 576, 576), ('read', '~/{HH}', 576, 576), ('read', '~/{HH}', 576, 576), ('read', '~/{HH}', 576, 576),
                                        ('exit', '~/{HH}', None), ('close', '~/{HH}')],
                                 'local-caches': [('82a71c1c919bc2dd4d97f62db2da91091a07a89d6a669f881d0ca3198a917cb3/{HH}.index', '6b4719d77d55abc2')],
                                 'remote-files': [('~/{HH}', 'de06a0dfa5513ac2'), ('~/{HV}', 'b5ef31a26057e155')]},
 'read/HH-use1-create1-rpc2#0': {'result': {'digest': '104d8d11fbb7a927',
                                            'type': 'Group',
                                            'path': 'HH_scan3',
                                            'url': None,
                                            'attrs': (15, 'f8d99856b25c71ae'),
                                            'names': (32, '7bce531cf4d41d8b'),
                                            'array': {'dims': ['rows', 'columns'],
                                                      'attrs': {},
                                                      'fs': ('DirFileSystem', '/products/p1', 'LoggingFileSystem'),
                                                      'url': 'IMG-HH-ALOS2225333100-180726-WWDR1.1__D-B3',
                                                      'shape': (5, 4),
                                                      'dtype': ('str', "'complex64'"),
                                                      'type_code': 'C*8',
                                                      'records_per_chunk': ('int', '2'),
                                                      'byte_ranges': ([(1264, 1296)], '7bdb7111993ae192'),
                                                      'chunk_offsets': (3, '31ca614b8a645566'),
                                                      'pixels': 'cdbee6abd261cb29',
                                                      'pixel-io': (13, 'bb62476b1283913a')}},
                                 'io': [('isfile', '~/{HH}.index'), ('open', '~/{HH}', 'rb'), ('isfile', '/products/p1'), ('isfile', '/products'),
                                        ('isfile', '/'), ('enter', '~/{HH}'), ('read', '~/{HH}', 720, 720), ('read', '~/{HH}', 1152, 1152),
                                        ('read', '~/{HH}', 1152, 1152), ('read', '~/{HH}', 576, 576), ('exit', '~/{HH}', None), ('close', '~/{HH}')],
                                 'local-caches': [('82a71c1c919bc2dd4d97f62db2da91091a07a89d6a669f881d0ca3198a917cb3/{HH}.index', '6b4719d77d55abc2')],
                                 'remote-files': [('~/{HH}', 'de06a0dfa5513ac2'), ('~/{HV}', 'b5ef31a26057e155')]},
 'read/HH-use1-create1-rpc4#0': {'result': {'digest': '40f083e38dfbb02c',
                                            'type': 'Group',
                                            'path': 'HH_scan3',
                                            'url': None,
                                            'attrs': (15, 'f8d99856b25c71ae'),
                                            'names': (32, '7bce531cf4d41d8b'),
                                            'array': {'dims': ['rows', 'columns'],
                                                      'attrs': {},
                                                      'fs': ('DirFileSystem', '/products/p1', 'LoggingFileSystem'),
                                                      'url': 'IMG-HH-ALOS2225333100-180726-WWDR1.1__D-B3',
                                                      'shape': (5, 4),
                                                      'dtype': ('str', "'complex64'"),
                                                      'type_code': 'C*8',
                                                      'records_per_chunk': ('int', '4'),
                                                      'byte_ranges': ([(1264, 1296)], '7bdb7111993ae192'),
                                                      'chunk_offsets': (2, 'f1a1c5152c64bad5'),
                                                      'pixels': 'cdbee6abd261cb29',
                                                      'pixel-io': (11, 'c87756e5cd777d4d')}},
                                 'io': [('isfile', '~/{HH}.index'), ('open', '~/{HH}', 'rb'), ('isfile', '/products/p1'), ('isfile', '/products'),
                                        ('isfile', '/'), ('enter', '~/{HH}'), ('read', '~/{HH}', 720, 720), ('read', '~/{HH}', 2304, 2304),
                                        ('read', '~/{HH}', 576, 576), ('exit', '~/{HH}', None), ('close', '~/{HH}')],
                                 'local-caches': [('82a71c1c919bc2dd4d97f62db2da91091a07a89d6a669f881d0ca3198a917cb3/{HH}.index', '6b4719d77d55abc2')],
                                 'remote-files': [('~/{HH}', 'de06a0dfa5513ac2'), ('~/{HV}', 'b5ef31a26057e155')]},
 'read/HH-use1-create1-rpc1024#0': {'result': {'digest': 'af7b9b72748a004c',
                                               'type': 'Group',
                                               'path': 'HH_scan3',
                                               'url': None,
                                               'attrs': (15, 'f8d99856b25c71ae'),
                                               'names': (32, '7bce531cf4d41d8b'),
                                               'array': {'dims': ['rows', 'columns'],
                                                         'attrs': {},
                                                         'fs': ('DirFileSystem', '/products/p1', 'LoggingFileSystem'),
                                                         'url': 'IMG-HH-ALOS2225333100-180726-WWDR1.1__D-B3',
                                                         'shape': (5, 4),
                                                         'dtype': ('str', "'complex64'"),
                                                         'type_code': 'C*8',
                                                         'records_per_chunk': ('int', '5'),
                                                         'byte_ranges': ([(1264, 1296)], '7bdb7111993ae192'),
                                                         'chunk_offsets': (1, 'eb40f988d737904d'),
                                                         'pixels': 'cdbee6abd261cb29',
                                                         'pixel-io': (9, 'd48203505ddbf0df')}},
                                    'io': [('isfile', '~/{HH}.index'), ('open', '~/{HH}', 'rb'), ('isfile', '/products/p1'), ('isfile', '/products'),
                                           ('isfile', '/'), ('enter', '~/{HH}'), ('read', '~/{HH}', 720, 720), ('read', '~/{HH}', 2880, 2880),
                                           ('exit', '~/{HH}', None), ('close', '~/{HH}')],
                                    'local-caches': [('82a71c1c919bc2dd4d97f62db2da91091a07a89d6a669f881d0ca3198a917cb3/{HH}.index', '6b4719d77d55abc2')],
                                    'remote-files': [('~/{HH}', 'de06a0dfa5513ac2'), ('~/{HV}', 'b5ef31a26057e155')]},
 'read/HH-use1-create0-rpc1#0': {'result': {'digest': '9b5b2892676b6c87',
                                            'type': 'Group',
                                            'path': 'HH_scan3',
                                            'url': None,
                                            'attrs': (15, 'f8d99856b25c71ae'),
                                            'names': (32, '7bce531cf4d41d8b'),
                                            'array': {'dims': ['rows', 'columns'],
                                                      'attrs': {},
                                                      'fs': ('DirFileSystem', '/products/p1', 'LoggingFileSystem'),
                                                      'url': 'IMG-HH-ALOS2225333100-180726-WWDR1.1__D-B3',
                                                      'shape': (5, 4),
                                                      'dtype': ('str', "'complex64'"),
                                                      'type_code': 'C*8',
                                                      'records_per_chunk': ('int', '1'),
                                                      'byte_ranges': ([(1264, 1296)], '7bdb7111993ae192'),
                                                      'chunk_offsets': (5, '49e94e5e30e54d97'),
                                                      'pixels': 'cdbee6abd261cb29',
                                                      'pixel-io': (17, '8bf2961d2f29bd4e')}},
                                 'io': [('isfile', '~/{HH}.index'), ('open', '~/{HH}', 'rb'), ('isfile', '/products/p1'), ('isfile', '/products'),
                                        ('isfile', '/'), ('enter', '~/{HH}'), ('read', '~/{HH}', 720, 720), ('read', '~/{HH}', 576, 576),
                                        ('read', '~/{HH}', 576, 576), ('read', '~/{HH}', 576, 576), ('read', '~/{HH}', 576, 576), ('read', '~/{HH}', 576, 576),
                                        ('exit', '~/{HH}', None), ('close', '~/{HH}')],
                                 'local-caches': [],
                                 'remote-files': [('~/{HH}', 'de06a0dfa5513ac2'), ('~/{HV}', 'b5ef31a26057e155')]},
 'read/HH-use1-create0-rpc2#0': {'result': {'digest': '104d8d11fbb7a927',
                                            'type': 'Group',
                                            'path': 'HH_scan3',
                                            'url': None,
                                            'attrs': (15, 'f8d99856b25c71ae'),
                                            'names': (32, '7bce531cf4d41d8b'),
                                            'array': {'dims': ['rows', 'columns'],
                                                      'attrs': {},
                                                      'fs': ('DirFileSystem', '/products/p1', 'LoggingFileSystem'),
                                                      'url': 'IMG-HH-ALOS2225333100-180726-WWDR1.1__D-B3',
                                                      'shape': (5, 4),
                                                      'dtype': ('str', "'complex64'"),
                                                      'type_code': 'C*8',
                                                      'records_per_chunk': ('int', '2'),
                                                      'byte_ranges': ([(1264, 1296)], '7bdb7111993ae192'),
                                                      'chunk_offsets': (3, '31ca614b8a645566'),
                                                      'pixels': 'cdbee6abd261cb29',
                                                      'pixel-io': (13, 'bb62476b1283913a')}},
                                 'io': [('isfile', '~/{HH}.index'), ('open', '~/{HH}', 'rb'), ('isfile', '/products/p1'), ('isfile', '/products'),
                                        ('isfile', '/'), ('enter', '~/{HH}'), ('read', '~/{HH}', 720, 720), ('read', '~/{HH}', 1152, 1152),
                                        ('read', '~/{HH}', 1152, 1152), ('read', '~/{HH}', 576, 576), ('exit', '~/{HH}', None), ('close', '~/{HH}')],
                                 'local-caches': [],
                                 'remote-files': [('~/{HH}', 'de06a0dfa5513ac2'), ('~/{HV}', 'b5ef31a26057e155')]},
 'read/HH-use1-create0-rpc4#0': {'result': {'digest': '40f083e38dfbb02c',
                                            'type': 'Group',
                                            'path': 'HH_scan3',
                                            'url': None,
                                            'attrs': (15, 'f8d99856b25c71ae'),
                                            'names': (32, '7bce531cf4d41d8b'),
                                            'array': {'dims': ['rows', 'columns'],
                                                      'attrs': {},
                                                      'fs': ('DirFileSystem', '/products/p1', 'LoggingFileSystem'),
                                                      'url': 'IMG-HH-ALOS2225333100-180726-WWDR1.1__D-B3',
                                                      'shape': (5, 4),
                                                      'dtype': ('str', "'complex64'"),
                                                      'type_code': 'C*8',
                                                      'records_per_chunk': ('int', '4'),
                                                      'byte_ranges': ([(1264, 1296)], '7bdb7111993ae192'),
                                                      'chunk_offsets': (2, 'f1a1c5152c64bad5'),
                                                      'pixels': 'cdbee6abd261cb29',
                                                      'pixel-io': (11, 'c87756e5cd777d4d')}},
                                 'io': [('isfile', '~/{HH}.index'), ('open', '~/{HH}', 'rb'), ('isfile', '/products/p1'), ('isfile', '/products'),
                                        ('isfile', '/'), ('enter', '~/{HH}'), ('read', '~/{HH}', 720, 720), ('read', '~/{HH}', 2304, 2304),
                                        ('read', '~/{HH}', 576, 576), ('exit', '~/{HH}', None), ('close', '~/{HH}')],
                                 'local-caches': [],
                                 'remote-files': [('~/{HH}', 'de06a0dfa5513ac2'), ('~/{HV}', 'b5ef31a26057e155')]},
 'read/HH-use1-create0-rpc1024#0': {'result': {'digest': 'af7b9b72748a004c',
                                               'type': 'Group',
                                               'path': 'HH_scan3',
                                               'url': None,
                                               'attrs': (15, 'f8d99856b25c71ae'),
                                               'names': (32, '7bce531cf4d41d8b'),
                                               'array': {'dims': ['rows', 'columns'],
                                                         'attrs': {},
                                                         'fs': ('DirFileSystem', '/products/p1', 'LoggingFileSystem'),
                                                         'url': 'IMG-HH-ALOS2225333100-180726-WWDR1.1__D-B3',
                                                         'shape': (5, 4),
                                                         'dtype': ('str', "'complex64'"),
                                                         'type_code': 'C*8',
                                                         'records_per_chunk': ('int', '5'),
                                                         'byte_ranges': ([(1264, 1296)], '7bdb7111993ae192'),
                                                         'chunk_offsets': (1, 'eb40f988d737904d'),
                                                         'pixels': 'cdbee6abd261cb29',
                                                         'pixel-io': (9, 'd48203505ddbf0df')}},
                                    'io': [('isfile', '~/{HH}.index'), ('open', '~/{HH}', 'rb'), ('isfile', '/products/p1'), ('isfile', '/products'),
                                           ('isfile', '/'), ('enter', '~/{HH}'), ('read', '~/{HH}', 720, 720), ('read', '~/{HH}', 2880, 2880),
                                           ('exit', '~/{HH}', None), ('close', '~/{HH}')],
                                    'local-caches': [],
                                    'remote-files': [('~/{HH}', 'de06a0dfa5513ac2'), ('~/{HV}', 'b5ef31a26057e155')]},
 'read/HH-use0-create1-rpc1#0': {'result': {'digest': '9b5b2892676b6c87',
                                            'type': 'Group',
                                            'path': 'HH_scan3',
                                            'url': None,
                                            'attrs': (15, 'f8d99856b25c71ae'),
                                            'names': (32, '7bce531cf4d41d8b'),
                                            'array': {'dims': ['rows', 'columns'],
                                                      'attrs': {},
                                                      'fs': ('DirFileSystem', '/products/p1', 'LoggingFileSystem'),
                                                      'url': 'IMG-HH-ALOS2225333100-180726-WWDR1.1__D-B3',
                                                      'shape': (5, 4),
                                                      'dtype': ('str', "'complex64'"),
                                                      'type_code': 'C*8',
                                                      'records_per_chunk': ('int', '1'),
                                                      'byte_ranges': ([(1264, 1296)], '7bdb7111993ae192'),
                                                      'chunk_offsets': (5, '49e94e5e30e54d97'),
                                                      'pixels': 'cdbee6abd261cb29',
                                                      'pixel-io': (17, '8bf2961d2f29bd4e')}},
                                 'io': [('open', '~/{HH}', 'rb'), ('isfile', '/products/p1'), ('isfile', '/products'), ('isfile', '/'), ('enter', '~/{HH}'),
                                        ('read', '~/{HH}', 720, 720), ('read', '~/{HH}', 576, 576), ('read', '~/{HH}', 576, 576), ('read', '~/{HH}', 576, 576),
                                        ('read', '~/{HH}', 576, 576), ('read', '~/{HH}', 576, 576), ('exit', '~/{HH}', None), ('close', '~/{HH}')],
                                 'local-caches': [('82a71c1c919bc2dd4d97f62db2da91091a07a89d6a669f881d0ca3198a917cb3/{HH}.index', '6b4719d77d55abc2')],
                                 'remote-files': [('~/{HH}', 'de06a0dfa5513ac2'), ('~/{HV}', 'b5ef31a26057e155')]},
 'read/HH-use0-create1-rpc2#0': {'result': {'digest': '104d8d11fbb7a927',
                                            'type': 'Group',
                                            'path': 'HH_scan3',
                                            'url': None,
                                            'attrs': (15, 'f8d99856b25c71ae'),
                                            'names': (32, '7bce531cf4d41d8b'),
                                            'array': {'dims': ['rows', 'columns'],
                                                      'attrs': {},
                                                      'fs': ('DirFileSystem', '/products/p1', 'LoggingFileSystem'),
                                                      'url': 'IMG-HH-ALOS2225333100-180726-WWDR1.1__D-B3',
                                                      'shape': (5, 4),
                                                      'dtype': ('str', "'complex64'"),
                                                      'type_code': 'C*8',
                                                      'records_per_chunk': ('int', '2'),
                                                      'byte_ranges': ([(1264, 1296)], '7bdb7111993ae192'),
                                                      'chunk_offsets': (3, '31ca614b8a645566'),
                                                      'pixels': 'cdbee6abd261cb29',
                                                      'pixel-io': (13, 'bb62476b1283913a')}},
                                 'io': [('open', '~/{HH}', 'rb'), ('isfile', '/products/p1'), ('isfile', '/products'), ('isfile', '/'), ('enter', '~/{HH}'),
                                        ('read', '~/{HH}', 720, 720), ('read', '~/{HH}', 1152, 1152), ('read', '~/{HH}', 1152, 1152),
                                        ('read', '~/{HH}', 576, 576), ('exit', '~/{HH}', None), ('close', '~/{HH}')],
                                 'local-caches': [('82a71c1c919bc2dd4d97f62db2da91091a07a89d6a669f881d0ca3198a917cb3/{HH}.index', '6b4719d77d55abc2')],
                                 'remote-files': [('~/{HH}', 'de06a0dfa5513ac2'), ('~/{HV}', 'b5ef31a26057e155')]},
 'read/HH-use0-create1-rpc4#0': {'result': {'digest': '40f083e38dfbb02c',
                                            'type': 'Group',
                                            'path': 'HH_scan3',
                                            'url': None,
                                            'attrs': (15, 'f8d99856b25c71ae'),
                                            'names': (32, '7bce531cf4d41d8b'),
                                            'array': {'dims': ['rows', 'columns'],
                                                      'attrs': {},
                                                      'fs': ('DirFileSystem', '/products/p1', 'LoggingFileSystem'),
                                                      'url': 'IMG-HH-ALOS2225333100-180726-WWDR1.1__D-B3',
                                                      'shape': (5, 4),
                                                      'dtype': ('str', "'complex64'"),
                                                      'type_code': 'C*8',
                                                      'records_per_chunk': ('int', '4'),
                                                      'byte_ranges': ([(1264, 1296)], '7bdb7111993ae192'),
                                                      'chunk_offsets': (2, 'f1a1c5152c64bad5'),
                                                      'pixels': 'cdbee6abd261cb29',
                                                      'pixel-io': (11, 'c87756e5cd777d4d')}},
                                 'io': [('open', '~/{HH}', 'rb'), ('isfile', '/products/p1'), ('isfile', '/products'), ('isfile', '/'), ('enter', '~/{HH}'),
                                        ('read', '~/{HH}', 720, 720), ('read', '~/{HH}', 2304, 2304), ('read', '~/{HH}', 576, 576), ('exit', '~/{HH}', None),
                                        ('close', '~/{HH}')],
                                 'local-caches': [('82a71c1c919bc2dd4d97f62db2da91091a07a89d6a669f881d0ca3198a917cb3/{HH}.index', '6b4719d77d55abc2')],
                                 'remote-files': [('~/{HH}', 'de06a0dfa5513ac2'), ('~/{HV}', 'b5ef31a26057e155')]},
 'read/HH-use0-create1-rpc1024#0': {'result': {'digest': 'af7b9b72748a004c',
                                               'type': 'Group',
                                               'path': 'HH_scan3',
                                               'url': None,
                                               'attrs': (15, 'f8d99856b25c71ae'),
                                               'names': (32, '7bce531cf4d41d8b'),
                                               'array': {'dims': ['rows', 'columns'],
                                                         'attrs': {},
                                                         'fs': ('DirFileSystem', '/products/p1', 'LoggingFileSystem'),
                                                         'url': 'IMG-HH-ALOS2225333100-180726-WWDR1.1__D-B3',
                                                         'shape': (5, 4),
                                                         'dtype': ('str', "'complex64'"),
                                                         'type_code': 'C*8',
                                                         'records_per_chunk': ('int', '5'),
                                                         'byte_ranges': ([(1264, 1296)], '7bdb7111993ae192'),
                                                         'chunk_offsets': (1, 'eb40f988d737904d'),
                                                         'pixels': 'cdbee6abd261cb29',
                                                         'pixel-io': (9, 'd48203505ddbf0df')}},
                                    'io': [('open', '~/{HH}', 'rb'), ('isfile', '/products/p1'), ('isfile', '/products'), ('isfile', '/'), ('enter', '~/{HH}'),
                                           ('read', '~/{HH}', 720, 720), ('read', '~/{HH}', 2880, 2880), ('exit', '~/{HH}', None), ('close', '~/{HH}')],
                                    'local-caches': [('82a71c1c919bc2dd4d97f62db2da91091a07a89d6a669f881d0ca3198a917cb3/{HH}.index', '6b4719d77d55abc2')],
                                    'remote-files': [('~/{HH}', 'de06a0dfa5513ac2'), ('~/{HV}', 'b5ef31a26057e155')]},
 'read/HH-use0-create0-rpc1#0': {'result': {'digest': '9b5b2892676b6c87',
                                            'type': 'Group',
                                            'path': 'HH_scan3',
                                            'url': None,
                                            'attrs': (15, 'f8d99856b25c71ae'),
                                            'names': (32, '7bce531cf4d41d8b'),
                                            'array': {'dims': ['rows', 'columns'],
                                                      'attrs': {},
                                                      'fs': ('DirFileSystem', '/products/p1', 'LoggingFileSystem'),
                                                      'url': 'IMG-HH-ALOS2225333100-180726-WWDR1.1__D-B3',
                                                      'shape': (5, 4),
                                                      'dtype': ('str', "'complex64'"),
                                                      'type_code': 'C*8',
                                                      'records_per_chunk': ('int', '1'),
                                                      'byte_ranges': ([(1264, 1296)], '7bdb7111993ae192'),
                                                      'chunk_offsets': (5, '49e94e5e30e54d97'),
                                                      'pixels': 'cdbee6abd261cb29',
                                                      'pixel-io': (17, '8bf2961d2f29bd4e')}},
                                 'io': [('open', '~/{HH}', 'rb'), ('isfile', '/products/p1'), ('isfile', '/products'), ('isfile', '/'), ('enter', '~/{HH}'),
                                        ('read', '~/{HH}', 720, 720), ('read', '~/{HH}', 576, 576), ('read', '~/{HH}', 576, 576), ('read', '~/{HH}', 576, 576),
                                        ('read', '~/{HH}', 576, 576), ('read', '~/{HH}', 576, 576), ('exit', '~/{HH}', None), ('close', '~/{HH}')],
                                 'local-caches': [],
                                 'remote-files': [('~/{HH}', 'de06a0dfa5513ac2'), ('~/{HV}', 'b5ef31a26057e155')]},
 'read/HH-use0-create0-rpc2#0': {'result': {'digest': '104d8d11fbb7a927',
                                            'type': 'Group',
                                            'path': 'HH_scan3',
                                            'url': None,
                                            'attrs': (15, 'f8d99856b25c71ae'),
                                            'names': (32, '7bce531cf4d41d8b'),
                                            'array': {'dims': ['rows', 'columns'],
                                                      'attrs': {},
                                                      'fs': ('DirFileSystem', '/products/p1', 'LoggingFileSystem'),
                                                      'url': 'IMG-HH-ALOS2225333100-180726-WWDR1.1__D-B3',
                                                      'shape': (5, 4),
                                                      'dtype': ('str', "'complex64'"),
                                                      'type_code': 'C*8',
                                                      'records_per_chunk': ('int', '2'),
                                                      'byte_ranges': ([(1264, 1296)], '7bdb7111993ae192'),
                                                      'chunk_offsets': (3, '31ca614b8a645566'),
                                                      'pixels': 'cdbee6abd261cb29',
                                                      'pixel-io': (13, 'bb62476b1283913a')}},
                                 'io': [('open', '~/{HH}', 'rb'), ('isfile', '/products/p1'), ('isfile', '/products'), ('isfile', '/'), ('enter', '~/{HH}'),
                                        ('read', '~/{HH}', 720, 720), ('read', '~/{HH}', 1152, 1152), ('read', '~/{HH}', 1152, 1152),
                                        ('read', '~/{HH}', 576, 576), ('exit', '~/{HH}', None), ('close', '~/{HH}')],
                                 'local-caches': [],
                                 'remote-files': [('~/{HH}', 'de06a0dfa5513ac2'), ('~/{HV}', 'b5ef31a26057e155')]},
 'read/HH-use0-create0-rpc4#0': {'result': {'digest': '40f083e38dfbb02c',
                                            'type': 'Group',
                                            'path': 'HH_scan3',
                                            'url': None,
                                            'attrs': (15, 'f8d99856b25c71ae'),
                                            'names': (32, '7bce531cf4d41d8b'),
                                            'array': {'dims': ['rows', 'columns'],
                                                      'attrs': {},
                                                      'fs': ('DirFileSystem', '/products/p1', 'LoggingFileSystem'),
                                                      'url': 'IMG-HH-ALOS2225333100-180726-WWDR1.1__D-B3',
                                                      'shape': (5, 4),
                                                      'dtype': ('str', "'complex64'"),
                                                      'type_code': 'C*8',
                                                      'records_per_chunk': ('int', '4'),
                                                      'byte_ranges': ([(1264, 1296)], '7bdb7111993ae192'),
                                                      'chunk_offsets': (2, 'f1a1c5152c64bad5'),
                                                      'pixels': 'cdbee6abd261cb29',
                                                      'pixel-io': (11, 'c87756e5cd777d4d')}},
                                 'io': [('open', '~/{HH}', 'rb'), ('isfile', '/products/p1'), ('isfile', '/products'), ('isfile', '/'), ('enter', '~/{HH}'),
                                        ('read', '~/{HH}', 720, 720), ('read', '~/{HH}', 2304, 2304), ('read', '~/{HH}', 576, 576), ('exit', '~/{HH}', None),
                                        ('close', '~/{HH}')],
                                 'local-caches': [],
                                 'remote-files': [('~/{HH}', 'de06a0dfa5513ac2'), ('~/{HV}', 'b5ef31a26057e155')]},
 'read/HH-use0-create0-rpc1024#0': {'result': {'digest': 'af7b9b72748a004c',
                                               'type': 'Group',
                                               'path': 'HH_scan3',
                                               'url': None,
                                               'attrs': (15, 'f8d99856b25c71ae'),
                                               'names': (32, '7bce531cf4d41d8b'),
                                               'array': {'dims': ['rows', 'columns'],
                                                         'attrs': {},
                                                         'fs': ('DirFileSystem', '/products/p1', 'LoggingFileSystem'),
                                                         'url': 'IMG-HH-ALOS2225333100-180726-WWDR1.1__D-B3',
                                                         'shape': (5, 4),
                                                         'dtype': ('str', "'complex64'"),
                                                         'type_code': 'C*8',
                                                         'records_per_chunk': ('int', '5'),
                                                         'byte_ranges': ([(1264, 1296)], '7bdb7111993ae192'),
                                                         'chunk_offsets': (1, 'eb40f988d737904d'),
                                                         'pixels': 'cdbee6abd261cb29',
                                                         'pixel-io': (9, 'd48203505ddbf0df')}},
                                    'io': [('open', '~/{HH}', 'rb'), ('isfile', '/products/p1'), ('isfile', '/products'), ('isfile', '/'), ('enter', '~/{HH}'),
                                           ('read', '~/{HH}', 720, 720), ('read', '~/{HH}', 2880, 2880), ('exit', '~/{HH}', None), ('close', '~/{HH}')],
                                    'local-caches': [],
                                    'remote-files': [('~/{HH}', 'de06a0dfa5513ac2'), ('~/{HV}', 'b5ef31a26057e155')]},
 'read/HV-use1-create1-rpc1#0': {'result': {'digest': '73b8662d95c08891',
                                            'type': 'Group',
                                            'path': 'HV',
                                            'url': None,
                                            'attrs': (11, '0f359b7aa6d9b642'),
                                            'names': (26, '4724f37325f5ede9'),
                                            'array': {'dims': ['rows', 'columns'],
                                                      'attrs': {},
                                                      'fs': ('DirFileSystem', '/products/p1', 'LoggingFileSystem'),
                                                      'url': 'IMG-HV-ALOS2290760600-191011-WWDR1.5RUA',
                                                      'shape': (6, 3),
                                                      'dtype': ('str', "'uint16'"),
                                                      'type_code': 'IU2',
                                                      'records_per_chunk': ('int', '1'),
                                                      'byte_ranges': ([(912, 918)], 'a89fd365aba531e9'),
                                                      'chunk_offsets': (6, '9e6f51a4fd49054e'),
                                                      'pixels': '9b59bd2bea74d612',
                                                      'pixel-io': (19, 'd184ace3139cc185')}},
                                 'io': [('isfile', '~/{HV}.index'), ('open', '~/{HV}', 'rb'), ('isfile', '/products/p1'), ('isfile', '/products'),
                                        ('isfile', '/'), ('enter', '~/{HV}'), ('read', '~/{HV}', 720, 720), ('read', '~/{HV}', 198, 198),
                                        ('read', '~/{HV}', 198, 198), ('read', '~/{HV}', 198, 198), ('read', '~/{HV}', 198, 198), ('read', '~/{HV}', 198, 198),
                                        ('read', '~/{HV}', 198, 198), ('exit', '~/{HV}', None), ('close', '~/{HV}')],
                                 'local-caches': [('82a71c1c919bc2dd4d97f62db2da91091a07a89d6a669f881d0ca3198a917cb3/{HV}.index', 'be8a73ea92f60777')],
                                 'remote-files': [('~/{HH}', 'de06a0dfa5513ac2'), ('~/{HV}', 'b5ef31a26057e155')]},
 'read/HV-use1-create1-rpc2#0': {'result': {'digest': '756ce0453fc9b22e',
                                            'type': 'Group',
                                            'path': 'HV',
                                            'url': None,
                                            'attrs': (11, '0f359b7aa6d9b642'),
                                            'names': (26, '4724f37325f5ede9'),
                                            'array': {'dims': ['rows', 'columns'],
                                                      'attrs': {},
                                                      'fs': ('DirFileSystem', '/products/p1', 'LoggingFileSystem'),
                                                      'url': 'IMG-HV-ALOS2290760600-191011-WWDR1.5RUA',
                                                      'shape': (6, 3),
                                                      'dtype': ('str', "'uint16'"),
                                                      'type_code': 'IU2',
                                                      'records_per_chunk': ('int', '2'),
                                                      'byte_ranges': ([(912, 918)], 'a89fd365aba531e9'),
                                                      'chunk_offsets': (3, '5674d192a6afb1cb'),
                                                      'pixels': '9b59bd2bea74d612',
                                                      'pixel-io': (13, 'd46c1dab734febce')}},
                                 'io': [('isfile', '~/{HV}.index'), ('open', '~/{HV}', 'rb'), ('isfile', '/products/p1'), ('isfile', '/products'),
                                        ('isfile', '/'), ('enter', '~/{HV}'), ('read', '~/{HV}', 720, 720), ('read', '~/{HV}', 396, 396),
                                        ('read', '~/{HV}', 396, 396), ('read', '~/{HV}', 396, 396), ('exit', '~/{HV}', None), ('close', '~/{HV}')],
                                 'local-caches': [('82a71c1c919bc2dd4d97f62db2da91091a07a89d6a669f881d0ca3198a917cb3/{HV}.index', 'be8a73ea92f60777')],
                                 'remote-files': [('~/{HH}', 'de06a0dfa5513ac2'), ('~/{HV}', 'b5ef31a26057e155')]},
 'read/HV-use1-create1-rpc4#0': {'result': {'digest': '8055e9cee7abeb2d',
                                            'type': 'Group',
                                            'path': 'HV',
                                            'url': None,
                                            'attrs': (11, '0f359b7aa6d9b642'),
                                            'names': (26, '4724f37325f5ede9'),
                                            'array': {'dims': ['rows', 'columns'],
                                                      'attrs': {},
                                                      'fs': ('DirFileSystem', '/products/p1', 'LoggingFileSystem'),
                                                      'url': 'IMG-HV-ALOS2290760600-191011-WWDR1.5RUA',
                                                      'shape': (6, 3),
                                                      'dtype': ('str', "'uint16'"),
                                                      'type_code': 'IU2',
                                                      'records_per_chunk': ('int', '4'),
                                                      'byte_ranges': ([(912, 918)], 'a89fd365aba531e9'),
                                                      'chunk_offsets': (2, '8dc8ed5e7d7cc274'),
                                                      'pixels': '9b59bd2bea74d612',
                                                      'pixel-io': (11, '07a6a90f19a05ee5')}},
                                 'io': [('isfile', '~/{HV}.index'), ('open', '~/{HV}', 'rb'), ('isfile', '/products/p1'), ('isfile', '/products'),
                                        ('isfile', '/'), ('enter', '~/{HV}'), ('read', '~/{HV}', 720, 720), ('read', '~/{HV}', 792, 792),
                                        ('read', '~/{HV}', 396, 396), ('exit', '~/{HV}', None), ('close', '~/{HV}')],
                                 'local-caches': [('82a71c1c919bc2dd4d97f62db2da91091a07a89d6a669f881d0ca3198a917cb3/{HV}.index', 'be8a73ea92f60777')],
                                 'remote-files': [('~/{HH}', 'de06a0dfa5513ac2'), ('~/{HV}', 'b5ef31a26057e155')]},
 'read/HV-use1-create1-rpc1024#0': {'result': {'digest': '2fdca6f9f1667812',
                                               'type': 'Group',
                                               'path': 'HV',
                                               'url': None,
                                               'attrs': (11, '0f359b7aa6d9b642'),
                                               'names': (26, '4724f37325f5ede9'),
                                               'array': {'dims': ['rows', 'columns'],
                                                         'attrs': {},
                                                         'fs': ('DirFileSystem', '/products/p1', 'LoggingFileSystem'),
                                                         'url': 'IMG-HV-ALOS2290760600-191011-WWDR1.5RUA',
                                                         'shape': (6, 3),
                                                         'dtype': ('str', "'uint16'"),
                                                         'type_code': 'IU2',
                                                         'records_per_chunk': ('int', '6'),
                                                         'byte_ranges': ([(912, 918)], 'a89fd365aba531e9'),
                                                         'chunk_offsets': (1, '28503d2c8673f4b9'),
                                                         'pixels': '9b59bd2bea74d612',
                                                         'pixel-io': (9, 'e973e16ddecf4d3e')}},
                                    'io': [('isfile', '~/{HV}.index'), ('open', '~/{HV}', 'rb'), ('isfile', '/products/p1'), ('isfile', '/products'),
                                           ('isfile', '/'), ('enter', '~/{HV}'), ('read', '~/{HV}', 720, 720), ('read', '~/{HV}', 1188, 1188),
                                           ('exit', '~/{HV}', None), ('close', '~/{HV}')],
                                    'local-caches': [('82a71c1c919bc2dd4d97f62db2da91091a07a89d6a669f881d0ca3198a917cb3/{HV}.index', 'be8a73ea92f60777')],
                                    'remote-files': [('~/{HH}', 'de06a0dfa5513ac2'), ('~/{HV}', 'b5ef31a26057e155')]},
 'read/HV-use1-create0-rpc1#0': {'result': {'digest': '73b8662d95c08891',
                                            'type': 'Group',
                                            'path': 'HV',
                                            'url': None,
                                            'attrs': (11, '0f359b7aa6d9b642'),
                                            'names': (26, '4724f37325f5ede9'),
                                            'array': {'dims': ['rows', 'columns'],
                                                      'attrs': {},
                                                      'fs': ('DirFileSystem', '/products/p1', 'LoggingFileSystem'),
                                                      'url': 'IMG-HV-ALOS2290760600-191011-WWDR1.5RUA',
                                                      'shape': (6, 3),
                                                      'dtype': ('str', "'uint16'"),
                                                      'type_code': 'IU2',
                                                      'records_per_chunk': ('int', '1'),
                                                      'byte_ranges': ([(912, 918)], 'a89fd365aba531e9'),
                                                      'chunk_offsets': (6, '9e6f51a4fd49054e'),
                                                      'pixels': '9b59bd2bea74d612',
                                                      'pixel-io': (19, 'd184ace3139cc185')}},
                                 'io': [('isfile', '~/{HV}.index'), ('open', '~/{HV}', 'rb'), ('isfile', '/products/p1'), ('isfile', '/products'),
                                        ('isfile', '/'), ('enter', '~/{HV}'), ('read', '~/{HV}', 720, 720), ('read', '~/{HV}', 198, 198),
                                        ('read', '~/{HV}', 198, 198), ('read', '~/{HV}', 198, 198), ('read', '~/{HV}', 198, 198), ('read', '~/{HV}', 198, 198),
                                        ('read', '~/{HV}', 198, 198), ('exit', '~/{HV}', None), ('close', '~/{HV}')],
                                 'local-caches': [],
                                 'remote-files': [('~/{HH}', 'de06a0dfa5513ac2'), ('~/{HV}', 'b5ef31a26057e155')]},
 'read/HV-use1-create0-rpc2#0': {'result': {'digest': '756ce0453fc9b22e',
                                            'type': 'Group',
                                            'path': 'HV',
                                            'url': None,
                                            'attrs': (11, '0f359b7aa6d9b642'),
                                            'names': (26, '4724f37325f5ede9'),
                                            'array': {'dims': ['rows', 'columns'],
                                                      'attrs': {},
                                                      'fs': ('DirFileSystem', '/products/p1', 'LoggingFileSystem'),
                                                      'url': 'IMG-HV-ALOS2290760600-191011-WWDR1.5RUA',
                                                      'shape': (6, 3),
                                                      'dtype': ('str', "'uint16'"),
                                                      'type_code': 'IU2',
                                                      'records_per_chunk': ('int', '2'),
                                                      'byte_ranges': ([(912, 918)], 'a89fd365aba531e9'),
                                                      'chunk_offsets': (3, '5674d192a6afb1cb'),
                                                      'pixels': '9b59bd2bea74d612',
                                                      'pixel-io': (13, 'd46c1dab734febce')}},
                                 'io': [('isfile', '~/{HV}.index'), ('open', '~/{HV}', 'rb'), ('isfile', '/products/p1'), ('isfile', '/products'),
                                        ('isfile', '/'), ('enter', '~/{HV}'), ('read', '~/{HV}', 720, 720), ('read', '~/{HV}', 396, 396),
                                        ('read', '~/{HV}', 396, 396), ('read', '~/{HV}', 396, 396), ('exit', '~/{HV}', None), ('close', '~/{HV}')],
                                 'local-caches': [],
                                 'remote-files': [('~/{HH}', 'de06a0dfa5513ac2'), ('~/{HV}', 'b5ef31a26057e155')]},
 'read/HV-use1-create0-rpc4#0': {'result': {'digest': '8055e9cee7abeb2d',
                                            'type': 'Group',
                                            'path': 'HV',
                                            'url': None,
                                            'attrs': (11, '0f359b7aa6d9b642'),
                                            'names': (26, '4724f37325f5ede9'),
                                            'array': {'dims': ['rows', 'columns'],
                                                      'attrs': {},
                                                      'fs': ('DirFileSystem', '/products/p1', 'LoggingFileSystem'),
                                                      'url': 'IMG-HV-ALOS2290760600-191011-WWDR1.5RUA',
                                                      'shape': (6, 3),
                                                      'dtype': ('str', "'uint16'"),
                                                      'type_code': 'IU2',
                                                      'records_per_chunk': ('int', '4'),
                                                      'byte_ranges': ([(912, 918)], 'a89fd365aba531e9'),
                                                      'chunk_offsets': (2, '8dc8ed5e7d7cc274'),
                                                      'pixels': '9b59bd2bea74d612',
                                                      'pixel-io': (11, '07a6a90f19a05ee5')}},
                                 'io': [('isfile', '~/{HV}.index'), ('open', '~/{HV}', 'rb'), ('isfile', '/products/p1'), ('isfile', '/products'),
                                        ('isfile', '/'), ('enter', '~/{HV}'), ('read', '~/{HV}', 720, 720), ('read', '~/{HV}', 792, 792),
                                        ('read', '~/{HV}', 396, 396), ('exit', '~/{HV}', None), ('close', '~/{HV}')],
                                 'local-caches': [],
                                 'remote-files': [('~/{HH}', 'de06a0dfa5513ac2'), ('~/{HV}', 'b5ef31a26057e155')]},
 'read/HV-use1-create0-rpc1024#0': {'result': {'digest': '2fdca6f9f1667812',
                                               'type': 'Group',
                                               'path': 'HV',
                                               'url': None,
                                               'attrs': (11, '0f359b7aa6d9b642'),
                                               'names': (26, '4724f37325f5ede9'),
                                               'array': {'dims': ['rows', 'columns'],
                                                         'attrs': {},
                                                         'fs': ('DirFileSystem', '/products/p1', 'LoggingFileSystem'),
                                                         'url': 'IMG-HV-ALOS2290760600-191011-WWDR1.5RUA',
                                                         'shape': (6, 3),
                                                         'dtype': ('str', "'uint16'"),
                                                         'type_code': 'IU2',
                                                         'records_per_chunk': ('int', '6'),
                                                         'byte_ranges': ([(912, 918)], 'a89fd365aba531e9'),
                                                         'chunk_offsets': (1, '28503d2c8673f4b9'),
                                                         'pixels': '9b59bd2bea74d612',
                                                         'pixel-io': (9, 'e973e16ddecf4d3e')}},
                                    'io': [('isfile', '~/{HV}.index'), ('open', '~/{HV}', 'rb'), ('isfile', '/products/p1'), ('isfile', '/products'),
                                           ('isfile', '/'), ('enter', '~/{HV}'), ('read', '~/{HV}', 720, 720), ('read', '~/{HV}', 1188, 1188),
                                           ('exit', '~/{HV}', None), ('close', '~/{HV}')],
                                    'local-caches': [],
                                    'remote-files': [('~/{HH}', 'de06a0dfa5513ac2'), ('~/{HV}', 'b5ef31a26057e155')]},
 'read/HV-use0-create1-rpc1#0': {'result': {'digest': '73b8662d95c08891',
                                            'type': 'Group',
                                            'path': 'HV',
                                            'url': None,
                                            'attrs': (11, '0f359b7aa6d9b642'),
                                            'names': (26, '4724f37325f5ede9'),
                                            'array': {'dims': ['rows', 'columns'],
                                                      'attrs': {},
                                                      'fs': ('DirFileSystem', '/products/p1', 'LoggingFileSystem'),
                                                      'url': 'IMG-HV-ALOS2290760600-191011-WWDR1.5RUA',
                                                      'shape': (6, 3),
                                                      'dtype': ('str', "'uint16'"),
                                                      'type_code': 'IU2',
                                                      'records_per_chunk': ('int', '1'),
                                                      'byte_ranges': ([(912, 918)], 'a89fd365aba531e9'),
                                                      'chunk_offsets': (6, '9e6f51a4fd49054e'),
                                                      'pixels': '9b59bd2bea74d612',
                                                      'pixel-io': (19, 'd184ace3139cc185')}},
                                 'io': [('open', '~/{HV}', 'rb'), ('isfile', '/products/p1'), ('isfile', '/products'), ('isfile', '/'), ('enter', '~/{HV}'),
                                        ('read', '~/{HV}', 720, 720), ('read', '~/{HV}', 198, 198), ('read', '~/{HV}', 198, 198), ('read', '~/{HV}', 198, 198),
                                        ('read', '~/{HV}', 198, 198), ('read', '~/{HV}', 198, 198), ('read', '~/{HV}', 198, 198), ('exit', '~/{HV}', None),
                                        ('close', '~/{HV}')],
                                 'local-caches': [('82a71c1c919bc2dd4d97f62db2da91091a07a89d6a669f881d0ca3198a917cb3/{HV}.index', 'be8a73ea92f60777')],
                                 'remote-files': [('~/{HH}', 'de06a0dfa5513ac2'), ('~/{HV}', 'b5ef31a26057e155')]},
 'read/HV-use0-create1-rpc2#0': {'result': {'digest': '756ce0453fc9b22e',
                                            'type': 'Group',
                                            'path': 'HV',
                                            'url': None,
                                            'attrs': (11, '0f359b7aa6d9b642'),
                                            'names': (26, '4724f37325f5ede9'),
                                            'array': {'dims': ['rows', 'columns'],
                                                      'attrs': {},
                                                      'fs': ('DirFileSystem', '/products/p1', 'LoggingFileSystem'),
                                                      'url': 'IMG-HV-ALOS2290760600-191011-WWDR1.5RUA',
                                                      'shape': (6, 3),
                                                      'dtype': ('str', "'uint16'"),
                                                      'type_code': 'IU2',
                                                      'records_per_chunk': ('int', '2'),
                                                      'byte_ranges': ([(912, 918)], 'a89fd365aba531e9'),
                                                      'chunk_offsets': (3, '5674d192a6afb1cb'),
                                                      'pixels': '9b59bd2bea74d612',
                                                      'pixel-io': (13, 'd46c1dab734febce')}},
                                 'io': [('open', '~/{HV}', 'rb'), ('isfile', '/products/p1'), ('isfile', '/products'), ('isfile', '/'), ('enter', '~/{HV}'),
                                        ('read', '~/{HV}', 720, 720), ('read', '~/{HV}', 396, 396), ('read', '~/{HV}', 396, 396), ('read', '~/{HV}', 396, 396),
                                        ('exit', '~/{HV}', None), ('close', '~/{HV}')],
                                 'local-caches': [('82a71c1c919bc2dd4d97f62db2da91091a07a89d6a669f881d0ca3198a917cb3/{HV}.index', 'be8a73ea92f60777')],
                                 'remote-files': [('~/{HH}', 'de06a0dfa5513ac2'), ('~/{HV}', 'b5ef31a26057e155')]},
 'read/HV-use0-create1-rpc4#0': {'result': {'digest': '8055e9cee7abeb2d',
                                            'type': 'Group',
                                            'path': 'HV',
                                            'url': None,
                                            'attrs': (11, '0f359b7aa6d9b642'),
                                            'names': (26, '4724f37325f5ede9'),
                                            'array': {'dims': ['rows', 'columns'],
                                                      'attrs': {},
                                                      'fs': ('DirFileSystem', '/products/p1', 'LoggingFileSystem'),
                                                      'url': 'IMG-HV-ALOS2290760600-191011-WWDR1.5RUA',
                                                      'shape': (6, 3),
                                                      'dtype': ('str', "'uint16'"),
                                                      'type_code': 'IU2',
                                                      'records_per_chunk': ('int', '4'),
                                                      'byte_ranges': ([(912, 918)], 'a89fd365aba531e9'),
                                                      'chunk_offsets': (2, '8dc8ed5e7d7cc274'),
                                                      'pixels': '9b59bd2bea74d612',
                                                      'pixel-io': (11, '07a6a90f19a05ee5')}},
                                 'io': [('open', '~/{HV}', 'rb'), ('isfile', '/products/p1'), ('isfile', '/products'), ('isfile', '/'), ('enter', '~/{HV}'),
                                        ('read', '~/{HV}', 720, 720), ('read', '~/{HV}', 792, 792), ('read', '~/{HV}', 396, 396), ('exit', '~/{HV}', None),
                                        ('close', '~/{HV}')],
                                 'local-caches': [('82a71c1c919bc2dd4d97f62db2da91091a07a89d6a669f881d0ca3198a917cb3/{HV}.index', 'be8a73ea92f60777')],
                                 'remote-files': [('~/{HH}', 'de06a0dfa5513ac2'), ('~/{HV}', 'b5ef31a26057e155')]},
 'read/HV-use0-create1-rpc1024#0': {'result': {'digest': '2fdca6f9f1667812',
                                               'type': 'Group',
                                               'path': 'HV',
                                               'url': None,
                                               'attrs': (11, '0f359b7aa6d9b642'),
                                               'names': (26, '4724f37325f5ede9'),
                                               'array': {'dims': ['rows', 'columns'],
                                                         'attrs': {},
                                                         'fs': ('DirFileSystem', '/products/p1', 'LoggingFileSystem'),
                                                         'url': 'IMG-HV-ALOS2290760600-191011-WWDR1.5RUA',
                                                         'shape': (6, 3),
                                                         'dtype': ('str', "'uint16'"),
                                                         'type_code': 'IU2',
                                                         'records_per_chunk': ('int', '6'),
                                                         'byte_ranges': ([(912, 918)], 'a89fd365aba531e9'),
                                                         'chunk_offsets': (1, '28503d2c8673f4b9'),
                                                         'pixels': '9b59bd2bea74d612',
                                                         'pixel-io': (9, 'e973e16ddecf4d3e')}},
                                    'io': [('open', '~/{HV}', 'rb'), ('isfile', '/products/p1'), ('isfile', '/products'), ('isfile', '/'), ('enter', '~/{HV}'),
                                           ('read', '~/{HV}', 720, 720), ('read', '~/{HV}', 1188, 1188), ('exit', '~/{HV}', None), ('close', '~/{HV}')],
                                    'local-caches': [('82a71c1c919bc2dd4d97f62db2da91091a07a89d6a669f881d0ca3198a917cb3/{HV}.index', 'be8a73ea92f60777')],
                                    'remote-files': [('~/{HH}', 'de06a0dfa5513ac2'), ('~/{HV}', 'b5ef31a26057e155')]},
 'read/HV-use0-create0-rpc1#0': {'result': {'digest': '73b8662d95c08891',
                                            'type': 'Group',
                                            'path': 'HV',
                                            'url': None,
                                            'attrs': (11, '0f359b7aa6d9b642'),
                                            'names': (26, '4724f37325f5ede9'),
                                            'array': {'dims': ['rows', 'columns'],
                                                      'attrs': {},
                                                      'fs': ('DirFileSystem', '/products/p1', 'LoggingFileSystem'),
                                                      'url': 'IMG-HV-ALOS2290760600-191011-WWDR1.5RUA',
                                                      'shape': (6, 3),
                                                      'dtype': ('str', "'uint16'"),
                                                      'type_code': 'IU2',
                                                      'records_per_chunk': ('int', '1'),
                                                      'byte_ranges': ([(912, 918)], 'a89fd365aba531e9'),
                                                      'chunk_offsets': (6, '9e6f51a4fd49054e'),
                                                      'pixels': '9b59bd2bea74d612',
                                                      'pixel-io': (19, 'd184ace3139cc185')}},
                                 'io': [('open', '~/{HV}', 'rb'), ('isfile', '/products/p1'), ('isfile', '/products'), ('isfile', '/'), ('enter', '~/{HV}'),
                                        ('read', '~/{HV}', 720, 720), ('read', '~/{HV}', 198, 198), ('read', '~/{HV}', 198, 198), ('read', '~/{HV}', 198, 198),
                                        ('read', '~/{HV}', 198, 198), ('read', '~/{HV}', 198, 198), ('read', '~/{HV}', 198, 198), ('exit', '~/{HV}', None),
                                        ('close', '~/{HV}')],
                                 'local-caches': [],
                                 'remote-files': [('~/{HH}', 'de06a0dfa5513ac2'), ('~/{HV}', 'b5ef31a26057e155')]},
 'read/HV-use0-create0-rpc2#0': {'result': {'digest': '756ce0453fc9b22e',
                                            'type': 'Group',
                                            'path': 'HV',
                                            'url': None,
                                            'attrs': (11, '0f359b7aa6d9b642'),
                                            'names': (26, '4724f37325f5ede9'),
                                            'array': {'dims': ['rows', 'columns'],
                                                      'attrs': {},
                                                      'fs': ('DirFileSystem', '/products/p1', 'LoggingFileSystem'),
                                                      'url': 'IMG-HV-ALOS2290760600-191011-WWDR1.5RUA',
                                                      'shape': (6, 3),
                                                      'dtype': ('str', "'uint16'"),
                                                      'type_code': 'IU2',
                                                      'records_per_chunk': ('int', '2'),
                                                      'byte_ranges': ([(912, 918)], 'a89fd365aba531e9'),
                                                      'chunk_offsets': (3, '5674d192a6afb1cb'),
                                                      'pixels': '9b59bd2bea74d612',
                                                      'pixel-io': (13, 'd46c1dab734febce')}},
                                 'io': [('open', '~/{HV}', 'rb'), ('isfile', '/products/p1'), ('isfile', '/products'), ('isfile', '/'), ('enter', '~/{HV}'),
                                        ('read', '~/{HV}', 720, 720), ('read', '~/{HV}', 396, 396), ('read', '~/{HV}', 396, 396), ('read', '~/{HV}', 396, 396),
                                        ('exit', '~/{HV}', None), ('close', '~/{HV}')],
                                 'local-caches': [],
                                 'remote-files': [('~/{HH}', 'de06a0dfa5513ac2'), ('~/{HV}', 'b5ef31a26057e155')]},
 'read/HV-use0-create0-rpc4#0': {'result': {'digest': '8055e9cee7abeb2d',
                                            'type': 'Group',
                                            'path': 'HV',
                                            'url': None,
                                            'attrs': (11, '0f359b7aa6d9b642'),
                                            'names': (26, '4724f37325f5ede9'),
                                            'array': {'dims': ['rows', 'columns'],
                                                      'attrs': {},
                                                      'fs': ('DirFileSystem', '/products/p1', 'LoggingFileSystem'),
                                                      'url': 'IMG-HV-ALOS2290760600-191011-WWDR1.5RUA',
                                                      'shape': (6, 3),
                                                      'dtype': ('str', "'uint16'"),
                                                      'type_code': 'IU2',
                                                      'records_per_chunk': ('int', '4'),
                                                      'byte_ranges': ([(912, 918)], 'a89fd365aba531e9'),
                                                      'chunk_offsets': (2, '8dc8ed5e7d7cc274'),
                                                      'pixels': '9b59bd2bea74d612',
                                                      'pixel-io': (11, '07a6a90f19a05ee5')}},
                                 'io': [('open', '~/{HV}', 'rb'), ('isfile', '/products/p1'), ('isfile', '/products'), ('isfile', '/'), ('enter', '~/{HV}'),
                                        ('read', '~/{HV}', 720, 720), ('read', '~/{HV}', 792, 792), ('read', '~/{HV}', 396, 396), ('exit', '~/{HV}', None),
                                        ('close', '~/{HV}')],
                                 'local-caches': [],
                                 'remote-files': [('~/{HH}', 'de06a0dfa5513ac2'), ('~/{HV}', 'b5ef31a26057e155')]},
 'read/HV-use0-create0-rpc1024#0': {'result': {'digest': '2fdca6f9f1667812',
                                               'type': 'Group',
                                               'path': 'HV',
                                               'url': None,
                                               'attrs': (11, '0f359b7aa6d9b642'),
                                               'names': (26, '4724f37325f5ede9'),
                                               'array': {'dims': ['rows', 'columns'],
                                                         'attrs': {},
                                                         'fs': ('DirFileSystem', '/products/p1', 'LoggingFileSystem'),
                                                         'url': 'IMG-HV-ALOS2290760600-191011-WWDR1.5RUA',
                                                         'shape': (6, 3),
                                                         'dtype': ('str', "'uint16'"),
                                                         'type_code': 'IU2',
                                                         'records_per_chunk': ('int', '6'),
                                                         'byte_ranges': ([(912, 918)], 'a89fd365aba531e9'),
                                                         'chunk_offsets': (1, '28503d2c8673f4b9'),
                                                         'pixels': '9b59bd2bea74d612',
                                                         'pixel-io': (9, 'e973e16ddecf4d3e')}},
                                    'io': [('open', '~/{HV}', 'rb'), ('isfile', '/products/p1'), ('isfile', '/products'), ('isfile', '/'), ('enter', '~/{HV}'),
                                           ('read', '~/{HV}', 720, 720), ('read', '~/{HV}', 1188, 1188), ('exit', '~/{HV}', None), ('close', '~/{HV}')],
                                    'local-caches': [],
                                    'remote-files': [('~/{HH}', 'de06a0dfa5513ac2'), ('~/{HV}', 'b5ef31a26057e155')]},
 'read/defaults#0': {'error': "TypeError: unsupported operand type(s) for /: 'int' and 'NoneType'",
                     'io': [('isfile', '~/{HH}.index'), ('open', '~/{HH}', 'rb'), ('isfile', '/products/p1'), ('isfile', '/products'), ('isfile', '/'),
                            ('enter', '~/{HH}'), ('read', '~/{HH}', 720, 720), ('exit', '~/{HH}', 'TypeError'), ('close', '~/{HH}')],
                     'local-caches': [],
                     'remote-files': [('~/{HH}', 'de06a0dfa5513ac2'), ('~/{HV}', 'b5ef31a26057e155')]},
 'read/rpc-none-no-cache#0': {'error': "TypeError: unsupported operand type(s) for /: 'int' and 'NoneType'",
                              'io': [('open', '~/{HH}', 'rb'), ('isfile', '/products/p1'), ('isfile', '/products'), ('isfile', '/'), ('enter', '~/{HH}'),
                                     ('read', '~/{HH}', 720, 720), ('exit', '~/{HH}', 'TypeError'), ('close', '~/{HH}')],
                              'local-caches': [],
                              'remote-files': [('~/{HH}', 'de06a0dfa5513ac2'), ('~/{HV}', 'b5ef31a26057e155')]},
 'read/rpc-auto#0': {'error': "TypeError: unsupported operand type(s) for /: 'int' and 'str'",
                     'io': [('isfile', '~/{HV}.index'), ('open', '~/{HV}', 'rb'), ('isfile', '/products/p1'), ('isfile', '/products'), ('isfile', '/'),
                            ('enter', '~/{HV}'), ('read', '~/{HV}', 720, 720), ('exit', '~/{HV}', 'TypeError'), ('close', '~/{HV}')],
                     'local-caches': [],
                     'remote-files': [('~/{HH}', 'de06a0dfa5513ac2'), ('~/{HV}', 'b5ef31a26057e155')]},
 'read/rpc-zero#0': {'error': 'ZeroDivisionError: division by zero',
                     'io': [('isfile', '~/{HV}.index'), ('open', '~/{HV}', 'rb'), ('isfile', '/products/p1'), ('isfile', '/products'), ('isfile', '/'),
                            ('enter', '~/{HV}'), ('read', '~/{HV}', 720, 720), ('exit', '~/{HV}', 'ZeroDivisionError'), ('close', '~/{HV}')],
                     'local-caches': [],
                     'remote-files': [('~/{HH}', 'de06a0dfa5513ac2'), ('~/{HV}', 'b5ef31a26057e155')]},
 'read/rpc-negative#0': {'result': {'digest': 'a9a1b4222117f521',
                                    'type': 'Group',
                                    'path': 'HV',
                                    'url': None,
                                    'attrs': (3, 'ef37befd4c993a01'),
                                    'names': (1, 'ad1e5eb3f8810b6d'),
                                    'array': {'dims': ['rows', 'columns'],
                                              'attrs': {},
                                              'fs': ('DirFileSystem', '/products/p1', 'LoggingFileSystem'),
                                              'url': 'IMG-HV-ALOS2290760600-191011-WWDR1.5RUA',
                                              'shape': (6, 3),
                                              'dtype': ('str', "'uint16'"),
                                              'type_code': 'IU2',
                                              'records_per_chunk': ('int', '6'),
                                              'byte_ranges': ([], '4f53cda18c2baa0c'),
                                              'chunk_offsets': (0, '44136fa355b3678a'),
                                              'pixels': '1da8ce415fedb0a1',
                                              'pixel-io': (7, 'd3043eea8d591c84')}},
                         'io': [('isfile', '~/{HV}.index'), ('open', '~/{HV}', 'rb'), ('isfile', '/products/p1'), ('isfile', '/products'), ('isfile', '/'),
                                ('enter', '~/{HV}'), ('read', '~/{HV}', 720, 720), ('exit', '~/{HV}', None), ('close', '~/{HV}')],
                         'local-caches': [],
                         'remote-files': [('~/{HH}', 'de06a0dfa5513ac2'), ('~/{HV}', 'b5ef31a26057e155')]},
 'read/rpc-3-kw-order#0': {'result': {'digest': 'ab7401d11635112c',
                                      'type': 'Group',
                                      'path': 'HV',
                                      'url': None,
                                      'attrs': (11, '0f359b7aa6d9b642'),
                                      'names': (26, '4724f37325f5ede9'),
                                      'array': {'dims': ['rows', 'columns'],
                                                'attrs': {},
                                                'fs': ('DirFileSystem', '/products/p1', 'LoggingFileSystem'),
                                                'url': 'IMG-HV-ALOS2290760600-191011-WWDR1.5RUA',
                                                'shape': (6, 3),
                                                'dtype': ('str', "'uint16'"),
                                                'type_code': 'IU2',
                                                'records_per_chunk': ('int', '3'),
                                                'byte_ranges': ([(912, 918)], 'a89fd365aba531e9'),
                                                'chunk_offsets': (2, '5db44bb4471e8171'),
                                                'pixels': '9b59bd2bea74d612',
                                                'pixel-io': (11, '07f8fad15df6a23b')}},
                           'io': [('open', '~/{HV}', 'rb'), ('isfile', '/products/p1'), ('isfile', '/products'), ('isfile', '/'), ('enter', '~/{HV}'),
                                  ('read', '~/{HV}', 720, 720), ('read', '~/{HV}', 594, 594), ('read', '~/{HV}', 594, 594), ('exit', '~/{HV}', None),
                                  ('close', '~/{HV}')],
                           'local-caches': [('82a71c1c919bc2dd4d97f62db2da91091a07a89d6a669f881d0ca3198a917cb3/{HV}.index', 'be8a73ea92f60777')],
                           'remote-files': [('~/{HH}', 'de06a0dfa5513ac2'), ('~/{HV}', 'b5ef31a26057e155')]},
 'read/positional-options#0': {'error': 'TypeError: open_image() takes 2 positional arguments but 5 were given',
                               'io': [],
                               'local-caches': [],
                               'remote-files': [('~/{HH}', 'de06a0dfa5513ac2'), ('~/{HV}', 'b5ef31a26057e155')]},
 'read/unknown-option#0': {'error': "TypeError: open_image() got an unexpected keyword argument 'chunks'",
                           'io': [],
                           'local-caches': [],
                           'remote-files': [('~/{HH}', 'de06a0dfa5513ac2'), ('~/{HV}', 'b5ef31a26057e155')]},
 'read/empty-image#0': {'result': {'digest': '3a89536547b6fa8f',
                                   'type': 'Group',
                                   'path': 'HV',
                                   'url': None,
                                   'attrs': (3, 'ef37befd4c993a01'),
                                   'names': (1, 'ad1e5eb3f8810b6d'),
                                   'array': {'dims': ['rows', 'columns'],
                                             'attrs': {},
                                             'fs': ('DirFileSystem', '/products/p1', 'LoggingFileSystem'),
                                             'url': 'IMG-HV-ALOS2290760600-191011-WWDR1.5RUA',
                                             'shape': (0, 4),
                                             'dtype': ('str', "'uint16'"),
                                             'type_code': 'IU2',
                                             'records_per_chunk': ('int', '0'),
                                             'byte_ranges': ([], '4f53cda18c2baa0c'),
                                             'chunk_offsets': (0, '44136fa355b3678a'),
                                             'pixels': 'f5944b49ea711439',
                                             'pixel-io': (7, 'd3043eea8d591c84')}},
                        'io': [('isfile', '~/{HV}.index'), ('open', '~/{HV}', 'rb'), ('isfile', '/products/p1'), ('isfile', '/products'), ('isfile', '/'),
                               ('enter', '~/{HV}'), ('read', '~/{HV}', 720, 720), ('exit', '~/{HV}', None), ('close', '~/{HV}')],
                        'local-caches': [('82a71c1c919bc2dd4d97f62db2da91091a07a89d6a669f881d0ca3198a917cb3/{HV}.index', '950efa9bd848f389')],
                        'remote-files': [('~/{HV}', 'd395916548b9dc96')]},
 'read/one-line#0': {'result': {'digest': '33f0173606544aac',
                                'type': 'Group',
                                'path': 'HV',
                                'url': None,
                                'attrs': (11, '0f359b7aa6d9b642'),
                                'names': (26, '4724f37325f5ede9'),
                                'array': {'dims': ['rows', 'columns'],
                                          'attrs': {},
                                          'fs': ('DirFileSystem', '/products/p1', 'LoggingFileSystem'),
                                          'url': 'IMG-HV-ALOS2290760600-191011-WWDR1.5RUA',
                                          'shape': (1, 4),
                                          'dtype': ('str', "'uint16'"),
                                          'type_code': 'IU2',
                                          'records_per_chunk': ('int', '1'),
                                          'byte_ranges': ([(912, 920)], '0ec21754f4999896'),
                                          'chunk_offsets': (1, '85d78d187a36d970'),
                                          'pixels': '52b725389bd65850',
                                          'pixel-io': (9, '8bb572b43b348745')}},
                     'io': [('isfile', '~/{HV}.index'), ('open', '~/{HV}', 'rb'), ('isfile', '/products/p1'), ('isfile', '/products'), ('isfile', '/'),
                            ('enter', '~/{HV}'), ('read', '~/{HV}', 720, 720), ('read', '~/{HV}', 200, 200), ('exit', '~/{HV}', None), ('close', '~/{HV}')],
                     'local-caches': [('82a71c1c919bc2dd4d97f62db2da91091a07a89d6a669f881d0ca3198a917cb3/{HV}.index', 'f8375ad9917ad7d3')],
                     'remote-files': [('~/{HV}', 'd83beafd74aec9e0')]},
 'local-cache/create-then-use#0': {'result': {'digest': '104d8d11fbb7a927',
                                              'type': 'Group',
                                              'path': 'HH_scan3',
                                              'url': None,
                                              'attrs': (15, 'f8d99856b25c71ae'),
                                              'names': (32, '7bce531cf4d41d8b'),
                                              'array': {'dims': ['rows', 'columns'],
                                                        'attrs': {},
                                                        'fs': ('DirFileSystem', '/products/p1', 'LoggingFileSystem'),
                                                        'url': 'IMG-HH-ALOS2225333100-180726-WWDR1.1__D-B3',
                                                        'shape': (5, 4),
                                                        'dtype': ('str', "'complex64'"),
                                                        'type_code': 'C*8',
                                                        'records_per_chunk': ('int', '2'),
                                                        'byte_ranges': ([(1264, 1296)], '7bdb7111993ae192'),
                                                        'chunk_offsets': (3, '31ca614b8a645566'),
                                                        'pixels': 'cdbee6abd261cb29',
                                                        'pixel-io': (13, 'bb62476b1283913a')}},
                                   'io': [('isfile', '~/{HH}.index'), ('open', '~/{HH}', 'rb'), ('isfile', '/products/p1'), ('isfile', '/products'),
                                          ('isfile', '/'), ('enter', '~/{HH}'), ('read', '~/{HH}', 720, 720), ('read', '~/{HH}', 1152, 1152),
                                          ('read', '~/{HH}', 1152, 1152), ('read', '~/{HH}', 576, 576), ('exit', '~/{HH}', None), ('close', '~/{HH}')],
                                   'local-caches': [('82a71c1c919bc2dd4d97f62db2da91091a07a89d6a669f881d0ca3198a917cb3/{HH}.index', '6b4719d77d55abc2')],
                                   'remote-files': [('~/{HH}', 'de06a0dfa5513ac2'), ('~/{HV}', 'b5ef31a26057e155')]},
 'local-cache/create-then-use#1': {'result': {'digest': 'a9eae2f1ab5b10d5',
                                              'type': 'Group',
                                              'path': 'HH_scan3',
                                              'url': None,
                                              'attrs': (15, 'f8d99856b25c71ae'),
                                              'names': (32, '7bce531cf4d41d8b'),
                                              'array': {'dims': ['rows', 'columns'],
                                                        'attrs': {},
                                                        'fs': ('DirFileSystem', '/products/p1', 'LocalFileSystem'),
                                                        'url': 'IMG-HH-ALOS2225333100-180726-WWDR1.1__D-B3',
                                                        'shape': (5, 4),
                                                        'dtype': ('str', "'complex64'"),
                                                        'type_code': 'C*8',
                                                        'records_per_chunk': ('int', '2'),
                                                        'byte_ranges': ([(1264, 1296)], '7bdb7111993ae192'),
                                                        'chunk_offsets': (3, '31ca614b8a645566'),
                                                        'pixels': 'FileNotFoundError: [Errno 2] No such file or directory: '
                                                                  "'/products/p1/IMG-HH-ALOS2225333100-180726-WWDR1.1__D-B3'",
                                                        'pixel-io': (0, '4f53cda18c2baa0c')}},
                                   'io': [],
                                   'local-caches': [('82a71c1c919bc2dd4d97f62db2da91091a07a89d6a669f881d0ca3198a917cb3/{HH}.index', '6b4719d77d55abc2')],
                                   'remote-files': [('~/{HH}', 'de06a0dfa5513ac2'), ('~/{HV}', 'b5ef31a26057e155')]},
 'local-cache/create-then-use#2': {'result': {'digest': '37e9f967e93e55ba',
                                              'type': 'Group',
                                              'path': 'HH_scan3',
                                              'url': None,
                                              'attrs': (15, 'f8d99856b25c71ae'),
                                              'names': (32, '7bce531cf4d41d8b'),
                                              'array': {'dims': ['rows', 'columns'],
                                                        'attrs': {},
                                                        'fs': ('DirFileSystem', '/products/p1', 'LocalFileSystem'),
                                                        'url': 'IMG-HH-ALOS2225333100-180726-WWDR1.1__D-B3',
                                                        'shape': (5, 4),
                                                        'dtype': ('str', "'complex64'"),
                                                        'type_code': 'C*8',
                                                        'records_per_chunk': ('int', '4'),
                                                        'byte_ranges': ([(1264, 1296)], '7bdb7111993ae192'),
                                                        'chunk_offsets': (2, 'f1a1c5152c64bad5'),
                                                        'pixels': 'FileNotFoundError: [Errno 2] No such file or directory: '
                                                                  "'/products/p1/IMG-HH-ALOS2225333100-180726-WWDR1.1__D-B3'",
                                                        'pixel-io': (0, '4f53cda18c2baa0c')}},
                                   'io': [],
                                   'local-caches': [('82a71c1c919bc2dd4d97f62db2da91091a07a89d6a669f881d0ca3198a917cb3/{HH}.index', '6b4719d77d55abc2')],
                                   'remote-files': [('~/{HH}', 'de06a0dfa5513ac2'), ('~/{HV}', 'b5ef31a26057e155')]},
 'local-cache/create-then-use#3': {'result': {'digest': '104d8d11fbb7a927',
                                              'type': 'Group',
                                              'path': 'HH_scan3',
                                              'url': None,
                                              'attrs': (15, 'f8d99856b25c71ae'),
                                              'names': (32, '7bce531cf4d41d8b'),
                                              'array': {'dims': ['rows', 'columns'],
                                                        'attrs': {},
                                                        'fs': ('DirFileSystem', '/products/p1', 'LoggingFileSystem'),
                                                        'url': 'IMG-HH-ALOS2225333100-180726-WWDR1.1__D-B3',
                                                        'shape': (5, 4),
                                                        'dtype': ('str', "'complex64'"),
                                                        'type_code': 'C*8',
                                                        'records_per_chunk': ('int', '2'),
                                                        'byte_ranges': ([(1264, 1296)], '7bdb7111993ae192'),
                                                        'chunk_offsets': (3, '31ca614b8a645566'),
                                                        'pixels': 'cdbee6abd261cb29',
                                                        'pixel-io': (13, 'bb62476b1283913a')}},
                                   'io': [('open', '~/{HH}', 'rb'), ('isfile', '/products/p1'), ('isfile', '/products'), ('isfile', '/'), ('enter', '~/{HH}'),
                                          ('read', '~/{HH}', 720, 720), ('read', '~/{HH}', 1152, 1152), ('read', '~/{HH}', 1152, 1152),
                                          ('read', '~/{HH}', 576, 576), ('exit', '~/{HH}', None), ('close', '~/{HH}')],
                                   'local-caches': [('82a71c1c919bc2dd4d97f62db2da91091a07a89d6a669f881d0ca3198a917cb3/{HH}.index', '6b4719d77d55abc2')],
                                   'remote-files': [('~/{HH}', 'de06a0dfa5513ac2'), ('~/{HV}', 'b5ef31a26057e155')]},
 'local-cache/create-then-use#4': {'result': {'digest': 'dcfaca965babc234',
                                              'type': 'Group',
                                              'path': 'HH_scan3',
                                              'url': None,
                                              'attrs': (15, 'f8d99856b25c71ae'),
                                              'names': (32, '7bce531cf4d41d8b'),
                                              'array': {'dims': ['rows', 'columns'],
                                                        'attrs': {},
                                                        'fs': ('DirFileSystem', '/products/p1', 'LocalFileSystem'),
                                                        'url': 'IMG-HH-ALOS2225333100-180726-WWDR1.1__D-B3',
                                                        'shape': (5, 4),
                                                        'dtype': ('str', "'complex64'"),
                                                        'type_code': 'C*8',
                                                        'records_per_chunk': ('int', '5'),
                                                        'byte_ranges': ([(1264, 1296)], '7bdb7111993ae192'),
                                                        'chunk_offsets': (1, 'eb40f988d737904d'),
                                                        'pixels': 'FileNotFoundError: [Errno 2] No such file or directory: '
                                                                  "'/products/p1/IMG-HH-ALOS2225333100-180726-WWDR1.1__D-B3'",
                                                        'pixel-io': (0, '4f53cda18c2baa0c')}},
                                   'io': [],
                                   'local-caches': [('82a71c1c919bc2dd4d97f62db2da91091a07a89d6a669f881d0ca3198a917cb3/{HH}.index', '6b4719d77d55abc2')],
                                   'remote-files': [('~/{HH}', 'de06a0dfa5513ac2'), ('~/{HV}', 'b5ef31a26057e155')]},
 'local-cache/create-then-use#5': {'result': {'digest': '756ce0453fc9b22e',
                                              'type': 'Group',
                                              'path': 'HV',
                                              'url': None,
                                              'attrs': (11, '0f359b7aa6d9b642'),
                                              'names': (26, '4724f37325f5ede9'),
                                              'array': {'dims': ['rows', 'columns'],
                                                        'attrs': {},
                                                        'fs': ('DirFileSystem', '/products/p1', 'LoggingFileSystem'),
                                                        'url': 'IMG-HV-ALOS2290760600-191011-WWDR1.5RUA',
                                                        'shape': (6, 3),
                                                        'dtype': ('str', "'uint16'"),
                                                        'type_code': 'IU2',
                                                        'records_per_chunk': ('int', '2'),
                                                        'byte_ranges': ([(912, 918)], 'a89fd365aba531e9'),
                                                        'chunk_offsets': (3, '5674d192a6afb1cb'),
                                                        'pixels': '9b59bd2bea74d612',
                                                        'pixel-io': (13, 'd46c1dab734febce')}},
                                   'io': [('isfile', '~/{HV}.index'), ('open', '~/{HV}', 'rb'), ('isfile', '/products/p1'), ('isfile', '/products'),
                                          ('isfile', '/'), ('enter', '~/{HV}'), ('read', '~/{HV}', 720, 720), ('read', '~/{HV}', 396, 396),
                                          ('read', '~/{HV}', 396, 396), ('read', '~/{HV}', 396, 396), ('exit', '~/{HV}', None), ('close', '~/{HV}')],
                                   'local-caches': [('82a71c1c919bc2dd4d97f62db2da91091a07a89d6a669f881d0ca3198a917cb3/{HH}.index', '6b4719d77d55abc2')],
                                   'remote-files': [('~/{HH}', 'de06a0dfa5513ac2'), ('~/{HV}', 'b5ef31a26057e155')]},
 'local-cache/recreate#0': {'result': {'digest': '756ce0453fc9b22e',
                                       'type': 'Group',
                                       'path': 'HV',
                                       'url': None,
                                       'attrs': (11, '0f359b7aa6d9b642'),
                                       'names': (26, '4724f37325f5ede9'),
                                       'array': {'dims': ['rows', 'columns'],
                                                 'attrs': {},
                                                 'fs': ('DirFileSystem', '/products/p1', 'LoggingFileSystem'),
                                                 'url': 'IMG-HV-ALOS2290760600-191011-WWDR1.5RUA',
                                                 'shape': (6, 3),
                                                 'dtype': ('str', "'uint16'"),
                                                 'type_code': 'IU2',
                                                 'records_per_chunk': ('int', '2'),
                                                 'byte_ranges': ([(912, 918)], 'a89fd365aba531e9'),
                                                 'chunk_offsets': (3, '5674d192a6afb1cb'),
                                                 'pixels': '9b59bd2bea74d612',
                                                 'pixel-io': (13, 'd46c1dab734febce')}},
                            'io': [('isfile', '~/{HV}.index'), ('open', '~/{HV}', 'rb'), ('isfile', '/products/p1'), ('isfile', '/products'), ('isfile', '/'),
                                   ('enter', '~/{HV}'), ('read', '~/{HV}', 720, 720), ('read', '~/{HV}', 396, 396), ('read', '~/{HV}', 396, 396),
                                   ('read', '~/{HV}', 396, 396), ('exit', '~/{HV}', None), ('close', '~/{HV}')],
                            'local-caches': [('82a71c1c919bc2dd4d97f62db2da91091a07a89d6a669f881d0ca3198a917cb3/{HV}.index', 'be8a73ea92f60777')],
                            'remote-files': [('~/{HH}', 'de06a0dfa5513ac2'), ('~/{HV}', 'b5ef31a26057e155')]},
 'local-cache/recreate#1': {'result': {'digest': 'ab7401d11635112c',
                                       'type': 'Group',
                                       'path': 'HV',
                                       'url': None,
                                       'attrs': (11, '0f359b7aa6d9b642'),
                                       'names': (26, '4724f37325f5ede9'),
                                       'array': {'dims': ['rows', 'columns'],
                                                 'attrs': {},
                                                 'fs': ('DirFileSystem', '/products/p1', 'LoggingFileSystem'),
                                                 'url': 'IMG-HV-ALOS2290760600-191011-WWDR1.5RUA',
                                                 'shape': (6, 3),
                                                 'dtype': ('str', "'uint16'"),
                                                 'type_code': 'IU2',
                                                 'records_per_chunk': ('int', '3'),
                                                 'byte_ranges': ([(912, 918)], 'a89fd365aba531e9'),
                                                 'chunk_offsets': (2, '5db44bb4471e8171'),
                                                 'pixels': '9b59bd2bea74d612',
                                                 'pixel-io': (11, '07f8fad15df6a23b')}},
                            'io': [('open', '~/{HV}', 'rb'), ('isfile', '/products/p1'), ('isfile', '/products'), ('isfile', '/'), ('enter', '~/{HV}'),
                                   ('read', '~/{HV}', 720, 720), ('read', '~/{HV}', 594, 594), ('read', '~/{HV}', 594, 594), ('exit', '~/{HV}', None),
                                   ('close', '~/{HV}')],
                            'local-caches': [('82a71c1c919bc2dd4d97f62db2da91091a07a89d6a669f881d0ca3198a917cb3/{HV}.index', 'be8a73ea92f60777')],
                            'remote-files': [('~/{HH}', 'de06a0dfa5513ac2'), ('~/{HV}', 'b5ef31a26057e155')]},
 'local-cache/recreate#2': {'result': {'digest': '264800cb45180559',
                                       'type': 'Group',
                                       'path': 'HV',
                                       'url': None,
                                       'attrs': (11, '0f359b7aa6d9b642'),
                                       'names': (26, '4724f37325f5ede9'),
                                       'array': {'dims': ['rows', 'columns'],
                                                 'attrs': {},
                                                 'fs': ('DirFileSystem', '/products/p1', 'LocalFileSystem'),
                                                 'url': 'IMG-HV-ALOS2290760600-191011-WWDR1.5RUA',
                                                 'shape': (6, 3),
                                                 'dtype': ('str', "'uint16'"),
                                                 'type_code': 'IU2',
                                                 'records_per_chunk': ('int', '1024'),
                                                 'byte_ranges': ([(912, 918)], 'a89fd365aba531e9'),
                                                 'chunk_offsets': (1, '28503d2c8673f4b9'),
                                                 'pixels': 'FileNotFoundError: [Errno 2] No such file or directory: '
                                                           "'/products/p1/IMG-HV-ALOS2290760600-191011-WWDR1.5RUA'",
                                                 'pixel-io': (0, '4f53cda18c2baa0c')}},
                            'io': [],
                            'local-caches': [('82a71c1c919bc2dd4d97f62db2da91091a07a89d6a669f881d0ca3198a917cb3/{HV}.index', 'be8a73ea92f60777')],
                            'remote-files': [('~/{HH}', 'de06a0dfa5513ac2'), ('~/{HV}', 'b5ef31a26057e155')]},
 'broken/truncated-use1#0': {'error': 'ValueError: sizes mismatch: chunksize is 0 but got 476 bytes',
                             'io': [('isfile', '~/{HH}.index'), ('open', '~/{HH}', 'rb'), ('isfile', '/products/p1'), ('isfile', '/products'), ('isfile', '/'),
                                    ('enter', '~/{HH}'), ('read', '~/{HH}', 720, 720), ('read', '~/{HH}', 1152, 1152), ('read', '~/{HH}', 1152, 1152),
                                    ('read', '~/{HH}', 576, 476), ('exit', '~/{HH}', 'ValueError'), ('close', '~/{HH}')],
                             'local-caches': [],
                             'remote-files': [('~/{HH}', '9bf273f8f5d85415')]},
 'broken/missing-use1#0': {'error': 'FileNotFoundError: /products/p1/IMG-HH-ALOS2225333100-180726-WWDR1.1__D-B3',
                           'io': [('isfile', '~/{HH}.index'), ('open', '~/{HH}', 'rb'), ('isfile', '/products/p1'), ('isfile', '/products'), ('isfile', '/')],
                           'local-caches': [],
                           'remote-files': []},
 'broken/truncated-use0#0': {'error': 'ValueError: sizes mismatch: chunksize is 0 but got 476 bytes',
                             'io': [('open', '~/{HH}', 'rb'), ('isfile', '/products/p1'), ('isfile', '/products'), ('isfile', '/'), ('enter', '~/{HH}'),
                                    ('read', '~/{HH}', 720, 720), ('read', '~/{HH}', 1152, 1152), ('read', '~/{HH}', 1152, 1152), ('read', '~/{HH}', 576, 476),
                                    ('exit', '~/{HH}', 'ValueError'), ('close', '~/{HH}')],
                             'local-caches': [],
                             'remote-files': [('~/{HH}', '9bf273f8f5d85415')]},
 'broken/missing-use0#0': {'error': 'FileNotFoundError: /products/p1/IMG-HH-ALOS2225333100-180726-WWDR1.1__D-B3',
                           'io': [('open', '~/{HH}', 'rb'), ('isfile', '/products/p1'), ('isfile', '/products'), ('isfile', '/')],
                           'local-caches': [],
                           'remote-files': []},
 'broken/empty#0': {'error': 'StreamError: Error in path (parsing) -> preamble -> record_sequence_number\n'
                             'stream read less than specified amount, expected 4, found 0',
                    'io': [('isfile', '~/{HH}.index'), ('open', '~/{HH}', 'rb'), ('isfile', '/products/p1'), ('isfile', '/products'), ('isfile', '/'),
                           ('enter', '~/{HH}'), ('read', '~/{HH}', 720, 0), ('exit', '~/{HH}', 'StreamError'), ('close', '~/{HH}')],
                    'local-caches': [],
                    'remote-files': [('~/{HH}', 'e3b0c44298fc1c14')]},
 'broken/unknown-type-code#0': {'error': 'ValueError: unknown type code: F*4',
                                'io': [('isfile', '~/{HV}.index'), ('open', '~/{HV}', 'rb'), ('isfile', '/products/p1'), ('isfile', '/products'),
                                       ('isfile', '/'), ('enter', '~/{HV}'), ('read', '~/{HV}', 720, 720), ('read', '~/{HV}', 400, 400),
                                       ('read', '~/{HV}', 400, 400), ('read', '~/{HV}', 200, 200), ('exit', '~/{HV}', 'ValueError'), ('close', '~/{HV}')],
                                'local-caches': [],
                                'remote-files': [('~/{HV}', 'd77fc92d25b6e8f4')]},
 'broken/unknown-record-type#0': {'error': 'ValueError: unknown record type code: 77',
                                  'io': [('isfile', '~/{HV}.index'), ('open', '~/{HV}', 'rb'), ('isfile', '/products/p1'), ('isfile', '/products'),
                                         ('isfile', '/'), ('enter', '~/{HV}'), ('read', '~/{HV}', 720, 720), ('read', '~/{HV}', 396, 396),
                                         ('exit', '~/{HV}', 'ValueError'), ('close', '~/{HV}')],
                                  'local-caches': [],
                                  'remote-files': [('~/{HV}', '907753bb5955fcad')]},
 'badname/IMG-HH-nonsense#0': {'error': 'ValueError: invalid file name: IMG-HH-nonsense',
                               'io': [('isfile', '~/IMG-HH-nonsense.index'), ('open', '~/IMG-HH-nonsense', 'rb'), ('isfile', '/products/p1'),
                                      ('isfile', '/products'), ('isfile', '/'), ('enter', '~/IMG-HH-nonsense'), ('read', '~/IMG-HH-nonsense', 720, 720),
                                      ('read', '~/IMG-HH-nonsense', 1152, 1152), ('read', '~/IMG-HH-nonsense', 1152, 1152),
                                      ('read', '~/IMG-HH-nonsense', 576, 576), ('exit', '~/IMG-HH-nonsense', None), ('close', '~/IMG-HH-nonsense')],
                               'local-caches': [],
                               'remote-files': [('~/IMG-HH-nonsense', 'de06a0dfa5513ac2')]},
 'badname/IMG-HH-nonsense#1': {'error': 'ValueError: invalid file name: IMG-HH-nonsense',
                               'io': [('open', '~/IMG-HH-nonsense', 'rb'), ('isfile', '/products/p1'), ('isfile', '/products'), ('isfile', '/'),
                                      ('enter', '~/IMG-HH-nonsense'), ('read', '~/IMG-HH-nonsense', 720, 720), ('read', '~/IMG-HH-nonsense', 1152, 1152),
                                      ('read', '~/IMG-HH-nonsense', 1152, 1152), ('read', '~/IMG-HH-nonsense', 576, 576), ('exit', '~/IMG-HH-nonsense', None),
                                      ('close', '~/IMG-HH-nonsense')],
                               'local-caches': [],
                               'remote-files': [('~/IMG-HH-nonsense', 'de06a0dfa5513ac2')]},
 'badname/sub/IMG-HH-ALOS2225333100-180726-WWDR1.1__D-B3#0': {'error': 'ValueError: invalid file name: sub/IMG-HH-ALOS2225333100-180726-WWDR1.1__D-B3',
                                                              'io': [('isfile', '~/sub/{HH}.index'), ('open', '~/sub/{HH}', 'rb'), ('isfile', '~/sub'),
                                                                     ('isfile', '/products/p1'), ('isfile', '/products'), ('isfile', '/'),
                                                                     ('enter', '~/sub/{HH}'), ('read', '~/sub/{HH}', 720, 720),
                                                                     ('read', '~/sub/{HH}', 1152, 1152), ('read', '~/sub/{HH}', 1152, 1152),
                                                                     ('read', '~/sub/{HH}', 576, 576), ('exit', '~/sub/{HH}', None), ('close', '~/sub/{HH}')],
                                                              'local-caches': [],
                                                              'remote-files': [('~/sub/{HH}', 'de06a0dfa5513ac2')]},
 'badname/sub/IMG-HH-ALOS2225333100-180726-WWDR1.1__D-B3#1': {'error': 'ValueError: invalid file name: sub/IMG-HH-ALOS2225333100-180726-WWDR1.1__D-B3',
                                                              'io': [('open', '~/sub/{HH}', 'rb'), ('isfile', '~/sub'), ('isfile', '/products/p1'),
                                                                     ('isfile', '/products'), ('isfile', '/'), ('enter', '~/sub/{HH}'),
                                                                     ('read', '~/sub/{HH}', 720, 720), ('read', '~/sub/{HH}', 1152, 1152),
                                                                     ('read', '~/sub/{HH}', 1152, 1152), ('read', '~/sub/{HH}', 576, 576),
                                                                     ('exit', '~/sub/{HH}', None), ('close', '~/sub/{HH}')],
                                                              'local-caches': [],
                                                              'remote-files': [('~/sub/{HH}', 'de06a0dfa5513ac2')]},
 'badname/IMG-HH-ALOS2225333100-180726-XXXR1.1__D-B3#0': {'error': 'ValueError: invalid product id: XXXR1.1__D',
                                                          'io': [('isfile', '~/IMG-HH-ALOS2225333100-180726-XXXR1.1__D-B3.index'),
                                                                 ('open', '~/IMG-HH-ALOS2225333100-180726-XXXR1.1__D-B3', 'rb'), ('isfile', '/products/p1'),
                                                                 ('isfile', '/products'), ('isfile', '/'),
                                                                 ('enter', '~/IMG-HH-ALOS2225333100-180726-XXXR1.1__D-B3'),
                                                                 ('read', '~/IMG-HH-ALOS2225333100-180726-XXXR1.1__D-B3', 720, 720),
                                                                 ('read', '~/IMG-HH-ALOS2225333100-180726-XXXR1.1__D-B3', 1152, 1152),
                                                                 ('read', '~/IMG-HH-ALOS2225333100-180726-XXXR1.1__D-B3', 1152, 1152),
                                                                 ('read', '~/IMG-HH-ALOS2225333100-180726-XXXR1.1__D-B3', 576, 576),
                                                                 ('exit', '~/IMG-HH-ALOS2225333100-180726-XXXR1.1__D-B3', None),
                                                                 ('close', '~/IMG-HH-ALOS2225333100-180726-XXXR1.1__D-B3')],
                                                          'local-caches': [],
                                                          'remote-files': [('~/IMG-HH-ALOS2225333100-180726-XXXR1.1__D-B3', 'de06a0dfa5513ac2')]},
 'badname/IMG-HH-ALOS2225333100-180726-XXXR1.1__D-B3#1': {'error': 'ValueError: invalid product id: XXXR1.1__D',
                                                          'io': [('open', '~/IMG-HH-ALOS2225333100-180726-XXXR1.1__D-B3', 'rb'), ('isfile', '/products/p1'),
                                                                 ('isfile', '/products'), ('isfile', '/'),
                                                                 ('enter', '~/IMG-HH-ALOS2225333100-180726-XXXR1.1__D-B3'),
                                                                 ('read', '~/IMG-HH-ALOS2225333100-180726-XXXR1.1__D-B3', 720, 720),
                                                                 ('read', '~/IMG-HH-ALOS2225333100-180726-XXXR1.1__D-B3', 1152, 1152),
                                                                 ('read', '~/IMG-HH-ALOS2225333100-180726-XXXR1.1__D-B3', 1152, 1152),
                                                                 ('read', '~/IMG-HH-ALOS2225333100-180726-XXXR1.1__D-B3', 576, 576),
                                                                 ('exit', '~/IMG-HH-ALOS2225333100-180726-XXXR1.1__D-B3', None),
                                                                 ('close', '~/IMG-HH-ALOS2225333100-180726-XXXR1.1__D-B3')],
                                                          'local-caches': [],
                                                          'remote-files': [('~/IMG-HH-ALOS2225333100-180726-XXXR1.1__D-B3', 'de06a0dfa5513ac2')]},
 'badname/no-polarization#0': {'result': {'digest': 'd928ccaa56047f1b',
                                          'type': 'Group',
                                          'path': '',
                                          'url': None,
                                          'attrs': (15, 'f8d99856b25c71ae'),
                                          'names': (32, '7bce531cf4d41d8b'),
                                          'array': {'dims': ['rows', 'columns'],
                                                    'attrs': {},
                                                    'fs': ('DirFileSystem', '/products/p1', 'LoggingFileSystem'),
                                                    'url': 'LED-ALOS2225333100-180726-WWDR1.1__D',
                                                    'shape': (5, 4),
                                                    'dtype': ('str', "'complex64'"),
                                                    'type_code': 'C*8',
                                                    'records_per_chunk': ('int', '2'),
                                                    'byte_ranges': ([(1264, 1296)], '7bdb7111993ae192'),
                                                    'chunk_offsets': (3, '31ca614b8a645566'),
                                                    'pixels': 'cdbee6abd261cb29',
                                                    'pixel-io': (13, '21838f5935e28f7e')}},
                               'io': [('isfile', '~/LED-ALOS2225333100-180726-WWDR1.1__D.index'), ('open', '~/LED-ALOS2225333100-180726-WWDR1.1__D', 'rb'),
                                      ('isfile', '/products/p1'), ('isfile', '/products'), ('isfile', '/'), ('enter', '~/LED-ALOS2225333100-180726-WWDR1.1__D'),
                                      ('read', '~/LED-ALOS2225333100-180726-WWDR1.1__D', 720, 720),
                                      ('read', '~/LED-ALOS2225333100-180726-WWDR1.1__D', 1152, 1152),
                                      ('read', '~/LED-ALOS2225333100-180726-WWDR1.1__D', 1152, 1152),
                                      ('read', '~/LED-ALOS2225333100-180726-WWDR1.1__D', 576, 576), ('exit', '~/LED-ALOS2225333100-180726-WWDR1.1__D', None),
                                      ('close', '~/LED-ALOS2225333100-180726-WWDR1.1__D')],
                               'local-caches': [('82a71c1c919bc2dd4d97f62db2da91091a07a89d6a669f881d0ca3198a917cb3/LED-ALOS2225333100-180726-WWDR1.1__D.index',
                                                 '38710fcda3363d87')],
                               'remote-files': [('~/LED-ALOS2225333100-180726-WWDR1.1__D', 'de06a0dfa5513ac2')]},
 'remote-cache/valid#0': {'result': {'digest': 'a9eae2f1ab5b10d5',
                                     'type': 'Group',
                                     'path': 'HH_scan3',
                                     'url': None,
                                     'attrs': (15, 'f8d99856b25c71ae'),
                                     'names': (32, '7bce531cf4d41d8b'),
                                     'array': {'dims': ['rows', 'columns'],
                                               'attrs': {},
                                               'fs': ('DirFileSystem', '/products/p1', 'LocalFileSystem'),
                                               'url': 'IMG-HH-ALOS2225333100-180726-WWDR1.1__D-B3',
                                               'shape': (5, 4),
                                               'dtype': ('str', "'complex64'"),
                                               'type_code': 'C*8',
                                               'records_per_chunk': ('int', '2'),
                                               'byte_ranges': ([(1264, 1296)], '7bdb7111993ae192'),
                                               'chunk_offsets': (3, '31ca614b8a645566'),
                                               'pixels': 'FileNotFoundError: [Errno 2] No such file or directory: '
                                                         "'/products/p1/IMG-HH-ALOS2225333100-180726-WWDR1.1__D-B3'",
                                               'pixel-io': (0, '4f53cda18c2baa0c')}},
                          'io': [('isfile', '~/{HH}.index'), ('cat_file', '~/{HH}.index', None, None)],
                          'local-caches': [],
                          'remote-files': [('~/{HH}', 'de06a0dfa5513ac2'), ('~/{HH}.index', '6b4719d77d55abc2'), ('~/{HV}', 'b5ef31a26057e155')]},
 'remote-cache/valid#1': {'result': {'digest': 'dcfaca965babc234',
                                     'type': 'Group',
                                     'path': 'HH_scan3',
                                     'url': None,
                                     'attrs': (15, 'f8d99856b25c71ae'),
                                     'names': (32, '7bce531cf4d41d8b'),
                                     'array': {'dims': ['rows', 'columns'],
                                               'attrs': {},
                                               'fs': ('DirFileSystem', '/products/p1', 'LocalFileSystem'),
                                               'url': 'IMG-HH-ALOS2225333100-180726-WWDR1.1__D-B3',
                                               'shape': (5, 4),
                                               'dtype': ('str', "'complex64'"),
                                               'type_code': 'C*8',
                                               'records_per_chunk': ('int', '5'),
                                               'byte_ranges': ([(1264, 1296)], '7bdb7111993ae192'),
                                               'chunk_offsets': (1, 'eb40f988d737904d'),
                                               'pixels': 'FileNotFoundError: [Errno 2] No such file or directory: '
                                                         "'/products/p1/IMG-HH-ALOS2225333100-180726-WWDR1.1__D-B3'",
                                               'pixel-io': (0, '4f53cda18c2baa0c')}},
                          'io': [('isfile', '~/{HH}.index'), ('cat_file', '~/{HH}.index', None, None)],
                          'local-caches': [],
                          'remote-files': [('~/{HH}', 'de06a0dfa5513ac2'), ('~/{HH}.index', '6b4719d77d55abc2'), ('~/{HV}', 'b5ef31a26057e155')]},
 'remote-cache/valid#2': {'result': {'digest': '104d8d11fbb7a927',
                                     'type': 'Group',
                                     'path': 'HH_scan3',
                                     'url': None,
                                     'attrs': (15, 'f8d99856b25c71ae'),
                                     'names': (32, '7bce531cf4d41d8b'),
                                     'array': {'dims': ['rows', 'columns'],
                                               'attrs': {},
                                               'fs': ('DirFileSystem', '/products/p1', 'LoggingFileSystem'),
                                               'url': 'IMG-HH-ALOS2225333100-180726-WWDR1.1__D-B3',
                                               'shape': (5, 4),
                                               'dtype': ('str', "'complex64'"),
                                               'type_code': 'C*8',
                                               'records_per_chunk': ('int', '2'),
                                               'byte_ranges': ([(1264, 1296)], '7bdb7111993ae192'),
                                               'chunk_offsets': (3, '31ca614b8a645566'),
                                               'pixels': 'cdbee6abd261cb29',
                                               'pixel-io': (13, 'bb62476b1283913a')}},
                          'io': [('open', '~/{HH}', 'rb'), ('isfile', '/products/p1'), ('isfile', '/products'), ('isfile', '/'), ('enter', '~/{HH}'),
                                 ('read', '~/{HH}', 720, 720), ('read', '~/{HH}', 1152, 1152), ('read', '~/{HH}', 1152, 1152), ('read', '~/{HH}', 576, 576),
                                 ('exit', '~/{HH}', None), ('close', '~/{HH}')],
                          'local-caches': [],
                          'remote-files': [('~/{HH}', 'de06a0dfa5513ac2'), ('~/{HH}.index', '6b4719d77d55abc2'), ('~/{HV}', 'b5ef31a26057e155')]},
 'remote-cache/valid#3': {'result': {'digest': '756ce0453fc9b22e',
                                     'type': 'Group',
                                     'path': 'HV',
                                     'url': None,
                                     'attrs': (11, '0f359b7aa6d9b642'),
                                     'names': (26, '4724f37325f5ede9'),
                                     'array': {'dims': ['rows', 'columns'],
                                               'attrs': {},
                                               'fs': ('DirFileSystem', '/products/p1', 'LoggingFileSystem'),
                                               'url': 'IMG-HV-ALOS2290760600-191011-WWDR1.5RUA',
                                               'shape': (6, 3),
                                               'dtype': ('str', "'uint16'"),
                                               'type_code': 'IU2',
                                               'records_per_chunk': ('int', '2'),
                                               'byte_ranges': ([(912, 918)], 'a89fd365aba531e9'),
                                               'chunk_offsets': (3, '5674d192a6afb1cb'),
                                               'pixels': '9b59bd2bea74d612',
                                               'pixel-io': (13, 'd46c1dab734febce')}},
                          'io': [('isfile', '~/{HV}.index'), ('open', '~/{HV}', 'rb'), ('isfile', '/products/p1'), ('isfile', '/products'), ('isfile', '/'),
                                 ('enter', '~/{HV}'), ('read', '~/{HV}', 720, 720), ('read', '~/{HV}', 396, 396), ('read', '~/{HV}', 396, 396),
                                 ('read', '~/{HV}', 396, 396), ('exit', '~/{HV}', None), ('close', '~/{HV}')],
                          'local-caches': [],
                          'remote-files': [('~/{HH}', 'de06a0dfa5513ac2'), ('~/{HH}.index', '6b4719d77d55abc2'), ('~/{HV}', 'b5ef31a26057e155')]},
 'remote-cache/valid-without-image#0': {'result': {'digest': 'a9eae2f1ab5b10d5',
                                                   'type': 'Group',
                                                   'path': 'HH_scan3',
                                                   'url': None,
                                                   'attrs': (15, 'f8d99856b25c71ae'),
                                                   'names': (32, '7bce531cf4d41d8b'),
                                                   'array': {'dims': ['rows', 'columns'],
                                                             'attrs': {},
                                                             'fs': ('DirFileSystem', '/products/p1', 'LocalFileSystem'),
                                                             'url': 'IMG-HH-ALOS2225333100-180726-WWDR1.1__D-B3',
                                                             'shape': (5, 4),
                                                             'dtype': ('str', "'complex64'"),
                                                             'type_code': 'C*8',
                                                             'records_per_chunk': ('int', '2'),
                                                             'byte_ranges': ([(1264, 1296)], '7bdb7111993ae192'),
                                                             'chunk_offsets': (3, '31ca614b8a645566'),
                                                             'pixels': 'FileNotFoundError: [Errno 2] No such file or directory: '
                                                                       "'/products/p1/IMG-HH-ALOS2225333100-180726-WWDR1.1__D-B3'",
                                                             'pixel-io': (0, '4f53cda18c2baa0c')}},
                                        'io': [('isfile', '~/{HH}.index'), ('cat_file', '~/{HH}.index', None, None)],
                                        'local-caches': [],
                                        'remote-files': [('~/{HH}.index', '6b4719d77d55abc2')]},
 'remote-cache/valid-without-image#1': {'result': {'digest': 'dcfaca965babc234',
                                                   'type': 'Group',
                                                   'path': 'HH_scan3',
                                                   'url': None,
                                                   'attrs': (15, 'f8d99856b25c71ae'),
                                                   'names': (32, '7bce531cf4d41d8b'),
                                                   'array': {'dims': ['rows', 'columns'],
                                                             'attrs': {},
                                                             'fs': ('DirFileSystem', '/products/p1', 'LocalFileSystem'),
                                                             'url': 'IMG-HH-ALOS2225333100-180726-WWDR1.1__D-B3',
                                                             'shape': (5, 4),
                                                             'dtype': ('str', "'complex64'"),
                                                             'type_code': 'C*8',
                                                             'records_per_chunk': ('int', '5'),
                                                             'byte_ranges': ([(1264, 1296)], '7bdb7111993ae192'),
                                                             'chunk_offsets': (1, 'eb40f988d737904d'),
                                                             'pixels': 'FileNotFoundError: [Errno 2] No such file or directory: '
                                                                       "'/products/p1/IMG-HH-ALOS2225333100-180726-WWDR1.1__D-B3'",
                                                             'pixel-io': (0, '4f53cda18c2baa0c')}},
                                        'io': [('isfile', '~/{HH}.index'), ('cat_file', '~/{HH}.index', None, None)],
                                        'local-caches': [],
                                        'remote-files': [('~/{HH}.index', '6b4719d77d55abc2')]},
 'remote-cache/valid-without-image#2': {'error': 'FileNotFoundError: /products/p1/IMG-HH-ALOS2225333100-180726-WWDR1.1__D-B3',
                                        'io': [('open', '~/{HH}', 'rb'), ('isfile', '/products/p1'), ('isfile', '/products'), ('isfile', '/')],
                                        'local-caches': [],
                                        'remote-files': [('~/{HH}.index', '6b4719d77d55abc2')]},
 'remote-cache/of-another-image#0': {'result': {'digest': '72b1d5e3a649298f',
                                                'type': 'Group',
                                                'path': 'HV',
                                                'url': None,
                                                'attrs': (11, '0f359b7aa6d9b642'),
                                                'names': (26, '4724f37325f5ede9'),
                                                'array': {'dims': ['rows', 'columns'],
                                                          'attrs': {},
                                                          'fs': ('DirFileSystem', '/products/p1', 'LocalFileSystem'),
                                                          'url': 'IMG-HV-ALOS2290760600-191011-WWDR1.5RUA',
                                                          'shape': (5, 4),
                                                          'dtype': ('str', "'uint16'"),
                                                          'type_code': 'IU2',
                                                          'records_per_chunk': ('int', '2'),
                                                          'byte_ranges': ([(912, 920)], '774c93e0d2482a09'),
                                                          'chunk_offsets': (3, '885ebe6d222d9a86'),
                                                          'pixels': 'FileNotFoundError: [Errno 2] No such file or directory: '
                                                                    "'/products/p1/IMG-HV-ALOS2290760600-191011-WWDR1.5RUA'",
                                                          'pixel-io': (0, '4f53cda18c2baa0c')}},
                                     'io': [('isfile', '~/{HH}.index'), ('cat_file', '~/{HH}.index', None, None)],
                                     'local-caches': [],
                                     'remote-files': [('~/{HH}', 'de06a0dfa5513ac2'), ('~/{HH}.index', '0370b6dbf0b9be6e'), ('~/{HV}', 'b5ef31a26057e155')]},
 'remote-cache/of-another-image#1': {'result': {'digest': '4b4ee7309414b448',
                                                'type': 'Group',
                                                'path': 'HV',
                                                'url': None,
                                                'attrs': (11, '0f359b7aa6d9b642'),
                                                'names': (26, '4724f37325f5ede9'),
                                                'array': {'dims': ['rows', 'columns'],
                                                          'attrs': {},
                                                          'fs': ('DirFileSystem', '/products/p1', 'LocalFileSystem'),
                                                          'url': 'IMG-HV-ALOS2290760600-191011-WWDR1.5RUA',
                                                          'shape': (5, 4),
                                                          'dtype': ('str', "'uint16'"),
                                                          'type_code': 'IU2',
                                                          'records_per_chunk': ('int', '5'),
                                                          'byte_ranges': ([(912, 920)], '774c93e0d2482a09'),
                                                          'chunk_offsets': (1, '7f236f9d2bf3122b'),
                                                          'pixels': 'FileNotFoundError: [Errno 2] No such file or directory: '
                                                                    "'/products/p1/IMG-HV-ALOS2290760600-191011-WWDR1.5RUA'",
                                                          'pixel-io': (0, '4f53cda18c2baa0c')}},
                                     'io': [('isfile', '~/{HH}.index'), ('cat_file', '~/{HH}.index', None, None)],
                                     'local-caches': [],
                                     'remote-files': [('~/{HH}', 'de06a0dfa5513ac2'), ('~/{HH}.index', '0370b6dbf0b9be6e'), ('~/{HV}', 'b5ef31a26057e155')]},
 'remote-cache/garbage#0': {'result': {'digest': '104d8d11fbb7a927',
                                       'type': 'Group',
                                       'path': 'HH_scan3',
                                       'url': None,
                                       'attrs': (15, 'f8d99856b25c71ae'),
                                       'names': (32, '7bce531cf4d41d8b'),
                                       'array': {'dims': ['rows', 'columns'],
                                                 'attrs': {},
                                                 'fs': ('DirFileSystem', '/products/p1', 'LoggingFileSystem'),
                                                 'url': 'IMG-HH-ALOS2225333100-180726-WWDR1.1__D-B3',
                                                 'shape': (5, 4),
                                                 'dtype': ('str', "'complex64'"),
                                                 'type_code': 'C*8',
                                                 'records_per_chunk': ('int', '2'),
                                                 'byte_ranges': ([(1264, 1296)], '7bdb7111993ae192'),
                                                 'chunk_offsets': (3, '31ca614b8a645566'),
                                                 'pixels': 'cdbee6abd261cb29',
                                                 'pixel-io': (13, 'bb62476b1283913a')}},
                            'io': [('isfile', '~/{HH}.index'), ('cat_file', '~/{HH}.index', None, None), ('open', '~/{HH}', 'rb'), ('isfile', '/products/p1'),
                                   ('isfile', '/products'), ('isfile', '/'), ('enter', '~/{HH}'), ('read', '~/{HH}', 720, 720), ('read', '~/{HH}', 1152, 1152),
                                   ('read', '~/{HH}', 1152, 1152), ('read', '~/{HH}', 576, 576), ('exit', '~/{HH}', None), ('close', '~/{HH}')],
                            'local-caches': [('82a71c1c919bc2dd4d97f62db2da91091a07a89d6a669f881d0ca3198a917cb3/{HH}.index', '6b4719d77d55abc2')],
                            'remote-files': [('~/{HH}', 'de06a0dfa5513ac2'), ('~/{HH}.index', '1e91ca78a590274a'), ('~/{HV}', 'b5ef31a26057e155')]},
 'remote-cache/garbage#1': {'result': {'digest': '104d8d11fbb7a927',
                                       'type': 'Group',
                                       'path': 'HH_scan3',
                                       'url': None,
                                       'attrs': (15, 'f8d99856b25c71ae'),
                                       'names': (32, '7bce531cf4d41d8b'),
                                       'array': {'dims': ['rows', 'columns'],
                                                 'attrs': {},
                                                 'fs': ('DirFileSystem', '/products/p1', 'LoggingFileSystem'),
                                                 'url': 'IMG-HH-ALOS2225333100-180726-WWDR1.1__D-B3',
                                                 'shape': (5, 4),
                                                 'dtype': ('str', "'complex64'"),
                                                 'type_code': 'C*8',
                                                 'records_per_chunk': ('int', '2'),
                                                 'byte_ranges': ([(1264, 1296)], '7bdb7111993ae192'),
                                                 'chunk_offsets': (3, '31ca614b8a645566'),
                                                 'pixels': 'cdbee6abd261cb29',
                                                 'pixel-io': (13, 'bb62476b1283913a')}},
                            'io': [('open', '~/{HH}', 'rb'), ('isfile', '/products/p1'), ('isfile', '/products'), ('isfile', '/'), ('enter', '~/{HH}'),
                                   ('read', '~/{HH}', 720, 720), ('read', '~/{HH}', 1152, 1152), ('read', '~/{HH}', 1152, 1152), ('read', '~/{HH}', 576, 576),
                                   ('exit', '~/{HH}', None), ('close', '~/{HH}')],
                            'local-caches': [('82a71c1c919bc2dd4d97f62db2da91091a07a89d6a669f881d0ca3198a917cb3/{HH}.index', '6b4719d77d55abc2')],
                            'remote-files': [('~/{HH}', 'de06a0dfa5513ac2'), ('~/{HH}.index', '1e91ca78a590274a'), ('~/{HV}', 'b5ef31a26057e155')]},
 'remote-cache/empty#0': {'result': {'digest': '104d8d11fbb7a927',
                                     'type': 'Group',
                                     'path': 'HH_scan3',
                                     'url': None,
                                     'attrs': (15, 'f8d99856b25c71ae'),
                                     'names': (32, '7bce531cf4d41d8b'),
                                     'array': {'dims': ['rows', 'columns'],
                                               'attrs': {},
                                               'fs': ('DirFileSystem', '/products/p1', 'LoggingFileSystem'),
                                               'url': 'IMG-HH-ALOS2225333100-180726-WWDR1.1__D-B3',
                                               'shape': (5, 4),
                                               'dtype': ('str', "'complex64'"),
                                               'type_code': 'C*8',
                                               'records_per_chunk': ('int', '2'),
                                               'byte_ranges': ([(1264, 1296)], '7bdb7111993ae192'),
                                               'chunk_offsets': (3, '31ca614b8a645566'),
                                               'pixels': 'cdbee6abd261cb29',
                                               'pixel-io': (13, 'bb62476b1283913a')}},
                          'io': [('isfile', '~/{HH}.index'), ('cat_file', '~/{HH}.index', None, None), ('open', '~/{HH}', 'rb'), ('isfile', '/products/p1'),
                                 ('isfile', '/products'), ('isfile', '/'), ('enter', '~/{HH}'), ('read', '~/{HH}', 720, 720), ('read', '~/{HH}', 1152, 1152),
                                 ('read', '~/{HH}', 1152, 1152), ('read', '~/{HH}', 576, 576), ('exit', '~/{HH}', None), ('close', '~/{HH}')],
                          'local-caches': [('82a71c1c919bc2dd4d97f62db2da91091a07a89d6a669f881d0ca3198a917cb3/{HH}.index', '6b4719d77d55abc2')],
                          'remote-files': [('~/{HH}', 'de06a0dfa5513ac2'), ('~/{HH}.index', 'e3b0c44298fc1c14'), ('~/{HV}', 'b5ef31a26057e155')]},
 'remote-cache/empty#1': {'result': {'digest': '104d8d11fbb7a927',
                                     'type': 'Group',
                                     'path': 'HH_scan3',
                                     'url': None,
                                     'attrs': (15, 'f8d99856b25c71ae'),
                                     'names': (32, '7bce531cf4d41d8b'),
                                     'array': {'dims': ['rows', 'columns'],
                                               'attrs': {},
                                               'fs': ('DirFileSystem', '/products/p1', 'LoggingFileSystem'),
                                               'url': 'IMG-HH-ALOS2225333100-180726-WWDR1.1__D-B3',
                                               'shape': (5, 4),
                                               'dtype': ('str', "'complex64'"),
                                               'type_code': 'C*8',
                                               'records_per_chunk': ('int', '2'),
                                               'byte_ranges': ([(1264, 1296)], '7bdb7111993ae192'),
                                               'chunk_offsets': (3, '31ca614b8a645566'),
                                               'pixels': 'cdbee6abd261cb29',
                                               'pixel-io': (13, 'bb62476b1283913a')}},
                          'io': [('open', '~/{HH}', 'rb'), ('isfile', '/products/p1'), ('isfile', '/products'), ('isfile', '/'), ('enter', '~/{HH}'),
                                 ('read', '~/{HH}', 720, 720), ('read', '~/{HH}', 1152, 1152), ('read', '~/{HH}', 1152, 1152), ('read', '~/{HH}', 576, 576),
                                 ('exit', '~/{HH}', None), ('close', '~/{HH}')],
                          'local-caches': [('82a71c1c919bc2dd4d97f62db2da91091a07a89d6a669f881d0ca3198a917cb3/{HH}.index', '6b4719d77d55abc2')],
                          'remote-files': [('~/{HH}', 'de06a0dfa5513ac2'), ('~/{HH}.index', 'e3b0c44298fc1c14'), ('~/{HV}', 'b5ef31a26057e155')]},
 'remote-cache/truncated#0': {'result': {'digest': '104d8d11fbb7a927',
                                         'type': 'Group',
                                         'path': 'HH_scan3',
                                         'url': None,
                                         'attrs': (15, 'f8d99856b25c71ae'),
                                         'names': (32, '7bce531cf4d41d8b'),
                                         'array': {'dims': ['rows', 'columns'],
                                                   'attrs': {},
                                                   'fs': ('DirFileSystem', '/products/p1', 'LoggingFileSystem'),
                                                   'url': 'IMG-HH-ALOS2225333100-180726-WWDR1.1__D-B3',
                                                   'shape': (5, 4),
                                                   'dtype': ('str', "'complex64'"),
                                                   'type_code': 'C*8',
                                                   'records_per_chunk': ('int', '2'),
                                                   'byte_ranges': ([(1264, 1296)], '7bdb7111993ae192'),
                                                   'chunk_offsets': (3, '31ca614b8a645566'),
                                                   'pixels': 'cdbee6abd261cb29',
                                                   'pixel-io': (13, 'bb62476b1283913a')}},
                              'io': [('isfile', '~/{HH}.index'), ('cat_file', '~/{HH}.index', None, None), ('open', '~/{HH}', 'rb'), ('isfile', '/products/p1'),
                                     ('isfile', '/products'), ('isfile', '/'), ('enter', '~/{HH}'), ('read', '~/{HH}', 720, 720),
                                     ('read', '~/{HH}', 1152, 1152), ('read', '~/{HH}', 1152, 1152), ('read', '~/{HH}', 576, 576), ('exit', '~/{HH}', None),
                                     ('close', '~/{HH}')],
                              'local-caches': [('82a71c1c919bc2dd4d97f62db2da91091a07a89d6a669f881d0ca3198a917cb3/{HH}.index', '6b4719d77d55abc2')],
                              'remote-files': [('~/{HH}', 'de06a0dfa5513ac2'), ('~/{HH}.index', '2897d1fc95dd7c9a'), ('~/{HV}', 'b5ef31a26057e155')]},
 'remote-cache/truncated#1': {'result': {'digest': '104d8d11fbb7a927',
                                         'type': 'Group',
                                         'path': 'HH_scan3',
                                         'url': None,
                                         'attrs': (15, 'f8d99856b25c71ae'),
                                         'names': (32, '7bce531cf4d41d8b'),
                                         'array': {'dims': ['rows', 'columns'],
                                                   'attrs': {},
                                                   'fs': ('DirFileSystem', '/products/p1', 'LoggingFileSystem'),
                                                   'url': 'IMG-HH-ALOS2225333100-180726-WWDR1.1__D-B3',
                                                   'shape': (5, 4),
                                                   'dtype': ('str', "'complex64'"),
                                                   'type_code': 'C*8',
                                                   'records_per_chunk': ('int', '2'),
                                                   'byte_ranges': ([(1264, 1296)], '7bdb7111993ae192'),
                                                   'chunk_offsets': (3, '31ca614b8a645566'),
                                                   'pixels': 'cdbee6abd261cb29',
                                                   'pixel-io': (13, 'bb62476b1283913a')}},
                              'io': [('open', '~/{HH}', 'rb'), ('isfile', '/products/p1'), ('isfile', '/products'), ('isfile', '/'), ('enter', '~/{HH}'),
                                     ('read', '~/{HH}', 720, 720), ('read', '~/{HH}', 1152, 1152), ('read', '~/{HH}', 1152, 1152), ('read', '~/{HH}', 576, 576),
                                     ('exit', '~/{HH}', None), ('close', '~/{HH}')],
                              'local-caches': [('82a71c1c919bc2dd4d97f62db2da91091a07a89d6a669f881d0ca3198a917cb3/{HH}.index', '6b4719d77d55abc2')],
                              'remote-files': [('~/{HH}', 'de06a0dfa5513ac2'), ('~/{HH}.index', '2897d1fc95dd7c9a'), ('~/{HV}', 'b5ef31a26057e155')]},
 'remote-cache/not-utf8#0': {'error': "UnicodeDecodeError: 'utf-8' codec can't decode byte 0xff in position 0: invalid start byte",
                             'io': [('isfile', '~/{HH}.index'), ('cat_file', '~/{HH}.index', None, None)],
                             'local-caches': [],
                             'remote-files': [('~/{HH}', 'de06a0dfa5513ac2'), ('~/{HH}.index', '604ee178ad94b075'), ('~/{HV}', 'b5ef31a26057e155')]},
 'remote-cache/not-utf8#1': {'result': {'digest': '104d8d11fbb7a927',
                                        'type': 'Group',
                                        'path': 'HH_scan3',
                                        'url': None,
                                        'attrs': (15, 'f8d99856b25c71ae'),
                                        'names': (32, '7bce531cf4d41d8b'),
                                        'array': {'dims': ['rows', 'columns'],
                                                  'attrs': {},
                                                  'fs': ('DirFileSystem', '/products/p1', 'LoggingFileSystem'),
                                                  'url': 'IMG-HH-ALOS2225333100-180726-WWDR1.1__D-B3',
                                                  'shape': (5, 4),
                                                  'dtype': ('str', "'complex64'"),
                                                  'type_code': 'C*8',
                                                  'records_per_chunk': ('int', '2'),
                                                  'byte_ranges': ([(1264, 1296)], '7bdb7111993ae192'),
                                                  'chunk_offsets': (3, '31ca614b8a645566'),
                                                  'pixels': 'cdbee6abd261cb29',
                                                  'pixel-io': (13, 'bb62476b1283913a')}},
                             'io': [('open', '~/{HH}', 'rb'), ('isfile', '/products/p1'), ('isfile', '/products'), ('isfile', '/'), ('enter', '~/{HH}'),
                                    ('read', '~/{HH}', 720, 720), ('read', '~/{HH}', 1152, 1152), ('read', '~/{HH}', 1152, 1152), ('read', '~/{HH}', 576, 576),
                                    ('exit', '~/{HH}', None), ('close', '~/{HH}')],
                             'local-caches': [],
                             'remote-files': [('~/{HH}', 'de06a0dfa5513ac2'), ('~/{HH}.index', '604ee178ad94b075'), ('~/{HV}', 'b5ef31a26057e155')]},
 'remote-cache/json-empty-object#0': {'result': {'digest': '40bbd9ccf36d5f99', 'type': 'dict', 'repr': '{}'},
                                      'io': [('isfile', '~/{HH}.index'), ('cat_file', '~/{HH}.index', None, None)],
                                      'local-caches': [],
                                      'remote-files': [('~/{HH}', 'de06a0dfa5513ac2'), ('~/{HH}.index', '44136fa355b3678a'), ('~/{HV}', 'b5ef31a26057e155')]},
 'remote-cache/json-empty-object#1': {'result': {'digest': '104d8d11fbb7a927',
                                                 'type': 'Group',
                                                 'path': 'HH_scan3',
                                                 'url': None,
                                                 'attrs': (15, 'f8d99856b25c71ae'),
                                                 'names': (32, '7bce531cf4d41d8b'),
                                                 'array': {'dims': ['rows', 'columns'],
                                                           'attrs': {},
                                                           'fs': ('DirFileSystem', '/products/p1', 'LoggingFileSystem'),
                                                           'url': 'IMG-HH-ALOS2225333100-180726-WWDR1.1__D-B3',
                                                           'shape': (5, 4),
                                                           'dtype': ('str', "'complex64'"),
                                                           'type_code': 'C*8',
                                                           'records_per_chunk': ('int', '2'),
                                                           'byte_ranges': ([(1264, 1296)], '7bdb7111993ae192'),
                                                           'chunk_offsets': (3, '31ca614b8a645566'),
                                                           'pixels': 'cdbee6abd261cb29',
                                                           'pixel-io': (13, 'bb62476b1283913a')}},
                                      'io': [('open', '~/{HH}', 'rb'), ('isfile', '/products/p1'), ('isfile', '/products'), ('isfile', '/'),
                                             ('enter', '~/{HH}'), ('read', '~/{HH}', 720, 720), ('read', '~/{HH}', 1152, 1152), ('read', '~/{HH}', 1152, 1152),
                                             ('read', '~/{HH}', 576, 576), ('exit', '~/{HH}', None), ('close', '~/{HH}')],
                                      'local-caches': [],
                                      'remote-files': [('~/{HH}', 'de06a0dfa5513ac2'), ('~/{HH}.index', '44136fa355b3678a'), ('~/{HV}', 'b5ef31a26057e155')]},
 'remote-cache/json-null#0': {'error': "AttributeError: 'NoneType' object has no attribute 'get'",
                              'io': [('isfile', '~/{HH}.index'), ('cat_file', '~/{HH}.index', None, None)],
                              'local-caches': [],
                              'remote-files': [('~/{HH}', 'de06a0dfa5513ac2'), ('~/{HH}.index', '74234e98afe7498f'), ('~/{HV}', 'b5ef31a26057e155')]},
 'remote-cache/json-null#1': {'result': {'digest': '104d8d11fbb7a927',
                                         'type': 'Group',
                                         'path': 'HH_scan3',
                                         'url': None,
                                         'attrs': (15, 'f8d99856b25c71ae'),
                                         'names': (32, '7bce531cf4d41d8b'),
                                         'array': {'dims': ['rows', 'columns'],
                                                   'attrs': {},
                                                   'fs': ('DirFileSystem', '/products/p1', 'LoggingFileSystem'),
                                                   'url': 'IMG-HH-ALOS2225333100-180726-WWDR1.1__D-B3',
                                                   'shape': (5, 4),
                                                   'dtype': ('str', "'complex64'"),
                                                   'type_code': 'C*8',
                                                   'records_per_chunk': ('int', '2'),
                                                   'byte_ranges': ([(1264, 1296)], '7bdb7111993ae192'),
                                                   'chunk_offsets': (3, '31ca614b8a645566'),
                                                   'pixels': 'cdbee6abd261cb29',
                                                   'pixel-io': (13, 'bb62476b1283913a')}},
                              'io': [('open', '~/{HH}', 'rb'), ('isfile', '/products/p1'), ('isfile', '/products'), ('isfile', '/'), ('enter', '~/{HH}'),
                                     ('read', '~/{HH}', 720, 720), ('read', '~/{HH}', 1152, 1152), ('read', '~/{HH}', 1152, 1152), ('read', '~/{HH}', 576, 576),
                                     ('exit', '~/{HH}', None), ('close', '~/{HH}')],
                              'local-caches': [],
                              'remote-files': [('~/{HH}', 'de06a0dfa5513ac2'), ('~/{HH}.index', '74234e98afe7498f'), ('~/{HV}', 'b5ef31a26057e155')]},
 'remote-cache/json-list#0': {'error': "AttributeError: 'list' object has no attribute 'get'",
                              'io': [('isfile', '~/{HH}.index'), ('cat_file', '~/{HH}.index', None, None)],
                              'local-caches': [],
                              'remote-files': [('~/{HH}', 'de06a0dfa5513ac2'), ('~/{HH}.index', '3a316d6d3226f84c'), ('~/{HV}', 'b5ef31a26057e155')]},
 'remote-cache/json-list#1': {'result': {'digest': '104d8d11fbb7a927',
                                         'type': 'Group',
                                         'path': 'HH_scan3',
                                         'url': None,
                                         'attrs': (15, 'f8d99856b25c71ae'),
                                         'names': (32, '7bce531cf4d41d8b'),
                                         'array': {'dims': ['rows', 'columns'],
                                                   'attrs': {},
                                                   'fs': ('DirFileSystem', '/products/p1', 'LoggingFileSystem'),
                                                   'url': 'IMG-HH-ALOS2225333100-180726-WWDR1.1__D-B3',
                                                   'shape': (5, 4),
                                                   'dtype': ('str', "'complex64'"),
                                                   'type_code': 'C*8',
                                                   'records_per_chunk': ('int', '2'),
                                                   'byte_ranges': ([(1264, 1296)], '7bdb7111993ae192'),
                                                   'chunk_offsets': (3, '31ca614b8a645566'),
                                                   'pixels': 'cdbee6abd261cb29',
                                                   'pixel-io': (13, 'bb62476b1283913a')}},
                              'io': [('open', '~/{HH}', 'rb'), ('isfile', '/products/p1'), ('isfile', '/products'), ('isfile', '/'), ('enter', '~/{HH}'),
                                     ('read', '~/{HH}', 720, 720), ('read', '~/{HH}', 1152, 1152), ('read', '~/{HH}', 1152, 1152), ('read', '~/{HH}', 576, 576),
                                     ('exit', '~/{HH}', None), ('close', '~/{HH}')],
                              'local-caches': [],
                              'remote-files': [('~/{HH}', 'de06a0dfa5513ac2'), ('~/{HH}.index', '3a316d6d3226f84c'), ('~/{HV}', 'b5ef31a26057e155')]},
 'remote-cache/json-number#0': {'error': "AttributeError: 'int' object has no attribute 'get'",
                                'io': [('isfile', '~/{HH}.index'), ('cat_file', '~/{HH}.index', None, None)],
                                'local-caches': [],
                                'remote-files': [('~/{HH}', 'de06a0dfa5513ac2'), ('~/{HH}.index', 'ef2d127de37b942b'), ('~/{HV}', 'b5ef31a26057e155')]},
 'remote-cache/json-number#1': {'result': {'digest': '104d8d11fbb7a927',
                                           'type': 'Group',
                                           'path': 'HH_scan3',
                                           'url': None,
                                           'attrs': (15, 'f8d99856b25c71ae'),
                                           'names': (32, '7bce531cf4d41d8b'),
                                           'array': {'dims': ['rows', 'columns'],
                                                     'attrs': {},
                                                     'fs': ('DirFileSystem', '/products/p1', 'LoggingFileSystem'),
                                                     'url': 'IMG-HH-ALOS2225333100-180726-WWDR1.1__D-B3',
                                                     'shape': (5, 4),
                                                     'dtype': ('str', "'complex64'"),
                                                     'type_code': 'C*8',
                                                     'records_per_chunk': ('int', '2'),
                                                     'byte_ranges': ([(1264, 1296)], '7bdb7111993ae192'),
                                                     'chunk_offsets': (3, '31ca614b8a645566'),
                                                     'pixels': 'cdbee6abd261cb29',
                                                     'pixel-io': (13, 'bb62476b1283913a')}},
                                'io': [('open', '~/{HH}', 'rb'), ('isfile', '/products/p1'), ('isfile', '/products'), ('isfile', '/'), ('enter', '~/{HH}'),
                                       ('read', '~/{HH}', 720, 720), ('read', '~/{HH}', 1152, 1152), ('read', '~/{HH}', 1152, 1152),
                                       ('read', '~/{HH}', 576, 576), ('exit', '~/{HH}', None), ('close', '~/{HH}')],
                                'local-caches': [],
                                'remote-files': [('~/{HH}', 'de06a0dfa5513ac2'), ('~/{HH}.index', 'ef2d127de37b942b'), ('~/{HV}', 'b5ef31a26057e155')]},
 'remote-cache/json-group-without-data#0': {'error': "KeyError: 'data'",
                                            'io': [('isfile', '~/{HH}.index'), ('cat_file', '~/{HH}.index', None, None)],
                                            'local-caches': [],
                                            'remote-files': [('~/{HH}', 'de06a0dfa5513ac2'), ('~/{HH}.index', '3a26ee290e0ae007'),
                                                             ('~/{HV}', 'b5ef31a26057e155')]},
 'remote-cache/json-group-without-data#1': {'result': {'digest': '104d8d11fbb7a927',
                                                       'type': 'Group',
                                                       'path': 'HH_scan3',
                                                       'url': None,
                                                       'attrs': (15, 'f8d99856b25c71ae'),
                                                       'names': (32, '7bce531cf4d41d8b'),
                                                       'array': {'dims': ['rows', 'columns'],
                                                                 'attrs': {},
                                                                 'fs': ('DirFileSystem', '/products/p1', 'LoggingFileSystem'),
                                                                 'url': 'IMG-HH-ALOS2225333100-180726-WWDR1.1__D-B3',
                                                                 'shape': (5, 4),
                                                                 'dtype': ('str', "'complex64'"),
                                                                 'type_code': 'C*8',
                                                                 'records_per_chunk': ('int', '2'),
                                                                 'byte_ranges': ([(1264, 1296)], '7bdb7111993ae192'),
                                                                 'chunk_offsets': (3, '31ca614b8a645566'),
                                                                 'pixels': 'cdbee6abd261cb29',
                                                                 'pixel-io': (13, 'bb62476b1283913a')}},
                                            'io': [('open', '~/{HH}', 'rb'), ('isfile', '/products/p1'), ('isfile', '/products'), ('isfile', '/'),
                                                   ('enter', '~/{HH}'), ('read', '~/{HH}', 720, 720), ('read', '~/{HH}', 1152, 1152),
                                                   ('read', '~/{HH}', 1152, 1152), ('read', '~/{HH}', 576, 576), ('exit', '~/{HH}', None),
                                                   ('close', '~/{HH}')],
                                            'local-caches': [],
                                            'remote-files': [('~/{HH}', 'de06a0dfa5513ac2'), ('~/{HH}.index', '3a26ee290e0ae007'),
                                                             ('~/{HV}', 'b5ef31a26057e155')]},
 'remote-cache/json-variable#0': {'result': {'digest': 'f52b2fcc36e53390', 'type': 'Variable', 'repr': "Variable(dims=['x'], data=array([1, 2]), attrs={})"},
                                  'io': [('isfile', '~/{HH}.index'), ('cat_file', '~/{HH}.index', None, None)],
                                  'local-caches': [],
                                  'remote-files': [('~/{HH}', 'de06a0dfa5513ac2'), ('~/{HH}.index', 'f400d73413669abf'), ('~/{HV}', 'b5ef31a26057e155')]},
 'remote-cache/json-variable#1': {'result': {'digest': '104d8d11fbb7a927',
                                             'type': 'Group',
                                             'path': 'HH_scan3',
                                             'url': None,
                                             'attrs': (15, 'f8d99856b25c71ae'),
                                             'names': (32, '7bce531cf4d41d8b'),
                                             'array': {'dims': ['rows', 'columns'],
                                                       'attrs': {},
                                                       'fs': ('DirFileSystem', '/products/p1', 'LoggingFileSystem'),
                                                       'url': 'IMG-HH-ALOS2225333100-180726-WWDR1.1__D-B3',
                                                       'shape': (5, 4),
                                                       'dtype': ('str', "'complex64'"),
                                                       'type_code': 'C*8',
                                                       'records_per_chunk': ('int', '2'),
                                                       'byte_ranges': ([(1264, 1296)], '7bdb7111993ae192'),
                                                       'chunk_offsets': (3, '31ca614b8a645566'),
                                                       'pixels': 'cdbee6abd261cb29',
                                                       'pixel-io': (13, 'bb62476b1283913a')}},
                                  'io': [('open', '~/{HH}', 'rb'), ('isfile', '/products/p1'), ('isfile', '/products'), ('isfile', '/'), ('enter', '~/{HH}'),
                                         ('read', '~/{HH}', 720, 720), ('read', '~/{HH}', 1152, 1152), ('read', '~/{HH}', 1152, 1152),
                                         ('read', '~/{HH}', 576, 576), ('exit', '~/{HH}', None), ('close', '~/{HH}')],
                                  'local-caches': [],
                                  'remote-files': [('~/{HH}', 'de06a0dfa5513ac2'), ('~/{HH}.index', 'f400d73413669abf'), ('~/{HV}', 'b5ef31a26057e155')]},
 'both-caches/local-wins#0': {'result': {'digest': '104d8d11fbb7a927',
                                         'type': 'Group',
                                         'path': 'HH_scan3',
                                         'url': None,
                                         'attrs': (15, 'f8d99856b25c71ae'),
                                         'names': (32, '7bce531cf4d41d8b'),
                                         'array': {'dims': ['rows', 'columns'],
                                                   'attrs': {},
                                                   'fs': ('DirFileSystem', '/products/p1', 'LoggingFileSystem'),
                                                   'url': 'IMG-HH-ALOS2225333100-180726-WWDR1.1__D-B3',
                                                   'shape': (5, 4),
                                                   'dtype': ('str', "'complex64'"),
                                                   'type_code': 'C*8',
                                                   'records_per_chunk': ('int', '2'),
                                                   'byte_ranges': ([(1264, 1296)], '7bdb7111993ae192'),
                                                   'chunk_offsets': (3, '31ca614b8a645566'),
                                                   'pixels': 'cdbee6abd261cb29',
                                                   'pixel-io': (13, 'bb62476b1283913a')}},
                              'io': [('open', '~/{HH}', 'rb'), ('isfile', '/products/p1'), ('isfile', '/products'), ('isfile', '/'), ('enter', '~/{HH}'),
                                     ('read', '~/{HH}', 720, 720), ('read', '~/{HH}', 1152, 1152), ('read', '~/{HH}', 1152, 1152), ('read', '~/{HH}', 576, 576),
                                     ('exit', '~/{HH}', None), ('close', '~/{HH}')],
                              'local-caches': [('82a71c1c919bc2dd4d97f62db2da91091a07a89d6a669f881d0ca3198a917cb3/{HH}.index', '6b4719d77d55abc2')],
                              'remote-files': [('~/{HH}', 'de06a0dfa5513ac2'), ('~/{HH}.index', '0370b6dbf0b9be6e'), ('~/{HV}', 'b5ef31a26057e155')]},
 'both-caches/local-wins#1': {'result': {'digest': 'a9eae2f1ab5b10d5',
                                         'type': 'Group',
                                         'path': 'HH_scan3',
                                         'url': None,
                                         'attrs': (15, 'f8d99856b25c71ae'),
                                         'names': (32, '7bce531cf4d41d8b'),
                                         'array': {'dims': ['rows', 'columns'],
                                                   'attrs': {},
                                                   'fs': ('DirFileSystem', '/products/p1', 'LocalFileSystem'),
                                                   'url': 'IMG-HH-ALOS2225333100-180726-WWDR1.1__D-B3',
                                                   'shape': (5, 4),
                                                   'dtype': ('str', "'complex64'"),
                                                   'type_code': 'C*8',
                                                   'records_per_chunk': ('int', '2'),
                                                   'byte_ranges': ([(1264, 1296)], '7bdb7111993ae192'),
                                                   'chunk_offsets': (3, '31ca614b8a645566'),
                                                   'pixels': 'FileNotFoundError: [Errno 2] No such file or directory: '
                                                             "'/products/p1/IMG-HH-ALOS2225333100-180726-WWDR1.1__D-B3'",
                                                   'pixel-io': (0, '4f53cda18c2baa0c')}},
                              'io': [],
                              'local-caches': [('82a71c1c919bc2dd4d97f62db2da91091a07a89d6a669f881d0ca3198a917cb3/{HH}.index', '6b4719d77d55abc2')],
                              'remote-files': [('~/{HH}', 'de06a0dfa5513ac2'), ('~/{HH}.index', '0370b6dbf0b9be6e'), ('~/{HV}', 'b5ef31a26057e155')]},
 'local-cache/garbage': {'result': {'digest': '104d8d11fbb7a927',
                                    'type': 'Group',
                                    'path': 'HH_scan3',
                                    'url': None,
                                    'attrs': (15, 'f8d99856b25c71ae'),
                                    'names': (32, '7bce531cf4d41d8b'),
                                    'array': {'dims': ['rows', 'columns'],
                                              'attrs': {},
                                              'fs': ('DirFileSystem', '/products/p1', 'LoggingFileSystem'),
                                              'url': 'IMG-HH-ALOS2225333100-180726-WWDR1.1__D-B3',
                                              'shape': (5, 4),
                                              'dtype': ('str', "'complex64'"),
                                              'type_code': 'C*8',
                                              'records_per_chunk': ('int', '2'),
                                              'byte_ranges': ([(1264, 1296)], '7bdb7111993ae192'),
                                              'chunk_offsets': (3, '31ca614b8a645566'),
                                              'pixels': 'cdbee6abd261cb29',
                                              'pixel-io': (13, 'bb62476b1283913a')}},
                         'io': [('open', '~/{HH}', 'rb'), ('isfile', '/products/p1'), ('isfile', '/products'), ('isfile', '/'), ('enter', '~/{HH}'),
                                ('read', '~/{HH}', 720, 720), ('read', '~/{HH}', 1152, 1152), ('read', '~/{HH}', 1152, 1152), ('read', '~/{HH}', 576, 576),
                                ('exit', '~/{HH}', None), ('close', '~/{HH}')],
                         'local-caches': [('82a71c1c919bc2dd4d97f62db2da91091a07a89d6a669f881d0ca3198a917cb3/{HH}.index', '9ff0e9578c9d552b')],
                         'remote-files': [('~/{HH}', 'de06a0dfa5513ac2')]},
 'local-cache/garbage-overwritten': {'result': {'digest': '104d8d11fbb7a927',
                                                'type': 'Group',
                                                'path': 'HH_scan3',
                                                'url': None,
                                                'attrs': (15, 'f8d99856b25c71ae'),
                                                'names': (32, '7bce531cf4d41d8b'),
                                                'array': {'dims': ['rows', 'columns'],
                                                          'attrs': {},
                                                          'fs': ('DirFileSystem', '/products/p1', 'LoggingFileSystem'),
                                                          'url': 'IMG-HH-ALOS2225333100-180726-WWDR1.1__D-B3',
                                                          'shape': (5, 4),
                                                          'dtype': ('str', "'complex64'"),
                                                          'type_code': 'C*8',
                                                          'records_per_chunk': ('int', '2'),
                                                          'byte_ranges': ([(1264, 1296)], '7bdb7111993ae192'),
                                                          'chunk_offsets': (3, '31ca614b8a645566'),
                                                          'pixels': 'cdbee6abd261cb29',
                                                          'pixel-io': (13, 'bb62476b1283913a')}},
                                     'io': [('open', '~/{HH}', 'rb'), ('isfile', '/products/p1'), ('isfile', '/products'), ('isfile', '/'), ('enter', '~/{HH}'),
                                            ('read', '~/{HH}', 720, 720), ('read', '~/{HH}', 1152, 1152), ('read', '~/{HH}', 1152, 1152),
                                            ('read', '~/{HH}', 576, 576), ('exit', '~/{HH}', None), ('close', '~/{HH}')],
                                     'local-caches': [('82a71c1c919bc2dd4d97f62db2da91091a07a89d6a669f881d0ca3198a917cb3/{HH}.index', '6b4719d77d55abc2')],
                                     'remote-files': [('~/{HH}', 'de06a0dfa5513ac2')]},
 'local-cache/valid-again': {'result': {'digest': 'a9eae2f1ab5b10d5',
                                        'type': 'Group',
                                        'path': 'HH_scan3',
                                        'url': None,
                                        'attrs': (15, 'f8d99856b25c71ae'),
                                        'names': (32, '7bce531cf4d41d8b'),
                                        'array': {'dims': ['rows', 'columns'],
                                                  'attrs': {},
                                                  'fs': ('DirFileSystem', '/products/p1', 'LocalFileSystem'),
                                                  'url': 'IMG-HH-ALOS2225333100-180726-WWDR1.1__D-B3',
                                                  'shape': (5, 4),
                                                  'dtype': ('str', "'complex64'"),
                                                  'type_code': 'C*8',
                                                  'records_per_chunk': ('int', '2'),
                                                  'byte_ranges': ([(1264, 1296)], '7bdb7111993ae192'),
                                                  'chunk_offsets': (3, '31ca614b8a645566'),
                                                  'pixels': 'FileNotFoundError: [Errno 2] No such file or directory: '
                                                            "'/products/p1/IMG-HH-ALOS2225333100-180726-WWDR1.1__D-B3'",
                                                  'pixel-io': (0, '4f53cda18c2baa0c')}},
                             'io': [],
                             'local-caches': [('82a71c1c919bc2dd4d97f62db2da91091a07a89d6a669f881d0ca3198a917cb3/{HH}.index', '6b4719d77d55abc2')],
                             'remote-files': [('~/{HH}', 'de06a0dfa5513ac2')]},
 'local-cache/is-a-directory': {'result': {'digest': '104d8d11fbb7a927',
                                           'type': 'Group',
                                           'path': 'HH_scan3',
                                           'url': None,
                                           'attrs': (15, 'f8d99856b25c71ae'),
                                           'names': (32, '7bce531cf4d41d8b'),
                                           'array': {'dims': ['rows', 'columns'],
                                                     'attrs': {},
                                                     'fs': ('DirFileSystem', '/products/p1', 'LoggingFileSystem'),
                                                     'url': 'IMG-HH-ALOS2225333100-180726-WWDR1.1__D-B3',
                                                     'shape': (5, 4),
                                                     'dtype': ('str', "'complex64'"),
                                                     'type_code': 'C*8',
                                                     'records_per_chunk': ('int', '2'),
                                                     'byte_ranges': ([(1264, 1296)], '7bdb7111993ae192'),
                                                     'chunk_offsets': (3, '31ca614b8a645566'),
                                                     'pixels': 'cdbee6abd261cb29',
                                                     'pixel-io': (13, 'bb62476b1283913a')}},
                                'io': [('isfile', '~/{HH}.index'), ('open', '~/{HH}', 'rb'), ('isfile', '/products/p1'), ('isfile', '/products'),
                                       ('isfile', '/'), ('enter', '~/{HH}'), ('read', '~/{HH}', 720, 720), ('read', '~/{HH}', 1152, 1152),
                                       ('read', '~/{HH}', 1152, 1152), ('read', '~/{HH}', 576, 576), ('exit', '~/{HH}', None), ('close', '~/{HH}')],
                                'local-caches': [],
                                'remote-files': [('~/{HH}', 'de06a0dfa5513ac2')]},
 'local-cache/is-a-directory-create': {'error': 'IsADirectoryError: [Errno 21] Is a directory: '
                                                "'<cache-root>/82a71c1c919bc2dd4d97f62db2da91091a07a89d6a669f881d0ca3198a917cb3/IMG-HH-ALOS2225333100-180726-WWDR1.1__D-B3.index'",
                                       'io': [('isfile', '~/{HH}.index'), ('open', '~/{HH}', 'rb'), ('isfile', '/products/p1'), ('isfile', '/products'),
                                              ('isfile', '/'), ('enter', '~/{HH}'), ('read', '~/{HH}', 720, 720), ('read', '~/{HH}', 1152, 1152),
                                              ('read', '~/{HH}', 1152, 1152), ('read', '~/{HH}', 576, 576), ('exit', '~/{HH}', None), ('close', '~/{HH}')],
                                       'local-caches': [],
                                       'remote-files': [('~/{HH}', 'de06a0dfa5513ac2')]},
 "groupname/'IMG-HH-ALOS2225333100-180726-WWDR1.1__D-B3'": {'result': ('str', "'HH_scan3'")},
 "groupname/'IMG-HV-ALOS2290760600-191011-WWDR1.5RUA'": {'result': ('str', "'HV'")},
 "groupname/'IMG-VV-ALOS2225333100-180726-WWDR1.1__D-F1'": {'result': ('str', "'VV_scan1'")},
 "groupname/'IMG-VH-ALOS2225333100-180726-WWDR1.1__D-B0'": {'result': ('str', "'VH_scan0'")},
 "groupname/'IMG-HH-ALOS2225333100-180726-FBDR1.1__A'": {'result': ('str', "'HH'")},
 "groupname/'IMG-ALOS2225333100-180726-WWDR1.1__D-B5'": {'result': ('str', "'scan5'")},
 "groupname/'IMG-ALOS2225333100-180726-WWDR1.1__D'": {'result': ('str', "''")},
 "groupname/'LED-ALOS2290760600-191011-WWDR1.5RUA'": {'result': ('str', "''")},
 "groupname/'TRL-ALOS2290760600-191011-WWDR1.5RUA'": {'result': ('str', "''")},
 "groupname/'VOL-ALOS2290760600-191011-WWDR1.5RUA'": {'result': ('str', "''")},
 "groupname/'LED-ALOS2290760600-191011-WWDR1.5RUA-B2'": {'result': ('str', "'scan2'")},
 "groupname/'IMG-HH-ALOS2225333100-180726-WWDR1.1__D-X3'": {'error': 'ValueError: invalid file name: IMG-HH-ALOS2225333100-180726-WWDR1.1__D-X3'},
 "groupname/'IMG-HH-ALOS2225333100-180726-WWDR1.1__D-B'": {'error': 'ValueError: invalid file name: IMG-HH-ALOS2225333100-180726-WWDR1.1__D-B'},
 "groupname/'IMG-HH-ALOS2225333100-180732-WWDR1.1__D-B3'": {'error': 'ValueError: invalid scene id: ALOS2225333100-180732'},
 "groupname/'IMG-HH-ALOS2225333100-180726-WWDX1.1__D-B3'": {'error': 'ValueError: invalid product id: WWDX1.1__D'},
 "groupname/'IMG-HX-ALOS2225333100-180726-WWDR1.1__D-B3'": {'error': 'ValueError: invalid file name: IMG-HX-ALOS2225333100-180726-WWDR1.1__D-B3'},
 "groupname/'img-hh-alos2225333100-180726-wwdr1.1__d-b3'": {'error': 'ValueError: invalid file name: img-hh-alos2225333100-180726-wwdr1.1__d-b3'},
 "groupname/'/data/IMG-HH-ALOS2225333100-180726-WWDR1.1__D-B3'": {'error': 'ValueError: invalid file name: /data/IMG-HH-ALOS2225333100-180726-WWDR1.1__D-B3'},
 "groupname/'IMG-HH-ALOS2225333100-180726-WWDR1.1__D-B3.index'": {'error': 'ValueError: invalid file name: IMG-HH-ALOS2225333100-180726-WWDR1.1__D-B3.index'},
 "groupname/'IMG-HH-ALOS2225333100-180726-WWDR1.1__D-B3\\n'": {'error': 'ValueError: invalid file name: IMG-HH-ALOS2225333100-180726-WWDR1.1__D-B3\n'},
 "groupname/''": {'error': 'ValueError: invalid file name: '},
 'groupname/None': {'error': "TypeError: expected string or bytes-like object, got 'NoneType'"},
 'groupname/5': {'error': "TypeError: expected string or bytes-like object, got 'int'"},
 "groupname/b'IMG-HH-ALOS2225333100-180726-WWDR1.1__D-B3'": {'error': 'TypeError: cannot use a string pattern on a bytes-like object'},
 "groupname/PurePosixPath('IMG-HH-ALOS2225333100-180726-WWDR1.1__D-B3')": {'error': "TypeError: expected string or bytes-like object, got 'PurePosixPath'"}}
# fmt: on
# <<< EXPECTED


def compare():
    actual = collect()
    failures = []
    if list(actual) != list(EXPECTED):
        failures.append(("<case names>", list(EXPECTED), list(actual)))
    for name, expected in EXPECTED.items():
        if actual.get(name) != expected:
            failures.append((name, expected, actual.get(name)))
    return actual, failures


def test_equivalence():
    _, failures = compare()
    assert not failures, pprint.pformat(failures)


if __name__ == "__main__":
    if "--record" in sys.argv:
        print(
            "EXPECTED = " + pprint.pformat(collect(), width=160, compact=True, sort_dicts=False)
        )
        raise SystemExit(0)

    actual, failures = compare()
    for name, expected, got in failures:
        print(f"MISMATCH {name}\n  expected: {expected}\n  actual:   {got}")
    n_errors = sum(isinstance(o, dict) and "error" in o for o in actual.values())
    print(
        f"{sar_image.__file__}: {len(actual)} cases ({n_errors} raising),"
        f" {len(failures)} mismatches"
    )
    raise SystemExit(1 if failures else 0)
