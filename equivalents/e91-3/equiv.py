"""Equivalence check for refactoring 3: ceos_alos2.sar_image.metadata.transform_line_metadata,
apply_overrides and deduplicate_attrs

Run as a script (`python equiv.py`) or with pytest. `python equiv.py --record` prints the
results of the code that is currently importable; EXPECTED below was recorded that way from
the UNCHANGED code (HEAD). The script passes with and without patch.diff applied.
"""
# ---------------------------------------------------------------------------------------
# shared helpers (copied verbatim into every equiv.py so that each script is self-contained)
# ---------------------------------------------------------------------------------------
import dataclasses
import datetime
import hashlib
import math
import pprint
import struct
import sys

import numpy as np
from construct import Struct as _Struct


def norm(obj):
    """Turn results into plain, deterministic, comparable structures (types are kept)."""
    from ceos_alos2.array import Array
    from ceos_alos2.hierarchy import Group, Variable

    if isinstance(obj, BaseException):
        cause = obj.__cause__
        context = obj.__context__
        return (
            "EXC",
            type(obj).__module__ + "." + type(obj).__qualname__,
            str(obj),
            None if cause is None else norm(cause),
            None if context is None else norm(context),
            obj.__suppress_context__,
        )
    if isinstance(obj, Group):
        return (
            "Group",
            obj.path,
            obj.url,
            [(k, norm(v)) for k, v in obj.data.items()],
            norm(obj.attrs),
        )
    if isinstance(obj, Variable):
        return ("Variable", norm(obj.dims), norm(obj.data), norm(obj.attrs))
    if isinstance(obj, Array):
        return (
            "Array",
            type(obj.fs).__name__,
            getattr(obj.fs, "path", None),
            obj.url,
            norm(obj.byte_ranges),
            norm(obj.shape),
            norm(obj.dtype),
            obj.type_code,
            norm(obj.records_per_chunk),
            norm(obj.chunk_offsets),
        )
    if isinstance(obj, np.ndarray):
        return ("ndarray", str(obj.dtype), obj.shape, norm(obj.tolist()))
    if isinstance(obj, np.generic):
        return ("npscalar", str(obj.dtype), norm(obj.item()))
    if isinstance(obj, np.dtype):
        return ("dtype", str(obj))
    if isinstance(obj, dict):
        return (type(obj).__name__, [(norm(k), norm(v)) for k, v in obj.items()])
    if isinstance(obj, (list, tuple)):
        return (type(obj).__name__, [norm(v) for v in obj])
    if isinstance(obj, (set, frozenset)):
        return (type(obj).__name__, sorted(norm(v) for v in obj))
    if isinstance(obj, float):
        return ("float", "nan" if math.isnan(obj) else repr(obj))
    if isinstance(obj, bool) or obj is None:
        return obj
    if isinstance(obj, (int, str, bytes, complex)):
        return (type(obj).__name__, obj)
    if isinstance(obj, (datetime.datetime, datetime.date)):
        return ("datetime", obj.isoformat())
    if dataclasses.is_dataclass(obj):
        return (type(obj).__name__, norm(dataclasses.asdict(obj)))
    return ("repr", type(obj).__name__, repr(obj))


def outcome(func, *args, **kwargs):
    """Result or exception of a call, normalized."""
    try:
        result = func(*args, **kwargs)
    except BaseException as e:  # noqa: B902
        return norm(e)
    return ("OK", norm(result))


class Recorder:
    """Collects named outcomes and compares them with the recorded ones."""

    def __init__(self):
        self.results = {}

    def add(self, name, value):
        assert name not in self.results, name
        text = repr(value)
        if len(text) > 500:
            # long results are compared through a digest (keep the script at a readable size)
            digest = hashlib.sha256(text.encode()).hexdigest()
            text = f"sha256:{digest} length:{len(text)} start:{text[:160]}"
        self.results[name] = text

    def finish(self, expected):
        if "--record" in sys.argv:
            pprint.pprint(self.results, width=100, sort_dicts=False)
            return 0

        missing = set(expected) ^ set(self.results)
        assert not missing, f"cases differ: {sorted(missing)}"
        failed = [name for name, value in self.results.items() if expected[name] != value]
        for name in failed:
            print(f"MISMATCH in {name}:\n  expected: {expected[name]}\n  actual:   {self.results[name]}")
        assert not failed, f"{len(failed)} of {len(expected)} cases differ"
        print(f"all {len(expected)} cases identical to the recorded behaviour")
        return 0


class LoggingFile:
    """File object wrapper that records every request made to the underlying file."""

    def __init__(self, f, log):
        self._f = f
        self._log = log

    def read(self, *args):
        position = self._f.tell()
        data = self._f.read(*args)
        self._log.append(("read", position, args, len(data)))
        return data

    def seek(self, *args):
        self._log.append(("seek", args))
        return self._f.seek(*args)

    def tell(self):
        return self._f.tell()

    def __enter__(self):
        self._log.append(("enter",))
        self._f.__enter__()
        return self

    def __exit__(self, *args):
        self._log.append(("exit", None if args[0] is None else args[0].__name__))
        return self._f.__exit__(*args)


# -- synthetic ALOS-2 image files --------------------------------------------------------


def _walk(struct_, prefix=()):
    """Yield (path, size) of the fixed-size leaves of a construct Struct, in order."""
    for sub in struct_.subcons:
        inner = sub
        while hasattr(inner, "subcon") and not isinstance(inner, _Struct):
            inner = inner.subcon
        if isinstance(inner, _Struct):
            try:
                inner.sizeof()
            except Exception:
                return
            yield from _walk(inner, prefix + (sub.name,))
            continue
        yield prefix + (sub.name,), sub.sizeof()


def field_offsets(struct_):
    offsets = {}
    position = 0
    for path, size in _walk(struct_):
        offsets[".".join(path)] = (position, size)
        position += size
    return offsets, position


def make_file_descriptor(**fields):
    """720 bytes of file descriptor: blank ASCII fields, except those given."""
    from ceos_alos2.sar_image.file_descriptor import file_descriptor_record

    offsets, total = field_offsets(file_descriptor_record)
    assert total == 720, total
    buffer = bytearray(b" " * 720)
    buffer[:12] = struct.pack(">IBBBBI", 1, 50, 192, 18, 18, 720)
    for name, value in fields.items():
        start, size = offsets[name]
        text = str(value).encode("ascii")
        assert len(text) <= size, (name, value)
        buffer[start : start + size] = text.rjust(size) if isinstance(value, int) else text.ljust(size)
    return bytes(buffer)


def make_data_record(kind, sequence_number, record_length, *, record_type=None, seed=0, **fields):
    """A signal (kind=10) or processed (kind=11) data record of `record_length` bytes."""
    from ceos_alos2.sar_image.processed_data import processed_data_record
    from ceos_alos2.sar_image.signal_data import signal_data_record

    record = {10: signal_data_record, 11: processed_data_record}[kind]
    offsets, header_size = field_offsets(record)
    assert record_length >= header_size, header_size

    header_rng = np.random.default_rng(seed)
    data_rng = np.random.default_rng(seed * 1000 + sequence_number)
    buffer = bytearray(record_length)
    # small big-endian numbers everywhere, the same for all the records of a file
    for name, (start, size) in offsets.items():
        if "blanks" in name or name == "palsar_auxiliary_data":
            continue
        buffer[start + size - 1] = int(header_rng.integers(0, 4))
    n_data = record_length - header_size
    buffer[header_size:] = bytes(data_rng.integers(0, 256, n_data, dtype="uint8"))

    defaults = {
        "preamble.record_sequence_number": sequence_number,
        "preamble.first_record_subtype": 50,
        "preamble.record_type": kind if record_type is None else record_type,
        "preamble.second_record_subtype": 18,
        "preamble.third_record_subtype": 20,
        "preamble.record_length": record_length,
        "sar_image_data_line_number": sequence_number - 1,
        "sensor_acquisition_date.year": 2020,
        "sensor_acquisition_date.day_of_year": 123,
        "sensor_acquisition_date.milliseconds": 45_000_000 + 7 * sequence_number,
        "scan_id": 2,
    }
    if kind == 10:
        defaults["sensor_acquisition_date_microseconds"] = 45_000_000_000 + 7000 * sequence_number
    for name, value in (defaults | fields).items():
        start, size = offsets[name]
        buffer[start : start + size] = int(value).to_bytes(size, "big")
    return bytes(buffer), header_size


def make_image_file(kind, n_records, record_length, *, seed=0, descriptor=None, record_fields=None):
    descriptor_fields = {
        "number_of_sar_data_records": n_records,
        "sar_data_record_length": record_length,
        "sar_related_data_in_the_record.number_of_lines_per_dataset": n_records,
        "sar_related_data_in_the_record.number_of_data_groups_per_line": 4,
        "sar_related_data_in_the_record.interleaving_id": "BSQ",
        "prefix_suffix_data_locators.sar_data_format_type_code": "C*8" if kind == 10 else "IU2",
    } | (descriptor or {})
    records = [
        make_data_record(kind, index + 1, record_length, seed=seed, **(record_fields or {}))[0]
        for index in range(n_records)
    ]
    return make_file_descriptor(**descriptor_fields) + b"".join(records)


# ---------------------------------------------------------------------------------------
# the cases
# ---------------------------------------------------------------------------------------
import collections
import copy
import datetime as dt
import io as _stdio
import types

from construct import Container


class ItemsOnly:
    """not a mapping, but has what the functions need"""

    def __init__(self, items):
        self._items = items

    def items(self):
        return iter(self._items)


def _call(func, *args):
    """outcome of the call, and whether the arguments are still what they were"""
    before = repr(norm(args))
    result = outcome(func, *args)
    return result, before == repr(norm(args))


def run(rec):
    from ceos_alos2.sar_image import io, metadata

    date1 = dt.datetime(2020, 10, 1, 12, 37, 42, 451000)
    date2 = dt.datetime(2020, 10, 2, 12, 37, 42, 451001)

    # --- apply_overrides -----------------------------------------------------------------
    mapping = {"a": ("x", [1, 2], {}), "b": ("y", [1.0, 2.1], {"u": 1}), "c": 5}
    overrides = {
        "none": {},
        "a": {"a": "int8"},
        "b": {"b": "float16"},
        "both": {"b": "float16", "a": "int8"},
        "absent": {"z": "int8"},
        "not-a-variable": {"c": "int8"},
        "dtype-object": {"a": np.dtype(">u2")},
        "dtype-type": {"a": float},
        "dtype-none": {"a": None},
        "dtype-invalid": {"a": "foo"},
        "dtype-first-invalid": {"a": "foo", "b": "bar"},
        "datetime-of-int": {"a": "datetime64[ns]"},
        "datetime-of-float": {"b": "datetime64[ns]"},
        "defaultdict": collections.defaultdict(lambda: "int8"),
        "defaultdict-a": collections.defaultdict(lambda: "int8", a="float32"),
        "list": ["a"],
        "set": {"a"},
        "str": "abc",
        "proxy": types.MappingProxyType({"a": "int8"}),
    }
    for name, override in overrides.items():
        rec.add(f"apply_overrides-{name}", _call(metadata.apply_overrides, override, mapping))
    rec.add("apply_overrides-none-given", _call(metadata.apply_overrides, None, mapping))
    rec.add("apply_overrides-empty-none", _call(metadata.apply_overrides, None, {}))

    mappings = {
        "empty": {},
        "two-tuple": {"a": ([1], {})},
        "four-tuple": {"a": ("x", [1], {}, 1)},
        "list-value": {"a": ["x", [1, 2], {"k": 1}]},
        "generator-like": {"a": "xyz"},
        "int": {"a": 1},
        "none": {"a": None},
        "later-fails": {"b": ("y", [1], {}), "a": 1, "c": ("z", [2], {})},
        "ragged": {"a": ("x", [[1, 2], [3]], {})},
        "strings": {"a": ("x", ["1", "2"], {})},
        "dates": {"a": ("x", [date1, date2], {})},
        "array": {"a": ("x", np.array([1.5, 2.5]), {})},
        "scalar": {"a": ((), 7, {})},
        "nested": {"a": (["x", "y"], [[1, 2], [3, 4]], {"k": [1]})},
        "order": {"z": 1, "a": ("x", [1], {}), "m": 2},
    }
    for name, mapping_ in mappings.items():
        for dtype in ("int8", "datetime64[ns]"):
            rec.add(
                f"apply_overrides-mapping-{name}-{dtype}",
                _call(metadata.apply_overrides, {"a": dtype}, mapping_),
            )
    rec.add(
        "apply_overrides-items-only",
        _call(
            metadata.apply_overrides,
            {"a": "int8"},
            ItemsOnly([("a", ("x", [1], {})), ("b", 2), ("a", ("y", [3], {}))]),
        ),
    )
    for invalid in (None, 5, [("a", 1)], "ab"):
        rec.add(
            f"apply_overrides-invalid-{invalid!r}",
            _call(metadata.apply_overrides, {"a": "int8"}, invalid),
        )
    untouched = {"a": ("x", [1], {"k": 1}), "b": ("y", [2], {"l": 2})}
    result = metadata.apply_overrides({"a": "int8"}, untouched)
    rec.add(
        "apply_overrides-identity",
        (
            type(result).__name__,
            result is untouched,
            result["b"] is untouched["b"],
            result["a"][0] is untouched["a"][0],
            result["a"][2] is untouched["a"][2],
            type(result["a"]).__name__,
        ),
    )

    # --- deduplicate_attrs ----------------------------------------------------------------
    mapping = {"a": 1, "b": ("x", [1, 1], {}), "c": ("y", [2, 3], {"u": "m"})}
    for name, known in {
        "b": ["b"],
        "c": ["c"],
        "bc": ["b", "c"],
        "cb": ["c", "b"],
        "none": [],
        "set": {"b", "c"},
        "frozenset": frozenset({"c"}),
        "tuple": ("b",),
        "dict": {"c": 1},
        "str": "abc",
        "absent": ["z"],
    }.items():
        rec.add(f"deduplicate_attrs-{name}", _call(metadata.deduplicate_attrs, known, mapping))
    rec.add("deduplicate_attrs-not-a-variable", _call(metadata.deduplicate_attrs, ["a"], mapping))
    rec.add("deduplicate_attrs-known-none", _call(metadata.deduplicate_attrs, None, mapping))
    rec.add("deduplicate_attrs-known-int", _call(metadata.deduplicate_attrs, 5, mapping))
    rec.add("deduplicate_attrs-known-none-empty", _call(metadata.deduplicate_attrs, None, {}))

    known = ["k1", "k2", "k3"]
    for name, mapping_ in {
        "empty": {},
        "only-known": {"k1": ("x", [1], {}), "k2": ("x", [2], {})},
        "order": {"v1": 1, "k2": ("x", [2, 3], {}), "v2": 2, "k1": ("x", [1], {}), "v3": 3},
        "no-values": {"k1": ("x", [], {}), "k2": ("x", [2], {})},
        "no-values-later": {"k1": ("x", [1], {}), "k2": ("x", [], {}), "k3": ("x", [3], {})},
        "one-tuple": {"k1": ("x", [1], {}), "k2": ("x",), "k3": ("x", [3], {})},
        "empty-tuple": {"k1": (), "k2": ("x", [2], {})},
        "str-value": {"k1": "ab", "k2": "abc"},
        "str-values": {"k1": ("x", "hello", {})},
        "int-value": {"k1": ("x", [1], {}), "k2": 5},
        "int-values": {"k1": ("x", 5, {})},
        "none-value": {"k1": None},
        "list-value": {"k1": ["x", [7, 8]]},
        "dict-values": {"k1": ("x", {"p": 1, "q": 2}, {})},
        "nested-values": {"k1": ("x", [[1, 2], [3, 4]], {})},
        "array-values": {"k1": ("x", np.array([4, 5]), {})},
        "iterator-value": {"k1": iter(["x", [9, 10], {}])},
        "non-str-keys": {1: ("x", [1], {}), "k1": ("x", [2], {}), None: 3},
    }.items():
        rec.add(f"deduplicate_attrs-mapping-{name}", _call(metadata.deduplicate_attrs, known, mapping_))
    rec.add(
        "deduplicate_attrs-items-only",
        _call(
            metadata.deduplicate_attrs,
            known,
            ItemsOnly([("k1", ("x", [1], {})), ("v", 2), ("k1", ("x", [3], {})), ("v", 4)]),
        ),
    )
    for invalid in (None, 5, [("k1", 1)], "ab"):
        rec.add(
            f"deduplicate_attrs-invalid-{invalid!r}",
            _call(metadata.deduplicate_attrs, known, invalid),
        )
    variables = {"v": ("x", [1, 2], {}), "k1": ("x", [[1], [2]], {})}
    result = metadata.deduplicate_attrs(known, variables)
    rec.add(
        "deduplicate_attrs-identity",
        (
            type(result).__name__,
            result is variables,
            result["v"] is variables["v"],
            result["k1"] is variables["k1"][1][0],
        ),
    )

    # --- transform_line_metadata --------------------------------------------------------
    lines = {
        # the cases of the test suite
        "suite-ignored": [
            {
                "preamble": {},
                "record_start": 1,
                "actual_count_of_left_fill_pixels": 0,
                "actual_count_of_right_fill_pixels": 0,
                "actual_count_of_data_pixels": 0,
                "palsar_auxiliary_data": b"",
                "blanks2": "",
                "data": {},
            }
        ],
        "suite-variables": [{"a": (1, {"units": "m"})}, {"a": (2, {"units": "m"})}],
        "suite-deduplicated": [{"scan_id": 1}, {"scan_id": 1}],
        "suite-dtypes": [{"sensor_acquisition_date": date1}, {"sensor_acquisition_date": date2}],
        "suite-renamed": [{"sar_image_data_line_number": 1}, {"sar_image_data_line_number": 2}],
        # numbers of lines
        "no-lines": [],
        "no-lines-tuple": (),
        "one-line": [{"a": 1, "scan_id": 3, "sar_image_data_line_number": 7}],
        "one-empty-line": [{}],
        "empty-lines": [{}, {}],
        "lines-in-tuple": ({"a": 1}, {"a": 2}),
        "lines-in-list-in-list": [[{"a": 1}, {"a": 2}]],
        "lines-in-tuple-in-list": [({"a": 1}, {"a": 2})],
        "lines-in-dict": {"a": {"b": 1}},
        "containers": [Container(a=1, scan_id=2), Container(a=3, scan_id=4)],
        # not lines
        "int-line": [5],
        "none-line": [None],
        "str-line": ["ab"],
        "empty-str-line": [""],
        "int-lines": [5, 6],
        "mixed-lines": [{"a": 1}, 5],
        "mixed-lines-first": [5, {"a": 1}],
        "none": None,
        "int": 5,
        "str": "ab",
        "empty-str": "",
        "lists-of-lines": [[{"a": 1}], [{"a": 2}]],
        "pairs": [[("a", 1)], [("a", 2)]],
        # kinds of fields
        "ragged": [{"a": 1, "b": 1}, {"b": 2, "c": 2}, {"a": 3, "c": 3}],
        "attrs-differ": [{"scan_id": 1, "sar_channel_id": "x"}, {"scan_id": 2, "sar_channel_id": "y"}],
        "attrs-with-metadata": [{"scan_id": (1, {"units": "1"})}, {"scan_id": (2, {"units": "1"})}],
        "attrs-ragged": [{"a": 1}, {"a": 2, "scan_id": 9}],
        "all-known-attrs": [
            {
                "sar_image_data_record_index": 1 + i,
                "sensor_parameters_update_flag": 2 + i,
                "scan_id": 3 + i,
                "sar_channel_code": "L",
                "sar_channel_id": "dual_polarization",
                "onboard_range_compressed_flag": bool(i),
                "chirp_type_designator": "linear_fm_chirp",
                "platform_position_parameters_update_flag": "repeat",
                "alos2_frame_number": 100 + i,
                "geographic_reference_parameter_update_flag": i,
                "transmitted_pulse_polarization": "horizontal",
                "received_pulse_polarization": "vertical",
            }
            for i in range(3)
        ],
        "metadata-differs": [{"a": (1, {"units": "m"})}, {"a": (2, {"units": "km"})}],
        "metadata-partially": [{"a": (1, {"units": "m"})}, {"a": 2}],
        "metadata-partially-first": [{"a": 1}, {"a": (2, {"units": "m"})}],
        "metadata-long-tuples": [{"a": (1, {"units": "m"}, 3)}, {"a": (2, {"units": "m"}, 4)}],
        "metadata-short-tuples": [{"a": (1,)}, {"a": (2,)}],
        "metadata-empty-tuples": [{"a": ()}, {"a": ()}],
        "metadata-ragged-tuples": [{"a": (1, {})}, {"a": (2,)}],
        "metadata-not-dict": [{"a": (1, "m")}, {"a": (2, "m")}],
        "tuple-then-int": [{"a": (1, {})}, {"a": 5}, {"a": None}],
        "nested": [{"s": {"x": 1, "spare1": 2}}, {"s": {"x": 3, "spare1": 4}}],
        "nested-metadata": [
            {"s": {"x": (1, {"units": "m"})}, "t": [1, 2]},
            {"s": {"x": (2, {"units": "m"})}, "t": [3]},
        ],
        "spares": [
            {"spare": 1, "spare12": 2, "blanks": 3, "blanks3": 4, "spare_x": 5, "blanksy": 6, "a": 7},
            {"spare": 1, "spare12": 2, "blanks": 3, "blanks3": 4, "spare_x": 8, "blanksy": 9, "a": 0},
        ],
        "dates-us": [
            {"sensor_acquisition_date_microseconds": date1, "sensor_acquisition_date": date1},
            {"sensor_acquisition_date_microseconds": date2, "sensor_acquisition_date": date2},
        ],
        "dates-ragged": [{"sensor_acquisition_date": date1}, {"a": 1}],
        "dates-numbers": [{"sensor_acquisition_date": 1}, {"sensor_acquisition_date": 2}],
        "dates-strings": [{"sensor_acquisition_date": "2020-01-01"}, {"sensor_acquisition_date": "x"}],
        "dates-none": [{"sensor_acquisition_date": None}, {"sensor_acquisition_date": date1}],
        "dates-with-metadata": [
            {"sensor_acquisition_date": (date1, {"a": 1})},
            {"sensor_acquisition_date": (date2, {"a": 1})},
        ],
        "dates-nested": [{"sensor_acquisition_date": {"a": date1}}],
        "rows-clash": [
            {"rows": 1, "sar_image_data_line_number": 10},
            {"rows": 2, "sar_image_data_line_number": 20},
        ],
        "rows-clash-reversed": [
            {"sar_image_data_line_number": 10, "rows": 1},
            {"sar_image_data_line_number": 20, "rows": 2},
        ],
        "values-none": [{"a": None}, {"a": None}],
        "values-lists": [{"a": [1, 2]}, {"a": [3, 4]}],
        "values-dicts-of-lists": [{"a": {"b": [1, 2]}}, {"a": {"b": [3]}}],
        "values-bytes": [{"a": b"x"}, {"a": b""}],
        "keys-not-str": [{1: 2, "a": 3}, {1: 4, "a": 5}],
        "ignored-only-later": [{"a": 1}, {"a": 2, "data": {"start": 1}, "preamble": {}}],
    }
    for name, metadata_ in lines.items():
        rec.add(f"transform_line_metadata-{name}", _call(metadata.transform_line_metadata, metadata_))
    rec.add(
        "transform_line_metadata-generator",
        outcome(metadata.transform_line_metadata, ({"a": i, "scan_id": 1} for i in range(3))),
    )
    rec.add(
        "transform_line_metadata-failing-generator",
        outcome(metadata.transform_line_metadata, ({"a": 1 // (1 - i)} for i in range(3))),
    )

    # every call creates new objects, and later changes do not leak into the next call
    metadata_ = [{"a": (1, {"units": "m"}), "scan_id": 4}, {"a": (2, {"units": "m"}), "scan_id": 4}]
    first_, second_ = (
        metadata.transform_line_metadata(metadata_),
        metadata.transform_line_metadata(metadata_),
    )
    rec.add(
        "transform_line_metadata-fresh",
        (
            first_ is second_,
            first_.attrs is second_.attrs,
            first_.data is second_.data,
            first_["a"] is second_["a"],
            first_["a"].attrs is metadata_[0]["a"][1],
        ),
    )
    first_.attrs["new"] = 1
    first_.data["b"] = first_["a"]
    rec.add("transform_line_metadata-after-mutation", _call(metadata.transform_line_metadata, metadata_))

    # records parsed from (synthetic) files, through transform_metadata as well
    from ceos_alos2.sar_image.processed_data import processed_data_record
    from ceos_alos2.sar_image.signal_data import signal_data_record

    for kind, record in ((10, signal_data_record), (11, processed_data_record)):
        length = field_offsets(record)[1] + 16
        for n_records in (0, 1, 2, 4):
            content = make_image_file(kind, n_records, length, seed=kind * n_records)
            header, records = io.read_metadata(_stdio.BytesIO(content), 3)
            rec.add(
                f"file-{kind}-{n_records}-lines",
                _call(metadata.transform_line_metadata, copy.deepcopy(records)),
            )
            rec.add(
                f"file-{kind}-{n_records}-transform",
                _call(metadata.transform_metadata, header, records),
            )
            rec.add(
                f"file-{kind}-{n_records}-reversed",
                _call(metadata.transform_line_metadata, records[::-1]),
            )

    rec.add(
        "names",
        sorted(
            name
            for name in (
                "extract_format_type extract_shape extract_attrs apply_overrides deduplicate_attrs"
                " transform_line_metadata dtypes transform_metadata math np keyfilter merge_with"
                " valfilter valmap compose_left curry pipe cons first second apply_to_items dissoc"
                " keysplit as_group remove_spares separate_attrs remove_nesting_layer rename starcall"
            ).split()
            if hasattr(metadata, name)
        ),
    )


# recorded with the UNCHANGED code (python equiv.py --record)
EXPECTED = {'apply_overrides-none': "(('OK', ('dict', [(('str', 'a'), ('tuple', [('str', 'x'), ('list', "
                         "[('int', 1), ('int', 2)]), ('dict', [])])), (('str', 'b'), ('tuple', "
                         "[('str', 'y'), ('list', [('float', '1.0'), ('float', '2.1')]), ('dict', "
                         "[(('str', 'u'), ('int', 1))])])), (('str', 'c'), ('int', 5))])), True)",
 'apply_overrides-a': "(('OK', ('dict', [(('str', 'a'), ('tuple', [('str', 'x'), ('ndarray', "
                      "'int8', (2,), ('list', [('int', 1), ('int', 2)])), ('dict', [])])), "
                      "(('str', 'b'), ('tuple', [('str', 'y'), ('list', [('float', '1.0'), "
                      "('float', '2.1')]), ('dict', [(('str', 'u'), ('int', 1))])])), (('str', "
                      "'c'), ('int', 5))])), True)",
 'apply_overrides-b': "(('OK', ('dict', [(('str', 'a'), ('tuple', [('str', 'x'), ('list', [('int', "
                      "1), ('int', 2)]), ('dict', [])])), (('str', 'b'), ('tuple', [('str', 'y'), "
                      "('ndarray', 'float16', (2,), ('list', [('float', '1.0'), ('float', "
                      "'2.099609375')])), ('dict', [(('str', 'u'), ('int', 1))])])), (('str', "
                      "'c'), ('int', 5))])), True)",
 'apply_overrides-both': "(('OK', ('dict', [(('str', 'a'), ('tuple', [('str', 'x'), ('ndarray', "
                         "'int8', (2,), ('list', [('int', 1), ('int', 2)])), ('dict', [])])), "
                         "(('str', 'b'), ('tuple', [('str', 'y'), ('ndarray', 'float16', (2,), "
                         "('list', [('float', '1.0'), ('float', '2.099609375')])), ('dict', "
                         "[(('str', 'u'), ('int', 1))])])), (('str', 'c'), ('int', 5))])), True)",
 'apply_overrides-absent': "(('OK', ('dict', [(('str', 'a'), ('tuple', [('str', 'x'), ('list', "
                           "[('int', 1), ('int', 2)]), ('dict', [])])), (('str', 'b'), ('tuple', "
                           "[('str', 'y'), ('list', [('float', '1.0'), ('float', '2.1')]), "
                           "('dict', [(('str', 'u'), ('int', 1))])])), (('str', 'c'), ('int', "
                           '5))])), True)',
 'apply_overrides-not-a-variable': "(('EXC', 'builtins.TypeError', 'cannot unpack non-iterable int "
                                   "object', None, None, False), True)",
 'apply_overrides-dtype-object': "(('OK', ('dict', [(('str', 'a'), ('tuple', [('str', 'x'), "
                                 "('ndarray', '>u2', (2,), ('list', [('int', 1), ('int', 2)])), "
                                 "('dict', [])])), (('str', 'b'), ('tuple', [('str', 'y'), "
                                 "('list', [('float', '1.0'), ('float', '2.1')]), ('dict', "
                                 "[(('str', 'u'), ('int', 1))])])), (('str', 'c'), ('int', 5))])), "
                                 'True)',
 'apply_overrides-dtype-type': "(('OK', ('dict', [(('str', 'a'), ('tuple', [('str', 'x'), "
                               "('ndarray', 'float64', (2,), ('list', [('float', '1.0'), ('float', "
                               "'2.0')])), ('dict', [])])), (('str', 'b'), ('tuple', [('str', "
                               "'y'), ('list', [('float', '1.0'), ('float', '2.1')]), ('dict', "
                               "[(('str', 'u'), ('int', 1))])])), (('str', 'c'), ('int', 5))])), "
                               'True)',
 'apply_overrides-dtype-none': "(('OK', ('dict', [(('str', 'a'), ('tuple', [('str', 'x'), "
                               "('ndarray', 'int64', (2,), ('list', [('int', 1), ('int', 2)])), "
                               "('dict', [])])), (('str', 'b'), ('tuple', [('str', 'y'), ('list', "
                               "[('float', '1.0'), ('float', '2.1')]), ('dict', [(('str', 'u'), "
                               "('int', 1))])])), (('str', 'c'), ('int', 5))])), True)",
 'apply_overrides-dtype-invalid': '((\'EXC\', \'builtins.TypeError\', "data type \'foo\' not '
                                  'understood", None, None, False), True)',
 'apply_overrides-dtype-first-invalid': '((\'EXC\', \'builtins.TypeError\', "data type \'foo\' not '
                                        'understood", None, None, False), True)',
 'apply_overrides-datetime-of-int': "(('OK', ('dict', [(('str', 'a'), ('tuple', [('str', 'x'), "
                                    "('ndarray', 'datetime64[ns]', (2,), ('list', [('int', 1), "
                                    "('int', 2)])), ('dict', [])])), (('str', 'b'), ('tuple', "
                                    "[('str', 'y'), ('list', [('float', '1.0'), ('float', "
                                    "'2.1')]), ('dict', [(('str', 'u'), ('int', 1))])])), (('str', "
                                    "'c'), ('int', 5))])), True)",
 'apply_overrides-datetime-of-float': "(('EXC', 'builtins.ValueError', 'Could not convert object "
                                      "to NumPy datetime', None, None, False), True)",
 'apply_overrides-defaultdict': "(('OK', ('dict', [(('str', 'a'), ('tuple', [('str', 'x'), "
                                "('list', [('int', 1), ('int', 2)]), ('dict', [])])), (('str', "
                                "'b'), ('tuple', [('str', 'y'), ('list', [('float', '1.0'), "
                                "('float', '2.1')]), ('dict', [(('str', 'u'), ('int', 1))])])), "
                                "(('str', 'c'), ('int', 5))])), True)",
 'apply_overrides-defaultdict-a': "(('OK', ('dict', [(('str', 'a'), ('tuple', [('str', 'x'), "
                                  "('ndarray', 'float32', (2,), ('list', [('float', '1.0'), "
                                  "('float', '2.0')])), ('dict', [])])), (('str', 'b'), ('tuple', "
                                  "[('str', 'y'), ('list', [('float', '1.0'), ('float', '2.1')]), "
                                  "('dict', [(('str', 'u'), ('int', 1))])])), (('str', 'c'), "
                                  "('int', 5))])), True)",
 'apply_overrides-list': "(('EXC', 'builtins.TypeError', 'list indices must be integers or slices, "
                         "not str', None, None, False), True)",
 'apply_overrides-set': '((\'EXC\', \'builtins.TypeError\', "\'set\' object is not subscriptable", '
                        'None, None, False), True)',
 'apply_overrides-str': '((\'EXC\', \'builtins.TypeError\', "string indices must be integers, not '
                        '\'str\'", None, None, False), True)',
 'apply_overrides-proxy': "(('OK', ('dict', [(('str', 'a'), ('tuple', [('str', 'x'), ('ndarray', "
                          "'int8', (2,), ('list', [('int', 1), ('int', 2)])), ('dict', [])])), "
                          "(('str', 'b'), ('tuple', [('str', 'y'), ('list', [('float', '1.0'), "
                          "('float', '2.1')]), ('dict', [(('str', 'u'), ('int', 1))])])), (('str', "
                          "'c'), ('int', 5))])), True)",
 'apply_overrides-none-given': '((\'EXC\', \'builtins.TypeError\', "argument of type \'NoneType\' '
                               'is not iterable", None, None, False), True)',
 'apply_overrides-empty-none': "(('OK', ('dict', [])), True)",
 'apply_overrides-mapping-empty-int8': "(('OK', ('dict', [])), True)",
 'apply_overrides-mapping-empty-datetime64[ns]': "(('OK', ('dict', [])), True)",
 'apply_overrides-mapping-two-tuple-int8': "(('EXC', 'builtins.ValueError', 'not enough values to "
                                           "unpack (expected 3, got 2)', None, None, False), True)",
 'apply_overrides-mapping-two-tuple-datetime64[ns]': "(('EXC', 'builtins.ValueError', 'not enough "
                                                     "values to unpack (expected 3, got 2)', None, "
                                                     'None, False), True)',
 'apply_overrides-mapping-four-tuple-int8': "(('EXC', 'builtins.ValueError', 'too many values to "
                                            "unpack (expected 3)', None, None, False), True)",
 'apply_overrides-mapping-four-tuple-datetime64[ns]': "(('EXC', 'builtins.ValueError', 'too many "
                                                      "values to unpack (expected 3)', None, None, "
                                                      'False), True)',
 'apply_overrides-mapping-list-value-int8': "(('OK', ('dict', [(('str', 'a'), ('tuple', [('str', "
                                            "'x'), ('ndarray', 'int8', (2,), ('list', [('int', 1), "
                                            "('int', 2)])), ('dict', [(('str', 'k'), ('int', "
                                            '1))])]))])), True)',
 'apply_overrides-mapping-list-value-datetime64[ns]': "(('OK', ('dict', [(('str', 'a'), ('tuple', "
                                                      "[('str', 'x'), ('ndarray', "
                                                      "'datetime64[ns]', (2,), ('list', [('int', "
                                                      "1), ('int', 2)])), ('dict', [(('str', 'k'), "
                                                      "('int', 1))])]))])), True)",
 'apply_overrides-mapping-generator-like-int8': '((\'EXC\', \'builtins.ValueError\', "invalid '
                                                'literal for int() with base 10: \'y\'", None, '
                                                'None, False), True)',
 'apply_overrides-mapping-generator-like-datetime64[ns]': "(('EXC', 'builtins.ValueError', 'Error "
                                                          'parsing datetime string "y" at position '
                                                          "0', None, None, False), True)",
 'apply_overrides-mapping-int-int8': "(('EXC', 'builtins.TypeError', 'cannot unpack non-iterable "
                                     "int object', None, None, False), True)",
 'apply_overrides-mapping-int-datetime64[ns]': "(('EXC', 'builtins.TypeError', 'cannot unpack "
                                               "non-iterable int object', None, None, False), "
                                               'True)',
 'apply_overrides-mapping-none-int8': "(('EXC', 'builtins.TypeError', 'cannot unpack non-iterable "
                                      "NoneType object', None, None, False), True)",
 'apply_overrides-mapping-none-datetime64[ns]': "(('EXC', 'builtins.TypeError', 'cannot unpack "
                                                "non-iterable NoneType object', None, None, "
                                                'False), True)',
 'apply_overrides-mapping-later-fails-int8': "(('EXC', 'builtins.TypeError', 'cannot unpack "
                                             "non-iterable int object', None, None, False), True)",
 'apply_overrides-mapping-later-fails-datetime64[ns]': "(('EXC', 'builtins.TypeError', 'cannot "
                                                       "unpack non-iterable int object', None, "
                                                       'None, False), True)',
 'apply_overrides-mapping-ragged-int8': "(('EXC', 'builtins.ValueError', 'setting an array element "
                                        'with a sequence. The requested array has an inhomogeneous '
                                        'shape after 1 dimensions. The detected shape was (2,) + '
                                        "inhomogeneous part.', None, None, False), True)",
 'apply_overrides-mapping-ragged-datetime64[ns]': "(('EXC', 'builtins.ValueError', 'setting an "
                                                  'array element with a sequence. The requested '
                                                  'array has an inhomogeneous shape after 1 '
                                                  'dimensions. The detected shape was (2,) + '
                                                  "inhomogeneous part.', None, None, False), True)",
 'apply_overrides-mapping-strings-int8': "(('OK', ('dict', [(('str', 'a'), ('tuple', [('str', "
                                         "'x'), ('ndarray', 'int8', (2,), ('list', [('int', 1), "
                                         "('int', 2)])), ('dict', [])]))])), True)",
 'apply_overrides-mapping-strings-datetime64[ns]': "(('OK', ('dict', [(('str', 'a'), ('tuple', "
                                                   "[('str', 'x'), ('ndarray', 'datetime64[ns]', "
                                                   "(2,), ('list', [('int', -6795364578871345152), "
                                                   "('int', -6763828578871345152)])), ('dict', "
                                                   '[])]))])), True)',
 'apply_overrides-mapping-dates-int8': '((\'EXC\', \'builtins.TypeError\', "int() argument must be '
                                       'a string, a bytes-like object or a real number, not '
                                       '\'datetime.datetime\'", None, None, False), True)',
 'apply_overrides-mapping-dates-datetime64[ns]': "(('OK', ('dict', [(('str', 'a'), ('tuple', "
                                                 "[('str', 'x'), ('ndarray', 'datetime64[ns]', "
                                                 "(2,), ('list', [('int', 1601555862451000000), "
                                                 "('int', 1601642262451001000)])), ('dict', "
                                                 '[])]))])), True)',
 'apply_overrides-mapping-array-int8': "(('OK', ('dict', [(('str', 'a'), ('tuple', [('str', 'x'), "
                                       "('ndarray', 'int8', (2,), ('list', [('int', 1), ('int', "
                                       "2)])), ('dict', [])]))])), True)",
 'apply_overrides-mapping-array-datetime64[ns]': "(('OK', ('dict', [(('str', 'a'), ('tuple', "
                                                 "[('str', 'x'), ('ndarray', 'datetime64[ns]', "
                                                 "(2,), ('list', [('int', 1), ('int', 2)])), "
                                                 "('dict', [])]))])), True)",
 'apply_overrides-mapping-scalar-int8': "(('OK', ('dict', [(('str', 'a'), ('tuple', [('tuple', "
                                        "[]), ('ndarray', 'int8', (), ('int', 7)), ('dict', "
                                        '[])]))])), True)',
 'apply_overrides-mapping-scalar-datetime64[ns]': "(('OK', ('dict', [(('str', 'a'), ('tuple', "
                                                  "[('tuple', []), ('ndarray', 'datetime64[ns]', "
                                                  "(), ('int', 7)), ('dict', [])]))])), True)",
 'apply_overrides-mapping-nested-int8': "(('OK', ('dict', [(('str', 'a'), ('tuple', [('list', "
                                        "[('str', 'x'), ('str', 'y')]), ('ndarray', 'int8', (2, "
                                        "2), ('list', [('list', [('int', 1), ('int', 2)]), "
                                        "('list', [('int', 3), ('int', 4)])])), ('dict', [(('str', "
                                        "'k'), ('list', [('int', 1)]))])]))])), True)",
 'apply_overrides-mapping-nested-datetime64[ns]': "(('OK', ('dict', [(('str', 'a'), ('tuple', "
                                                  "[('list', [('str', 'x'), ('str', 'y')]), "
                                                  "('ndarray', 'datetime64[ns]', (2, 2), ('list', "
                                                  "[('list', [('int', 1), ('int', 2)]), ('list', "
                                                  "[('int', 3), ('int', 4)])])), ('dict', "
                                                  "[(('str', 'k'), ('list', [('int', "
                                                  '1)]))])]))])), True)',
 'apply_overrides-mapping-order-int8': "(('OK', ('dict', [(('str', 'z'), ('int', 1)), (('str', "
                                       "'a'), ('tuple', [('str', 'x'), ('ndarray', 'int8', (1,), "
                                       "('list', [('int', 1)])), ('dict', [])])), (('str', 'm'), "
                                       "('int', 2))])), True)",
 'apply_overrides-mapping-order-datetime64[ns]': "(('OK', ('dict', [(('str', 'z'), ('int', 1)), "
                                                 "(('str', 'a'), ('tuple', [('str', 'x'), "
                                                 "('ndarray', 'datetime64[ns]', (1,), ('list', "
                                                 "[('int', 1)])), ('dict', [])])), (('str', 'm'), "
                                                 "('int', 2))])), True)",
 'apply_overrides-items-only': "(('OK', ('dict', [(('str', 'a'), ('tuple', [('str', 'y'), "
                               "('ndarray', 'int8', (1,), ('list', [('int', 3)])), ('dict', "
                               "[])])), (('str', 'b'), ('int', 2))])), True)",
 'apply_overrides-invalid-None': '((\'EXC\', \'builtins.AttributeError\', "\'NoneType\' object has '
                                 'no attribute \'items\'", None, None, False), True)',
 'apply_overrides-invalid-5': '((\'EXC\', \'builtins.AttributeError\', "\'int\' object has no '
                              'attribute \'items\'", None, None, False), True)',
 "apply_overrides-invalid-[('a', 1)]": '((\'EXC\', \'builtins.AttributeError\', "\'list\' object '
                                       'has no attribute \'items\'", None, None, False), True)',
 "apply_overrides-invalid-'ab'": '((\'EXC\', \'builtins.AttributeError\', "\'str\' object has no '
                                 'attribute \'items\'", None, None, False), True)',
 'apply_overrides-identity': "('dict', False, True, True, True, 'tuple')",
 'deduplicate_attrs-b': "(('OK', ('dict', [(('str', 'a'), ('int', 1)), (('str', 'c'), ('tuple', "
                        "[('str', 'y'), ('list', [('int', 2), ('int', 3)]), ('dict', [(('str', "
                        "'u'), ('str', 'm'))])])), (('str', 'b'), ('int', 1))])), True)",
 'deduplicate_attrs-c': "(('OK', ('dict', [(('str', 'a'), ('int', 1)), (('str', 'b'), ('tuple', "
                        "[('str', 'x'), ('list', [('int', 1), ('int', 1)]), ('dict', [])])), "
                        "(('str', 'c'), ('int', 2))])), True)",
 'deduplicate_attrs-bc': "(('OK', ('dict', [(('str', 'a'), ('int', 1)), (('str', 'b'), ('int', "
                         "1)), (('str', 'c'), ('int', 2))])), True)",
 'deduplicate_attrs-cb': "(('OK', ('dict', [(('str', 'a'), ('int', 1)), (('str', 'b'), ('int', "
                         "1)), (('str', 'c'), ('int', 2))])), True)",
 'deduplicate_attrs-none': "(('OK', ('dict', [(('str', 'a'), ('int', 1)), (('str', 'b'), ('tuple', "
                           "[('str', 'x'), ('list', [('int', 1), ('int', 1)]), ('dict', [])])), "
                           "(('str', 'c'), ('tuple', [('str', 'y'), ('list', [('int', 2), ('int', "
                           "3)]), ('dict', [(('str', 'u'), ('str', 'm'))])]))])), True)",
 'deduplicate_attrs-set': "(('OK', ('dict', [(('str', 'a'), ('int', 1)), (('str', 'b'), ('int', "
                          "1)), (('str', 'c'), ('int', 2))])), True)",
 'deduplicate_attrs-frozenset': "(('OK', ('dict', [(('str', 'a'), ('int', 1)), (('str', 'b'), "
                                "('tuple', [('str', 'x'), ('list', [('int', 1), ('int', 1)]), "
                                "('dict', [])])), (('str', 'c'), ('int', 2))])), True)",
 'deduplicate_attrs-tuple': "(('OK', ('dict', [(('str', 'a'), ('int', 1)), (('str', 'c'), "
                            "('tuple', [('str', 'y'), ('list', [('int', 2), ('int', 3)]), ('dict', "
                            "[(('str', 'u'), ('str', 'm'))])])), (('str', 'b'), ('int', 1))])), "
                            'True)',
 'deduplicate_attrs-dict': "(('OK', ('dict', [(('str', 'a'), ('int', 1)), (('str', 'b'), ('tuple', "
                           "[('str', 'x'), ('list', [('int', 1), ('int', 1)]), ('dict', [])])), "
                           "(('str', 'c'), ('int', 2))])), True)",
 'deduplicate_attrs-str': '((\'EXC\', \'builtins.TypeError\', "\'int\' object is not iterable", '
                          'None, None, False), True)',
 'deduplicate_attrs-absent': "(('OK', ('dict', [(('str', 'a'), ('int', 1)), (('str', 'b'), "
                             "('tuple', [('str', 'x'), ('list', [('int', 1), ('int', 1)]), "
                             "('dict', [])])), (('str', 'c'), ('tuple', [('str', 'y'), ('list', "
                             "[('int', 2), ('int', 3)]), ('dict', [(('str', 'u'), ('str', "
                             "'m'))])]))])), True)",
 'deduplicate_attrs-not-a-variable': '((\'EXC\', \'builtins.TypeError\', "\'int\' object is not '
                                     'iterable", None, None, False), True)',
 'deduplicate_attrs-known-none': '((\'EXC\', \'builtins.TypeError\', "argument of type '
                                 '\'NoneType\' is not iterable", None, None, False), True)',
 'deduplicate_attrs-known-int': '((\'EXC\', \'builtins.TypeError\', "argument of type \'int\' is '
                                'not iterable", None, None, False), True)',
 'deduplicate_attrs-known-none-empty': "(('OK', ('dict', [])), True)",
 'deduplicate_attrs-mapping-empty': "(('OK', ('dict', [])), True)",
 'deduplicate_attrs-mapping-only-known': "(('OK', ('dict', [(('str', 'k1'), ('int', 1)), (('str', "
                                         "'k2'), ('int', 2))])), True)",
 'deduplicate_attrs-mapping-order': "(('OK', ('dict', [(('str', 'v1'), ('int', 1)), (('str', "
                                    "'v2'), ('int', 2)), (('str', 'v3'), ('int', 3)), (('str', "
                                    "'k2'), ('int', 2)), (('str', 'k1'), ('int', 1))])), True)",
 'deduplicate_attrs-mapping-no-values': "(('OK', ('dict', [])), True)",
 'deduplicate_attrs-mapping-no-values-later': "(('OK', ('dict', [(('str', 'k1'), ('int', 1))])), "
                                              'True)',
 'deduplicate_attrs-mapping-one-tuple': "(('OK', ('dict', [(('str', 'k1'), ('int', 1))])), True)",
 'deduplicate_attrs-mapping-empty-tuple': "(('OK', ('dict', [])), True)",
 'deduplicate_attrs-mapping-str-value': "(('OK', ('dict', [(('str', 'k1'), ('str', 'b')), (('str', "
                                        "'k2'), ('str', 'b'))])), True)",
 'deduplicate_attrs-mapping-str-values': "(('OK', ('dict', [(('str', 'k1'), ('str', 'h'))])), "
                                         'True)',
 'deduplicate_attrs-mapping-int-value': '((\'EXC\', \'builtins.TypeError\', "\'int\' object is not '
                                        'iterable", None, None, False), True)',
 'deduplicate_attrs-mapping-int-values': '((\'EXC\', \'builtins.TypeError\', "\'int\' object is '
                                         'not iterable", None, None, False), True)',
 'deduplicate_attrs-mapping-none-value': '((\'EXC\', \'builtins.TypeError\', "\'NoneType\' object '
                                         'is not iterable", None, None, False), True)',
 'deduplicate_attrs-mapping-list-value': "(('OK', ('dict', [(('str', 'k1'), ('int', 7))])), True)",
 'deduplicate_attrs-mapping-dict-values': "(('OK', ('dict', [(('str', 'k1'), ('str', 'p'))])), "
                                          'True)',
 'deduplicate_attrs-mapping-nested-values': "(('OK', ('dict', [(('str', 'k1'), ('list', [('int', "
                                            "1), ('int', 2)]))])), True)",
 'deduplicate_attrs-mapping-array-values': "(('OK', ('dict', [(('str', 'k1'), ('npscalar', "
                                           "'int64', ('int', 4)))])), True)",
 'deduplicate_attrs-mapping-iterator-value': "(('OK', ('dict', [(('str', 'k1'), ('int', 9))])), "
                                             'True)',
 'deduplicate_attrs-mapping-non-str-keys': "(('OK', ('dict', [(('int', 1), ('tuple', [('str', "
                                           "'x'), ('list', [('int', 1)]), ('dict', [])])), (None, "
                                           "('int', 3)), (('str', 'k1'), ('int', 2))])), True)",
 'deduplicate_attrs-items-only': "(('OK', ('dict', [(('str', 'v'), ('int', 4)), (('str', 'k1'), "
                                 "('int', 3))])), True)",
 'deduplicate_attrs-invalid-None': '((\'EXC\', \'builtins.AttributeError\', "\'NoneType\' object '
                                   'has no attribute \'items\'", None, None, False), True)',
 'deduplicate_attrs-invalid-5': '((\'EXC\', \'builtins.AttributeError\', "\'int\' object has no '
                                'attribute \'items\'", None, None, False), True)',
 "deduplicate_attrs-invalid-[('k1', 1)]": '((\'EXC\', \'builtins.AttributeError\', "\'list\' '
                                          'object has no attribute \'items\'", None, None, False), '
                                          'True)',
 "deduplicate_attrs-invalid-'ab'": '((\'EXC\', \'builtins.AttributeError\', "\'str\' object has no '
                                   'attribute \'items\'", None, None, False), True)',
 'deduplicate_attrs-identity': "('dict', False, True, True)",
 'transform_line_metadata-suite-ignored': "(('OK', ('Group', '/', None, [], ('dict', []))), True)",
 'transform_line_metadata-suite-variables': "(('OK', ('Group', '/', None, [('a', ('Variable', "
                                            "('list', [('str', 'rows')]), ('list', [('int', 1), "
                                            "('int', 2)]), ('dict', [(('str', 'units'), ('str', "
                                            "'m'))])))], ('dict', []))), True)",
 'transform_line_metadata-suite-deduplicated': "(('OK', ('Group', '/', None, [], ('dict', "
                                               "[(('str', 'scan_id'), ('int', 1))]))), True)",
 'transform_line_metadata-suite-dtypes': "(('OK', ('Group', '/', None, "
                                         "[('sensor_acquisition_date', ('Variable', ('list', "
                                         "[('str', 'rows')]), ('ndarray', 'datetime64[ns]', (2,), "
                                         "('list', [('int', 1601555862451000000), ('int', "
                                         "1601642262451001000)])), ('dict', [])))], ('dict', "
                                         '[]))), True)',
 'transform_line_metadata-suite-renamed': "(('OK', ('Group', '/', None, [('rows', ('Variable', "
                                          "('list', [('str', 'rows')]), ('list', [('int', 1), "
                                          "('int', 2)]), ('dict', [])))], ('dict', []))), True)",
 'transform_line_metadata-no-lines': "(('OK', ('Group', '/', None, [], ('dict', []))), True)",
 'transform_line_metadata-no-lines-tuple': "(('OK', ('Group', '/', None, [], ('dict', []))), True)",
 'transform_line_metadata-one-line': "(('OK', ('Group', '/', None, [('a', ('Variable', ('list', "
                                     "[('str', 'rows')]), ('list', [('int', 1)]), ('dict', []))), "
                                     "('rows', ('Variable', ('list', [('str', 'rows')]), ('list', "
                                     "[('int', 7)]), ('dict', [])))], ('dict', [(('str', "
                                     "'scan_id'), ('int', 3))]))), True)",
 'transform_line_metadata-one-empty-line': "(('OK', ('Group', '/', None, [], ('dict', []))), True)",
 'transform_line_metadata-empty-lines': "(('OK', ('Group', '/', None, [], ('dict', []))), True)",
 'transform_line_metadata-lines-in-tuple': "(('OK', ('Group', '/', None, [('a', ('Variable', "
                                           "('list', [('str', 'rows')]), ('list', [('int', 1), "
                                           "('int', 2)]), ('dict', [])))], ('dict', []))), True)",
 'transform_line_metadata-lines-in-list-in-list': "(('OK', ('Group', '/', None, [('a', "
                                                  "('Variable', ('list', [('str', 'rows')]), "
                                                  "('list', [('int', 1), ('int', 2)]), ('dict', "
                                                  "[])))], ('dict', []))), True)",
 'transform_line_metadata-lines-in-tuple-in-list': "(('OK', ('Group', '/', None, [('a', "
                                                   "('Variable', ('list', [('str', 'rows')]), "
                                                   "('list', [('int', 1), ('int', 2)]), ('dict', "
                                                   "[])))], ('dict', []))), True)",
 'transform_line_metadata-lines-in-dict': '((\'EXC\', \'builtins.AttributeError\', "\'str\' object '
                                          'has no attribute \'items\'", None, None, False), True)',
 'transform_line_metadata-containers': "(('OK', ('Group', '/', None, [('a', ('Variable', ('list', "
                                       "[('str', 'rows')]), ('list', [('int', 1), ('int', 3)]), "
                                       "('dict', [])))], ('dict', [(('str', 'scan_id'), ('int', "
                                       '2))]))), True)',
 'transform_line_metadata-int-line': '((\'EXC\', \'builtins.AttributeError\', "\'curry\' object '
                                     'has no attribute \'items\'", None, None, False), True)',
 'transform_line_metadata-none-line': '((\'EXC\', \'builtins.AttributeError\', "\'curry\' object '
                                      'has no attribute \'items\'", None, None, False), True)',
 'transform_line_metadata-str-line': '((\'EXC\', \'builtins.AttributeError\', "\'str\' object has '
                                     'no attribute \'items\'", None, None, False), True)',
 'transform_line_metadata-empty-str-line': "(('OK', ('Group', '/', None, [], ('dict', []))), True)",
 'transform_line_metadata-int-lines': '((\'EXC\', \'builtins.AttributeError\', "\'int\' object has '
                                      'no attribute \'items\'", None, None, False), True)',
 'transform_line_metadata-mixed-lines': '((\'EXC\', \'builtins.AttributeError\', "\'int\' object '
                                        'has no attribute \'items\'", None, None, False), True)',
 'transform_line_metadata-mixed-lines-first': '((\'EXC\', \'builtins.AttributeError\', "\'int\' '
                                              'object has no attribute \'items\'", None, None, '
                                              'False), True)',
 'transform_line_metadata-none': "(('EXC', 'builtins.TypeError', 'toolz.dicttoolz.merge_with() "
                                 "argument after * must be an iterable, not NoneType', None, None, "
                                 'False), True)',
 'transform_line_metadata-int': "(('EXC', 'builtins.TypeError', 'toolz.dicttoolz.merge_with() "
                                "argument after * must be an iterable, not int', None, None, "
                                'False), True)',
 'transform_line_metadata-str': '((\'EXC\', \'builtins.AttributeError\', "\'str\' object has no '
                                'attribute \'items\'", None, None, False), True)',
 'transform_line_metadata-empty-str': "(('OK', ('Group', '/', None, [], ('dict', []))), True)",
 'transform_line_metadata-lists-of-lines': '((\'EXC\', \'builtins.AttributeError\', "\'list\' '
                                           'object has no attribute \'items\'", None, None, '
                                           'False), True)',
 'transform_line_metadata-pairs': '((\'EXC\', \'builtins.AttributeError\', "\'list\' object has no '
                                  'attribute \'items\'", None, None, False), True)',
 'transform_line_metadata-ragged': "(('OK', ('Group', '/', None, [('a', ('Variable', ('list', "
                                   "[('str', 'rows')]), ('list', [('int', 1), ('int', 3)]), "
                                   "('dict', []))), ('b', ('Variable', ('list', [('str', "
                                   "'rows')]), ('list', [('int', 1), ('int', 2)]), ('dict', []))), "
                                   "('c', ('Variable', ('list', [('str', 'rows')]), ('list', "
                                   "[('int', 2), ('int', 3)]), ('dict', [])))], ('dict', []))), "
                                   'True)',
 'transform_line_metadata-attrs-differ': "(('OK', ('Group', '/', None, [], ('dict', [(('str', "
                                         "'scan_id'), ('int', 1)), (('str', 'sar_channel_id'), "
                                         "('str', 'x'))]))), True)",
 'transform_line_metadata-attrs-with-metadata': "(('OK', ('Group', '/', None, [], ('dict', "
                                                "[(('str', 'scan_id'), ('int', 1))]))), True)",
 'transform_line_metadata-attrs-ragged': "(('OK', ('Group', '/', None, [('a', ('Variable', "
                                         "('list', [('str', 'rows')]), ('list', [('int', 1), "
                                         "('int', 2)]), ('dict', [])))], ('dict', [(('str', "
                                         "'scan_id'), ('int', 9))]))), True)",
 'transform_line_metadata-all-known-attrs': 'sha256:29ff32e9cd811777dd7bfb3e38604a429a2ae53dfbabb353bccbf9fad1ed333d '
                                            "length:689 start:(('OK', ('Group', '/', None, [], "
                                            "('dict', [(('str', 'sar_image_data_record_index'), "
                                            "('int', 1)), (('str', "
                                            "'sensor_parameters_update_flag'), ('int', 2)), "
                                            "(('str'",
 'transform_line_metadata-metadata-differs': "(('OK', ('Group', '/', None, [('a', ('Variable', "
                                             "('list', [('str', 'rows')]), ('list', [('int', 1), "
                                             "('int', 2)]), ('dict', [(('str', 'units'), ('str', "
                                             "'m'))])))], ('dict', []))), True)",
 'transform_line_metadata-metadata-partially': '((\'EXC\', \'builtins.TypeError\', "\'int\' object '
                                               'is not iterable", None, None, False), True)',
 'transform_line_metadata-metadata-partially-first': "(('OK', ('Group', '/', None, [('a', "
                                                     "('Variable', ('list', [('str', 'rows')]), "
                                                     "('list', [('int', 1), ('tuple', [('int', 2), "
                                                     "('dict', [(('str', 'units'), ('str', "
                                                     "'m'))])])]), ('dict', [])))], ('dict', "
                                                     '[]))), True)',
 'transform_line_metadata-metadata-long-tuples': "(('EXC', 'builtins.ValueError', 'too many values "
                                                 "to unpack (expected 2)', None, None, False), "
                                                 'True)',
 'transform_line_metadata-metadata-short-tuples': "(('EXC', 'builtins.ValueError', 'not enough "
                                                  "values to unpack (expected 2, got 1)', None, "
                                                  'None, False), True)',
 'transform_line_metadata-metadata-empty-tuples': "(('EXC', 'builtins.ValueError', 'not enough "
                                                  "values to unpack (expected 2, got 0)', None, "
                                                  'None, False), True)',
 'transform_line_metadata-metadata-ragged-tuples': "(('EXC', 'builtins.ValueError', 'not enough "
                                                   "values to unpack (expected 2, got 1)', None, "
                                                   'None, False), True)',
 'transform_line_metadata-metadata-not-dict': "(('OK', ('Group', '/', None, [('a', ('Variable', "
                                              "('list', [('str', 'rows')]), ('list', [('int', 1), "
                                              "('int', 2)]), ('str', 'm')))], ('dict', []))), "
                                              'True)',
 'transform_line_metadata-tuple-then-int': '((\'EXC\', \'builtins.TypeError\', "\'int\' object is '
                                           'not iterable", None, None, False), True)',
 'transform_line_metadata-nested': "(('OK', ('Group', '/', None, [('s', ('Variable', ('list', "
                                   "[('str', 'rows')]), ('list', [('dict', [(('str', 'x'), ('int', "
                                   "1))]), ('dict', [(('str', 'x'), ('int', 3))])]), ('dict', "
                                   "[])))], ('dict', []))), True)",
 'transform_line_metadata-nested-metadata': "(('OK', ('Group', '/', None, [('s', ('Variable', "
                                            "('list', [('str', 'rows')]), ('list', [('dict', "
                                            "[(('str', 'x'), ('tuple', [('int', 1), ('dict', "
                                            "[(('str', 'units'), ('str', 'm'))])]))]), ('dict', "
                                            "[(('str', 'x'), ('tuple', [('int', 2), ('dict', "
                                            "[(('str', 'units'), ('str', 'm'))])]))])]), ('dict', "
                                            "[]))), ('t', ('Variable', ('list', [('str', "
                                            "'rows')]), ('list', [('list', [('int', 1), ('int', "
                                            "2)]), ('list', [('int', 3)])]), ('dict', [])))], "
                                            "('dict', []))), True)",
 'transform_line_metadata-spares': "(('OK', ('Group', '/', None, [('spare_x', ('Variable', "
                                   "('list', [('str', 'rows')]), ('list', [('int', 5), ('int', "
                                   "8)]), ('dict', []))), ('blanksy', ('Variable', ('list', "
                                   "[('str', 'rows')]), ('list', [('int', 6), ('int', 9)]), "
                                   "('dict', []))), ('a', ('Variable', ('list', [('str', "
                                   "'rows')]), ('list', [('int', 7), ('int', 0)]), ('dict', "
                                   "[])))], ('dict', []))), True)",
 'transform_line_metadata-dates-us': "(('OK', ('Group', '/', None, "
                                     "[('sensor_acquisition_date_microseconds', ('Variable', "
                                     "('list', [('str', 'rows')]), ('ndarray', 'datetime64[ns]', "
                                     "(2,), ('list', [('int', 1601555862451000000), ('int', "
                                     "1601642262451001000)])), ('dict', []))), "
                                     "('sensor_acquisition_date', ('Variable', ('list', [('str', "
                                     "'rows')]), ('ndarray', 'datetime64[ns]', (2,), ('list', "
                                     "[('int', 1601555862451000000), ('int', "
                                     "1601642262451001000)])), ('dict', [])))], ('dict', []))), "
                                     'True)',
 'transform_line_metadata-dates-ragged': "(('OK', ('Group', '/', None, "
                                         "[('sensor_acquisition_date', ('Variable', ('list', "
                                         "[('str', 'rows')]), ('ndarray', 'datetime64[ns]', (1,), "
                                         "('list', [('int', 1601555862451000000)])), ('dict', "
                                         "[]))), ('a', ('Variable', ('list', [('str', 'rows')]), "
                                         "('list', [('int', 1)]), ('dict', [])))], ('dict', []))), "
                                         'True)',
 'transform_line_metadata-dates-numbers': "(('OK', ('Group', '/', None, "
                                          "[('sensor_acquisition_date', ('Variable', ('list', "
                                          "[('str', 'rows')]), ('ndarray', 'datetime64[ns]', (2,), "
                                          "('list', [('int', 1), ('int', 2)])), ('dict', [])))], "
                                          "('dict', []))), True)",
 'transform_line_metadata-dates-strings': "(('EXC', 'builtins.ValueError', 'Error parsing datetime "
                                          'string "x" at position 0\', None, None, False), True)',
 'transform_line_metadata-dates-none': "(('OK', ('Group', '/', None, [('sensor_acquisition_date', "
                                       "('Variable', ('list', [('str', 'rows')]), ('ndarray', "
                                       "'datetime64[ns]', (2,), ('list', [None, ('int', "
                                       "1601555862451000000)])), ('dict', [])))], ('dict', []))), "
                                       'True)',
 'transform_line_metadata-dates-with-metadata': "(('OK', ('Group', '/', None, "
                                                "[('sensor_acquisition_date', ('Variable', "
                                                "('list', [('str', 'rows')]), ('ndarray', "
                                                "'datetime64[ns]', (2,), ('list', [('int', "
                                                "1601555862451000000), ('int', "
                                                "1601642262451001000)])), ('dict', [(('str', 'a'), "
                                                "('int', 1))])))], ('dict', []))), True)",
 'transform_line_metadata-dates-nested': "(('EXC', 'builtins.ValueError', 'Could not convert "
                                         "object to NumPy datetime', None, None, False), True)",
 'transform_line_metadata-rows-clash': "(('OK', ('Group', '/', None, [('rows', ('Variable', "
                                       "('list', [('str', 'rows')]), ('list', [('int', 10), "
                                       "('int', 20)]), ('dict', [])))], ('dict', []))), True)",
 'transform_line_metadata-rows-clash-reversed': "(('OK', ('Group', '/', None, [('rows', "
                                                "('Variable', ('list', [('str', 'rows')]), "
                                                "('list', [('int', 1), ('int', 2)]), ('dict', "
                                                "[])))], ('dict', []))), True)",
 'transform_line_metadata-values-none': "(('OK', ('Group', '/', None, [('a', ('Variable', ('list', "
                                        "[('str', 'rows')]), ('list', [None, None]), ('dict', "
                                        "[])))], ('dict', []))), True)",
 'transform_line_metadata-values-lists': "(('OK', ('Group', '/', None, [('a', ('Variable', "
                                         "('list', [('str', 'rows')]), ('list', [('list', [('int', "
                                         "1), ('int', 2)]), ('list', [('int', 3), ('int', 4)])]), "
                                         "('dict', [])))], ('dict', []))), True)",
 'transform_line_metadata-values-dicts-of-lists': "(('OK', ('Group', '/', None, [('a', "
                                                  "('Variable', ('list', [('str', 'rows')]), "
                                                  "('list', [('dict', [(('str', 'b'), ('list', "
                                                  "[('int', 1), ('int', 2)]))]), ('dict', "
                                                  "[(('str', 'b'), ('list', [('int', 3)]))])]), "
                                                  "('dict', [])))], ('dict', []))), True)",
 'transform_line_metadata-values-bytes': "(('OK', ('Group', '/', None, [('a', ('Variable', "
                                         "('list', [('str', 'rows')]), ('list', [('bytes', b'x'), "
                                         "('bytes', b'')]), ('dict', [])))], ('dict', []))), True)",
 'transform_line_metadata-keys-not-str': '((\'EXC\', \'builtins.AttributeError\', "\'int\' object '
                                         'has no attribute \'startswith\'", None, None, False), '
                                         'True)',
 'transform_line_metadata-ignored-only-later': "(('OK', ('Group', '/', None, [('a', ('Variable', "
                                               "('list', [('str', 'rows')]), ('list', [('int', 1), "
                                               "('int', 2)]), ('dict', [])))], ('dict', []))), "
                                               'True)',
 'transform_line_metadata-generator': "('OK', ('Group', '/', None, [('a', ('Variable', ('list', "
                                      "[('str', 'rows')]), ('list', [('int', 0), ('int', 1), "
                                      "('int', 2)]), ('dict', [])))], ('dict', [(('str', "
                                      "'scan_id'), ('int', 1))])))",
 'transform_line_metadata-failing-generator': "('EXC', 'builtins.ZeroDivisionError', 'integer "
                                              "division or modulo by zero', None, None, False)",
 'transform_line_metadata-fresh': '(False, False, False, False, True)',
 'transform_line_metadata-after-mutation': "(('OK', ('Group', '/', None, [('a', ('Variable', "
                                           "('list', [('str', 'rows')]), ('list', [('int', 1), "
                                           "('int', 2)]), ('dict', [(('str', 'units'), ('str', "
                                           "'m'))])))], ('dict', [(('str', 'scan_id'), ('int', "
                                           '4))]))), True)',
 'file-10-0-lines': "(('OK', ('Group', '/', None, [], ('dict', []))), True)",
 'file-10-0-transform': "(('OK', ('tuple', [('Group', '/', None, [], ('dict', [(('str', "
                        "'interleaving_id'), ('str', 'BSQ')), (('str', 'coordinates'), ('list', "
                        "[]))])), ('dict', [(('str', 'type_code'), ('str', 'C*8')), (('str', "
                        "'shape'), ('tuple', [('int', 0), ('int', 4)])), (('str', 'dtype'), "
                        "('str', 'complex64')), (('str', 'byte_ranges'), ('list', []))])])), True)",
 'file-10-0-reversed': "(('OK', ('Group', '/', None, [], ('dict', []))), True)",
 'file-10-1-lines': 'sha256:2799faaf2cef8f354b64833a1daa54b55963d16777145570088e5dd42fcf2088 '
                    "length:6048 start:(('OK', ('Group', '/', None, [('rows', ('Variable', "
                    "('list', [('str', 'rows')]), ('list', [('int', 0)]), ('dict', []))), "
                    "('sensor_acquisition_date', ('Variable'",
 'file-10-1-transform': 'sha256:cd37b9c845e07a0cd2f61e640c6860c5167e812a9f1b7c5f3d8ba8bac2d4f907 '
                        "length:7430 start:(('OK', ('tuple', [('Group', '/', None, [('rows', "
                        "('Variable', ('list', [('str', 'rows')]), ('list', [('int', 0)]), "
                        "('dict', []))), ('sensor_acquisition_date', ",
 'file-10-1-reversed': 'sha256:2799faaf2cef8f354b64833a1daa54b55963d16777145570088e5dd42fcf2088 '
                       "length:6048 start:(('OK', ('Group', '/', None, [('rows', ('Variable', "
                       "('list', [('str', 'rows')]), ('list', [('int', 0)]), ('dict', []))), "
                       "('sensor_acquisition_date', ('Variable'",
 'file-10-2-lines': 'sha256:95b6f3a073d7b90ea78634a4c787164d7c87d28cbef52c37fb936b878f811da3 '
                    "length:7755 start:(('OK', ('Group', '/', None, [('rows', ('Variable', "
                    "('list', [('str', 'rows')]), ('list', [('int', 0), ('int', 1)]), ('dict', "
                    "[]))), ('sensor_acquisition_date',",
 'file-10-2-transform': 'sha256:79500d1866295d131b916d1473c11c9dfe6ccf4a5b01c11ba0837abda1214fa3 '
                        "length:9180 start:(('OK', ('tuple', [('Group', '/', None, [('rows', "
                        "('Variable', ('list', [('str', 'rows')]), ('list', [('int', 0), ('int', "
                        "1)]), ('dict', []))), ('sensor_acquisi",
 'file-10-2-reversed': 'sha256:f1f5dad9bd4f0385253efe1ec1d14c51a980747844997b1bdd6d2e3feb60d94d '
                       "length:7755 start:(('OK', ('Group', '/', None, [('rows', ('Variable', "
                       "('list', [('str', 'rows')]), ('list', [('int', 1), ('int', 0)]), ('dict', "
                       "[]))), ('sensor_acquisition_date',",
 'file-10-4-lines': 'sha256:1be1e186a4fb3a7c7dd6ea2b17ebef418ac747ff2fb5b67cb881a5e157c58534 '
                    "length:11184 start:(('OK', ('Group', '/', None, [('rows', ('Variable', "
                    "('list', [('str', 'rows')]), ('list', [('int', 0), ('int', 1), ('int', 2), "
                    "('int', 3)]), ('dict', []))), ('s",
 'file-10-4-transform': 'sha256:a39bcca757320474e0fa516b1b62dc64b17d9a6f8b63a2015bdfc3a37848f451 '
                        "length:12695 start:(('OK', ('tuple', [('Group', '/', None, [('rows', "
                        "('Variable', ('list', [('str', 'rows')]), ('list', [('int', 0), ('int', "
                        "1), ('int', 2), ('int', 3)]), ('dict',",
 'file-10-4-reversed': 'sha256:72a962d1f0cde4a4b894ec0bd06ad739991340d66cc96425885bfedda9b32e10 '
                       "length:11184 start:(('OK', ('Group', '/', None, [('rows', ('Variable', "
                       "('list', [('str', 'rows')]), ('list', [('int', 3), ('int', 2), ('int', 1), "
                       "('int', 0)]), ('dict', []))), ('s",
 'file-11-0-lines': "(('OK', ('Group', '/', None, [], ('dict', []))), True)",
 'file-11-0-transform': "(('OK', ('tuple', [('Group', '/', None, [], ('dict', [(('str', "
                        "'interleaving_id'), ('str', 'BSQ')), (('str', 'coordinates'), ('list', "
                        "[]))])), ('dict', [(('str', 'type_code'), ('str', 'IU2')), (('str', "
                        "'shape'), ('tuple', [('int', 0), ('int', 4)])), (('str', 'dtype'), "
                        "('str', 'uint16')), (('str', 'byte_ranges'), ('list', []))])])), True)",
 'file-11-0-reversed': "(('OK', ('Group', '/', None, [], ('dict', []))), True)",
 'file-11-1-lines': 'sha256:b8b1419f158bc9ff7d0acbda8342e9eea36afbb77b7225e512a091afddecbb21 '
                    "length:4159 start:(('OK', ('Group', '/', None, [('rows', ('Variable', "
                    "('list', [('str', 'rows')]), ('list', [('int', 0)]), ('dict', []))), "
                    "('sensor_acquisition_date', ('Variable'",
 'file-11-1-transform': 'sha256:0b0967a9670be01aea7aa0083f85add569d292efe5f1992d8cc57f64d5db2241 '
                        "length:5388 start:(('OK', ('tuple', [('Group', '/', None, [('rows', "
                        "('Variable', ('list', [('str', 'rows')]), ('list', [('int', 0)]), "
                        "('dict', []))), ('sensor_acquisition_date', ",
 'file-11-1-reversed': 'sha256:b8b1419f158bc9ff7d0acbda8342e9eea36afbb77b7225e512a091afddecbb21 '
                       "length:4159 start:(('OK', ('Group', '/', None, [('rows', ('Variable', "
                       "('list', [('str', 'rows')]), ('list', [('int', 0)]), ('dict', []))), "
                       "('sensor_acquisition_date', ('Variable'",
 'file-11-2-lines': 'sha256:0abb1554b738f6b742977f0db6bebec0a429f0a37ca0b6ac27e4d5ddddda0f15 '
                    "length:4572 start:(('OK', ('Group', '/', None, [('rows', ('Variable', "
                    "('list', [('str', 'rows')]), ('list', [('int', 0), ('int', 1)]), ('dict', "
                    "[]))), ('sensor_acquisition_date',",
 'file-11-2-transform': 'sha256:738b297f76d69f6bbf19fb30a662fd4e7e042e7580537c6a0133ae9114fe8d05 '
                        "length:5844 start:(('OK', ('tuple', [('Group', '/', None, [('rows', "
                        "('Variable', ('list', [('str', 'rows')]), ('list', [('int', 0), ('int', "
                        "1)]), ('dict', []))), ('sensor_acquisi",
 'file-11-2-reversed': 'sha256:56d4e2c0491e245033a1c81ac9713f60828c2f8406e3c33bfc8f9908f92b6693 '
                       "length:4572 start:(('OK', ('Group', '/', None, [('rows', ('Variable', "
                       "('list', [('str', 'rows')]), ('list', [('int', 1), ('int', 0)]), ('dict', "
                       "[]))), ('sensor_acquisition_date',",
 'file-11-4-lines': 'sha256:7bbd05270e51919ec41eb885d19b54d175b3aed4a9bde27e713289446048f3ae '
                    "length:5391 start:(('OK', ('Group', '/', None, [('rows', ('Variable', "
                    "('list', [('str', 'rows')]), ('list', [('int', 0), ('int', 1), ('int', 2), "
                    "('int', 3)]), ('dict', []))), ('s",
 'file-11-4-transform': 'sha256:220ab452b5f102b7e386d50c2076db37ea9f66032316f4700c1258aac53cfa21 '
                        "length:6749 start:(('OK', ('tuple', [('Group', '/', None, [('rows', "
                        "('Variable', ('list', [('str', 'rows')]), ('list', [('int', 0), ('int', "
                        "1), ('int', 2), ('int', 3)]), ('dict',",
 'file-11-4-reversed': 'sha256:b1a1b93f1162f36c348058e97bcbee6deb32b17f13bca814590c565bd99cd0e4 '
                       "length:5391 start:(('OK', ('Group', '/', None, [('rows', ('Variable', "
                       "('list', [('str', 'rows')]), ('list', [('int', 3), ('int', 2), ('int', 1), "
                       "('int', 0)]), ('dict', []))), ('s",
 'names': "['apply_overrides', 'apply_to_items', 'as_group', 'compose_left', 'cons', 'curry', "
          "'deduplicate_attrs', 'dissoc', 'dtypes', 'extract_attrs', 'extract_format_type', "
          "'extract_shape', 'first', 'keyfilter', 'keysplit', 'math', 'merge_with', 'np', 'pipe', "
          "'remove_nesting_layer', 'remove_spares', 'rename', 'second', 'separate_attrs', "
          "'starcall', 'transform_line_metadata', 'transform_metadata', 'valfilter', 'valmap']"}

if __name__ == "__main__":
    recorder = Recorder()
    run(recorder)
    sys.exit(recorder.finish(EXPECTED))


def test_equivalence():
    recorder = Recorder()
    run(recorder)
    recorder.finish(EXPECTED)
