"""Equivalence check for refactoring 3 (volume_directory.io.open_volume_directory).

Run as:  PYTHONPATH=/tmp/wt9/e77 /venv/bin/python _eq/3/equiv.py
(or through pytest: the module exposes ``test_equivalence``).

``EXPECTED`` was recorded from the unchanged code (``--record`` prints it).
"""

import datetime
import pprint
import sys
from collections.abc import Mapping

import fsspec

import ceos_alos2.volume_directory as package
from ceos_alos2.common import record_preamble
from ceos_alos2.hierarchy import Group
from ceos_alos2.volume_directory import io, structure


def describe(obj):
    """value + exact types, recursively, as a compact string"""
    if isinstance(obj, dict):
        items = ", ".join(f"{describe(k)}: {describe(v)}" for k, v in obj.items())
        return f"{type(obj).__name__}{{{items}}}"
    if isinstance(obj, (list, tuple)):
        return f"{type(obj).__name__}[{', '.join(describe(v) for v in obj)}]"
    if isinstance(obj, Group):
        return f"Group({obj.path!r}, {obj.url!r}, {describe(dict(obj.data))}, {describe(dict(obj.attrs))})"
    if isinstance(obj, (str, int, float, type(None), datetime.datetime)) and type(obj).__module__ in (
        "builtins",
        "datetime",
    ):
        return ascii(obj)
    return f"{type(obj).__name__}:{obj!a}"


def describe_exception(exc):
    if exc is None:
        return "None"
    bases = ">".join(c.__name__ for c in type(exc).__mro__[1:-2])
    module = "<equiv>" if type(exc).__module__ == __name__ else type(exc).__module__
    text = f"{module}.{type(exc).__qualname__}({bases}) args={exc.args!a} str={str(exc)!a}"
    if exc.__cause__ is None and exc.__context__ is None and not exc.__suppress_context__:
        return text
    cause = describe_exception(exc.__cause__)
    context = "<cause>" if exc.__context__ is exc.__cause__ else describe_exception(exc.__context__)
    return f"{text} [cause={cause}; context={context}; suppress_context={exc.__suppress_context__}]"


def observe(func, *args, **kwargs):
    try:
        result = func(*args, **kwargs)
    except BaseException as e:  # noqa: B902
        return "RAISED " + describe_exception(e)
    return "RETURNED " + describe(result)


# --------------------------------------------------------------------------------------
# synthetic volume directory files


def build_record(struct, values):
    """serialize ``values`` (text, left justified; bytes are taken as they are)"""
    values = dict(values)
    preamble = values.pop("preamble", None) or {
        "record_sequence_number": 1,
        "first_record_subtype": 192,
        "record_type": 192,
        "second_record_subtype": 18,
        "third_record_subtype": 18,
        "record_length": 360,
    }
    chunks = []
    for subcon in struct.subcons:
        if subcon.name == "preamble":
            chunks.append(record_preamble.build(preamble))
            continue
        size = subcon.sizeof()
        raw = values.get(subcon.name, "")
        if not isinstance(raw, bytes):
            raw = str(raw).ljust(size).encode("ascii")
        assert len(raw) == size, (subcon.name, size, raw)
        chunks.append(raw)
    unknown = set(values) - {subcon.name for subcon in struct.subcons}
    assert not unknown, unknown
    return b"".join(chunks)


def volume_descriptor(n_pointers, **overrides):
    values = {
        "ascii_ebcdic_flag": "A",
        "superstructure_format_control_document_id": "CEOS-SAR",
        "superstructure_format_control_document_revision_level": "A",
        "superstructure_record_format_revision_level": "A",
        "software_release_and_revision_level": "001.001",
        "physical_volume_id": "ALOS2 PHYS",
        "logical_volume_id": "ALOS2 LOG",
        "volume_set_id": "ALOS2 SET",
        "total_number_of_physical_volumes_in_logical_volume": " 1",
        "physical_volume_sequence_number_of_the_first_tape": " 1",
        "physical_volume_sequence_number_of_the_last_tape": " 1",
        "physical_volume_sequence_number_of_the_current_tape": " 1",
        "file_number_in_the_logical_volume": "   1",
        "logical_volume_within_a_volume_set": "   1",
        "logical_volume_number_within_physical_volume": "   1",
        "logical_volume_creation_datetime": "2020101117233798",
        "logical_volume_generation_country": "JAPAN",
        "logical_volume_generating_agency": "JAXA",
        "logical_volume_generating_facility": "EICS",
        "number_of_file_pointer_records": str(n_pointers).rjust(4),
        "number_of_text_records_in_volume_directory": "   1",
    }
    return build_record(structure.volume_descriptor, values | overrides)


def file_descriptor(index, **overrides):
    values = {
        "ascii_ebcdic_flag": "A",
        "referenced_file_number": str(index).rjust(4),
        "referenced_file_name_id": f"FILE{index}",
        "referenced_file_class": "SARLEADER FILE",
        "referenced_file_class_code": "SARL",
        "referenced_file_data_type": "MIXED BINARY AND ASCII",
        "referenced_file_data_type_code": "MBAA",
        "number_of_records_in_referenced_file": str(10 + index).rjust(8),
        "length_of_the_first_record_in_referenced_file": "     720",
        "maximum_record_length_in_referenced_file": "    4680",
        "referenced_file_record_length_type": "VARIABLE LEN",
        "referenced_file_record_length_type_code": "VARE",
        "number_of_the_physical_volume_set_containing_the_first_record_of_the_file": " 1",
        "number_of_the_physical_volume_set_containing_the_last_record_of_the_file": " 1",
        "record_number_of_the_first_record_appearing_on_this_physical_volume": "       1",
        "record_number_of_the_last_record_appearing_on_this_physical_volume": str(10 + index).rjust(8),
    }
    return build_record(structure.file_descriptor, values | overrides)


def text_record(**overrides):
    values = {
        "ascii_ebcdic_flag": "A",
        "product_id": "PRODUCT:WWDR1.5RUA",
        "location_and_datetime_of_product_creation": "PROCESS:JAPAN-JAXA-ALOS2-EICS  20201011 172337",
        "physical_tape_id": "TAPE ID:WWDR1.5RUA",
        "scene_id": "ORBIT:ALOS2290760600-191011",
        "scene_location_id": "FRAME: 0600",
    }
    return build_record(structure.text_record, values | overrides)


def volume_directory(n_pointers=4, n_actual=None, descriptor=None, text=None):
    if n_actual is None:
        n_actual = n_pointers
    return (
        volume_descriptor(n_pointers, **(descriptor or {}))
        + b"".join(file_descriptor(index + 1) for index in range(n_actual))
        + text_record(**(text or {}))
    )


good = volume_directory()

datasets = {
    "good-4": good,
    "good-0": volume_directory(0),
    "good-1": volume_directory(1),
    "good-12": volume_directory(12),
    "trailing-bytes": good + b"trailing garbage",
    "empty": b"",
    "short-preamble": good[:7],
    "truncated-descriptor": good[:200],
    "truncated-pointers": good[: 360 + 3 * 360 + 17],
    "truncated-text": good[:-1],
    "missing-pointer": volume_directory(4, n_actual=3),
    "blank-count": volume_directory(0, descriptor={"number_of_file_pointer_records": "    "}),
    "negative-count": volume_directory(0, descriptor={"number_of_file_pointer_records": "  -2"}),
    "bad-count": volume_directory(0, descriptor={"number_of_file_pointer_records": "four"}),
    "bad-ignored-integer": volume_directory(1, descriptor={"file_number_in_the_logical_volume": "a  b"}),
    "bad-datetime": volume_directory(1, descriptor={"logical_volume_creation_datetime": "20201311172337"}),
    "blank-datetime": volume_directory(1, descriptor={"logical_volume_creation_datetime": ""}),
    "short-datetime": volume_directory(1, descriptor={"logical_volume_creation_datetime": "20201011"}),
    "non-ascii": volume_directory(1, text={"product_id": "PRODUCT:caf\xe9".encode("latin-1").ljust(40)}),
    "blank-text": volume_directory(2, text={"product_id": "", "scene_id": "", "scene_location_id": ""}),
    "all-spaces": b" " * len(good),
    "all-zero": bytes(len(good)),
    "bytearray": bytearray(good),
    "memoryview": memoryview(good),
    "text": good.decode("ascii", "replace"),
    "none": None,
    "int": 3,
    "list": [good],
}


# --------------------------------------------------------------------------------------
# mappers


class RecordingMapper(Mapping):
    """records every request made to the store"""

    def __init__(self, data, log):
        self.data = data
        self.log = log

    def __getitem__(self, key):
        self.log.append(("getitem", key))
        return self.data[key]

    def __contains__(self, key):
        self.log.append(("contains", key))
        return key in self.data

    def get(self, key, default=None):
        self.log.append(("get", key))
        return self.data.get(key, default)

    def getitems(self, keys, on_error="raise"):
        self.log.append(("getitems", list(keys)))
        return {key: self.data[key] for key in keys}

    def __iter__(self):
        self.log.append(("iter",))
        return iter(self.data)

    def __len__(self):
        self.log.append(("len",))
        return len(self.data)


class MissingFile(KeyError):
    pass


class RaisingMapper:
    def __init__(self, exc, log):
        self.exc = exc
        self.log = log

    def __getitem__(self, key):
        self.log.append(("getitem", key))
        raise self.exc


class Str(str):
    pass


class Loud(str):
    def __repr__(self):
        return "<Loud repr>"

    def __str__(self):
        return "<Loud str>"

    def __format__(self, spec):
        return "<Loud format>"


class Unprintable:
    def __hash__(self):
        return 1

    def __eq__(self, other):
        return isinstance(other, Unprintable)

    def __str__(self):
        raise RuntimeError("__str__ called")

    def __repr__(self):
        return "Unprintable()"

    def __format__(self, spec):
        raise RuntimeError("__format__ called")


def label(value):
    if isinstance(value, str):
        return f"{type(value).__name__}:{str.__str__(value)!a}"
    return f"{type(value).__name__}:{value!a}"


def run():
    observations = []

    # 1. every dataset through a recording mapper: the result and the requests made
    for name, data in datasets.items():
        log = []
        mapper = RecordingMapper({"VOL-ALOS2290760600-191011-WWDR1.5RUA": data, "other": b"other"}, log)
        outcome = observe(io.open_volume_directory, mapper, "VOL-ALOS2290760600-191011-WWDR1.5RUA")
        observations.append(("dataset", name, outcome, list(log)))

    # 2. plain dict and fsspec mappers
    store = {"VOL": good, "dir/VOL": volume_directory(1), 3: volume_directory(0), None: volume_directory(2),
             ("a", "b"): volume_directory(3), Unprintable(): volume_directory(1)}
    for path in ["VOL", "dir/VOL", "vol", "", "missing", "dir", 3, 4, None, ("a", "b"), ("a",), (),
                 Str("VOL"), Str("nope"), Loud("VOL"), Loud("nope"), b"VOL", 1.5, "{path}", "%s", "a\nb"]:
        observations.append(("dict", label(path), observe(io.open_volume_directory, store, path)))
    observations.append(("dict-unprintable-present", observe(io.open_volume_directory, store, Unprintable())))
    observations.append(("dict-unprintable-missing", observe(io.open_volume_directory, {}, Unprintable())))
    observations.append(("dict-unhashable", observe(io.open_volume_directory, store, ["VOL"])))
    observations.append(("dict-unhashable-dict", observe(io.open_volume_directory, store, {"VOL": 1})))
    observations.append(("list-mapper", observe(io.open_volume_directory, [good], 0)))
    observations.append(("list-mapper-missing", observe(io.open_volume_directory, [good], 1)))
    observations.append(("list-mapper-str", observe(io.open_volume_directory, [good], "VOL")))
    observations.append(("none-mapper", observe(io.open_volume_directory, None, "VOL")))
    observations.append(("kw", observe(io.open_volume_directory, mapper={"VOL": good}, path="VOL")))
    observations.append(("kw-missing", observe(io.open_volume_directory, path="VOL", mapper={})))
    observations.append(("noarg", observe(io.open_volume_directory, {}).split(" args=")[0]))

    fs = fsspec.filesystem("memory")
    fs.store.clear()
    fs.pipe("/product/VOL-A", good)
    fs.pipe("/product/sub/VOL-B", volume_directory(2))
    fs.pipe("/product/broken", good[:100])
    for root in ["memory://product", "memory:///product/", "memory://product/sub", "memory://elsewhere"]:
        mapper = fsspec.get_mapper(root)
        for path in ["VOL-A", "VOL-B", "sub/VOL-B", "/VOL-A", "broken", "sub", "", "missing", "../product/VOL-A"]:
            observations.append(("fsspec", root, path, observe(io.open_volume_directory, mapper, path)))
    mapper = fsspec.get_mapper("memory://product", missing_exceptions=())
    observations.append(("fsspec-strict", observe(io.open_volume_directory, mapper, "missing")))
    observations.append(("fsspec-strict", observe(io.open_volume_directory, mapper, "VOL-A")))
    fs.store.clear()

    # 3. what the mapper raises
    exceptions = [
        KeyError("VOL"),
        KeyError(),
        KeyError("a", "b"),
        MissingFile("VOL"),
        LookupError("VOL"),
        IndexError("VOL"),
        FileNotFoundError("VOL"),
        FileNotFoundError(2, "No such file", "VOL"),
        PermissionError("denied"),
        OSError("io"),
        ValueError("value"),
        TypeError("type"),
        RuntimeError("runtime"),
        RuntimeError("generator raised StopIteration"),
        StopIteration(),
        StopIteration("value"),
        StopAsyncIteration(),
        GeneratorExit(),
        KeyboardInterrupt(),
        SystemExit(2),
        AssertionError("assert"),
        MemoryError(),
    ]
    for exc in exceptions:
        log = []
        outcome = observe(io.open_volume_directory, RaisingMapper(exc, log), "VOL")
        observations.append(("mapper-raises", describe_exception(exc).split(" [")[0], outcome, list(log)))

    # a KeyError that already has a history keeps it
    try:
        try:
            raise OSError("disk")
        except OSError as inner:
            raise KeyError("chained") from inner
    except KeyError as e:
        chained = e
    observations.append(("mapper-raises-chained", observe(io.open_volume_directory, RaisingMapper(chained, []), "VOL")))

    # called while another exception is being handled
    try:
        raise ZeroDivisionError("outer")
    except ZeroDivisionError:
        observations.append(("while-handling-missing", observe(io.open_volume_directory, {}, "VOL")))
        observations.append(("while-handling-present", observe(io.open_volume_directory, {"VOL": good}, "VOL")))
        observations.append(("while-handling-other", observe(io.open_volume_directory, RaisingMapper(OSError("io"), []), "VOL")))

    # 4. only the store access is translated, and module globals are looked up when called
    saved = {name: getattr(io, name) for name in ["parse_data", "transform_record", "to_dict", "volume_directory_record"]}
    calls = []
    try:
        def recording(name, result):
            def func(arg):
                calls.append((name, describe(arg)[:60] if type(arg) in (bytes, dict, type(None)) else type(arg).__name__))
                if isinstance(result, BaseException):
                    raise result
                return result

            return func

        for parse_result, transform_result in [
            ({"parsed": 1}, "transformed"),
            (KeyError("from parse_data"), "unused"),
            ({"parsed": 1}, KeyError("from transform_record")),
            (FileNotFoundError("from parse_data"), "unused"),
            (None, None),
        ]:
            io.parse_data = recording("parse_data", parse_result)
            io.transform_record = recording("transform_record", transform_result)
            log = []
            outcome = observe(io.open_volume_directory, RecordingMapper({"VOL": b"raw bytes"}, log), "VOL")
            observations.append(("patched", outcome, list(calls), list(log)))
            del calls[:]
            outcome = observe(io.open_volume_directory, RecordingMapper({}, log), "VOL")
            observations.append(("patched-missing", outcome, list(calls), list(log)))
            del calls[:]
        io.parse_data = saved["parse_data"]
        io.transform_record = saved["transform_record"]

        io.to_dict = recording("to_dict", {"volume_descriptor": {"a": 1}, "text_record": {"b": 2}, "file_descriptors": []})
        observations.append(("patched-to_dict", observe(io.open_volume_directory, {"VOL": good}, "VOL"), list(calls)))
        observations.append(("patched-to_dict", observe(io.parse_data, good), list(calls)))
        del calls[:]
    finally:
        for name, value in saved.items():
            setattr(io, name, value)

    # 5. parse_data on its own and public names
    for name in ["good-4", "good-0", "truncated-text", "bad-count", "bad-datetime"]:
        observations.append(("parse_data", name, observe(io.parse_data, datasets[name])))
    observations.append(("same-object", package.open_volume_directory is io.open_volume_directory))
    for name in ["parse_data", "open_volume_directory", "to_dict", "transform_record", "volume_directory_record"]:
        observations.append(("name", name, hasattr(io, name)))
    func = io.open_volume_directory
    observations.append(("function", func.__module__, func.__name__, func.__code__.co_varnames[: func.__code__.co_argcount]))

    return observations


# EXPECTED-BEGIN
EXPECTED = [['dataset',
  'good-4',
  "RETURNED Group('/', None, dict{}, dict{'control_document_id': 'CEOS-SAR', 'control_document_revision_level': 'A', 'record_format_revision_level': 'A', "
  "'software_version': '001.001', 'physical_volume_id': 'ALOS2 PHYS', 'logical_volume_id': 'ALOS2 LOG', 'volume_set_id': 'ALOS2 SET', 'creation_datetime': "
  "'2020-10-11T17:23:37.980000', 'creation_country': 'JAPAN', 'creation_agency': 'JAXA', 'creation_facility': 'EICS', 'product_id': 'PRODUCT:WWDR1.5RUA', "
  "'product_creation': 'PROCESS:JAPAN-JAXA-ALOS2-EICS  20201011 172337', 'scene_id': 'ORBIT:ALOS2290760600-191011', 'scene_location_id': 'FRAME: 0600'})",
  [('getitem', 'VOL-ALOS2290760600-191011-WWDR1.5RUA')]],
 ['dataset',
  'good-0',
  "RETURNED Group('/', None, dict{}, dict{'control_document_id': 'CEOS-SAR', 'control_document_revision_level': 'A', 'record_format_revision_level': 'A', "
  "'software_version': '001.001', 'physical_volume_id': 'ALOS2 PHYS', 'logical_volume_id': 'ALOS2 LOG', 'volume_set_id': 'ALOS2 SET', 'creation_datetime': "
  "'2020-10-11T17:23:37.980000', 'creation_country': 'JAPAN', 'creation_agency': 'JAXA', 'creation_facility': 'EICS', 'product_id': 'PRODUCT:WWDR1.5RUA', "
  "'product_creation': 'PROCESS:JAPAN-JAXA-ALOS2-EICS  20201011 172337', 'scene_id': 'ORBIT:ALOS2290760600-191011', 'scene_location_id': 'FRAME: 0600'})",
  [('getitem', 'VOL-ALOS2290760600-191011-WWDR1.5RUA')]],
 ['dataset',
  'good-1',
  "RETURNED Group('/', None, dict{}, dict{'control_document_id': 'CEOS-SAR', 'control_document_revision_level': 'A', 'record_format_revision_level': 'A', "
  "'software_version': '001.001', 'physical_volume_id': 'ALOS2 PHYS', 'logical_volume_id': 'ALOS2 LOG', 'volume_set_id': 'ALOS2 SET', 'creation_datetime': "
  "'2020-10-11T17:23:37.980000', 'creation_country': 'JAPAN', 'creation_agency': 'JAXA', 'creation_facility': 'EICS', 'product_id': 'PRODUCT:WWDR1.5RUA', "
  "'product_creation': 'PROCESS:JAPAN-JAXA-ALOS2-EICS  20201011 172337', 'scene_id': 'ORBIT:ALOS2290760600-191011', 'scene_location_id': 'FRAME: 0600'})",
  [('getitem', 'VOL-ALOS2290760600-191011-WWDR1.5RUA')]],
 ['dataset',
  'good-12',
  "RETURNED Group('/', None, dict{}, dict{'control_document_id': 'CEOS-SAR', 'control_document_revision_level': 'A', 'record_format_revision_level': 'A', "
  "'software_version': '001.001', 'physical_volume_id': 'ALOS2 PHYS', 'logical_volume_id': 'ALOS2 LOG', 'volume_set_id': 'ALOS2 SET', 'creation_datetime': "
  "'2020-10-11T17:23:37.980000', 'creation_country': 'JAPAN', 'creation_agency': 'JAXA', 'creation_facility': 'EICS', 'product_id': 'PRODUCT:WWDR1.5RUA', "
  "'product_creation': 'PROCESS:JAPAN-JAXA-ALOS2-EICS  20201011 172337', 'scene_id': 'ORBIT:ALOS2290760600-191011', 'scene_location_id': 'FRAME: 0600'})",
  [('getitem', 'VOL-ALOS2290760600-191011-WWDR1.5RUA')]],
 ['dataset',
  'trailing-bytes',
  "RETURNED Group('/', None, dict{}, dict{'control_document_id': 'CEOS-SAR', 'control_document_revision_level': 'A', 'record_format_revision_level': 'A', "
  "'software_version': '001.001', 'physical_volume_id': 'ALOS2 PHYS', 'logical_volume_id': 'ALOS2 LOG', 'volume_set_id': 'ALOS2 SET', 'creation_datetime': "
  "'2020-10-11T17:23:37.980000', 'creation_country': 'JAPAN', 'creation_agency': 'JAXA', 'creation_facility': 'EICS', 'product_id': 'PRODUCT:WWDR1.5RUA', "
  "'product_creation': 'PROCESS:JAPAN-JAXA-ALOS2-EICS  20201011 172337', 'scene_id': 'ORBIT:ALOS2290760600-191011', 'scene_location_id': 'FRAME: 0600'})",
  [('getitem', 'VOL-ALOS2290760600-191011-WWDR1.5RUA')]],
 ['dataset',
  'empty',
  "RAISED construct.core.StreamError(ConstructError>Exception) args=('Error in path (parsing) -> volume_descriptor -> preamble -> "
  "record_sequence_number\\nstream read less than specified amount, expected 4, found 0',) str='Error in path (parsing) -> volume_descriptor -> preamble -> "
  "record_sequence_number\\nstream read less than specified amount, expected 4, found 0'",
  [('getitem', 'VOL-ALOS2290760600-191011-WWDR1.5RUA')]],
 ['dataset',
  'short-preamble',
  "RAISED construct.core.StreamError(ConstructError>Exception) args=('Error in path (parsing) -> volume_descriptor -> preamble -> "
  "third_record_subtype\\nstream read less than specified amount, expected 1, found 0',) str='Error in path (parsing) -> volume_descriptor -> preamble -> "
  "third_record_subtype\\nstream read less than specified amount, expected 1, found 0'",
  [('getitem', 'VOL-ALOS2290760600-191011-WWDR1.5RUA')]],
 ['dataset',
  'truncated-descriptor',
  "RAISED construct.core.StreamError(ConstructError>Exception) args=('Error in path (parsing) -> volume_descriptor -> spare\\nstream read less than specified "
  "amount, expected 92, found 32',) str='Error in path (parsing) -> volume_descriptor -> spare\\nstream read less than specified amount, expected 92, found "
  "32'",
  [('getitem', 'VOL-ALOS2290760600-191011-WWDR1.5RUA')]],
 ['dataset',
  'truncated-pointers',
  "RAISED construct.core.StreamError(ConstructError>Exception) args=('Error in path (parsing) -> file_descriptors -> referenced_file_number\\nstream read less "
  "than specified amount, expected 4, found 1',) str='Error in path (parsing) -> file_descriptors -> referenced_file_number\\nstream read less than specified "
  "amount, expected 4, found 1'",
  [('getitem', 'VOL-ALOS2290760600-191011-WWDR1.5RUA')]],
 ['dataset',
  'truncated-text',
  "RAISED construct.core.StreamError(ConstructError>Exception) args=('Error in path (parsing) -> text_record -> blanks\\nstream read less than specified "
  "amount, expected 124, found 123',) str='Error in path (parsing) -> text_record -> blanks\\nstream read less than specified amount, expected 124, found 123'",
  [('getitem', 'VOL-ALOS2290760600-191011-WWDR1.5RUA')]],
 ['dataset',
  'missing-pointer',
  'RAISED builtins.ValueError(Exception) args=("invalid literal for int() with base 10: \'PROD\'",) str="invalid literal for int() with base 10: \'PROD\'"',
  [('getitem', 'VOL-ALOS2290760600-191011-WWDR1.5RUA')]],
 ['dataset',
  'blank-count',
  "RAISED construct.core.RangeError(ConstructError>Exception) args=('Error in path (parsing) -> file_descriptors\\ninvalid count -1',) str='Error in path "
  "(parsing) -> file_descriptors\\ninvalid count -1'",
  [('getitem', 'VOL-ALOS2290760600-191011-WWDR1.5RUA')]],
 ['dataset',
  'negative-count',
  "RAISED construct.core.RangeError(ConstructError>Exception) args=('Error in path (parsing) -> file_descriptors\\ninvalid count -2',) str='Error in path "
  "(parsing) -> file_descriptors\\ninvalid count -2'",
  [('getitem', 'VOL-ALOS2290760600-191011-WWDR1.5RUA')]],
 ['dataset',
  'bad-count',
  'RAISED builtins.ValueError(Exception) args=("invalid literal for int() with base 10: \'four\'",) str="invalid literal for int() with base 10: \'four\'"',
  [('getitem', 'VOL-ALOS2290760600-191011-WWDR1.5RUA')]],
 ['dataset',
  'bad-ignored-integer',
  'RAISED builtins.ValueError(Exception) args=("invalid literal for int() with base 10: \'a  b\'",) str="invalid literal for int() with base 10: \'a  b\'"',
  [('getitem', 'VOL-ALOS2290760600-191011-WWDR1.5RUA')]],
 ['dataset',
  'bad-datetime',
  "RETURNED Group('/', None, dict{}, dict{'control_document_id': 'CEOS-SAR', 'control_document_revision_level': 'A', 'record_format_revision_level': 'A', "
  "'software_version': '001.001', 'physical_volume_id': 'ALOS2 PHYS', 'logical_volume_id': 'ALOS2 LOG', 'volume_set_id': 'ALOS2 SET', 'creation_datetime': "
  "'2020-01-31T11:07:23.370000', 'creation_country': 'JAPAN', 'creation_agency': 'JAXA', 'creation_facility': 'EICS', 'product_id': 'PRODUCT:WWDR1.5RUA', "
  "'product_creation': 'PROCESS:JAPAN-JAXA-ALOS2-EICS  20201011 172337', 'scene_id': 'ORBIT:ALOS2290760600-191011', 'scene_location_id': 'FRAME: 0600'})",
  [('getitem', 'VOL-ALOS2290760600-191011-WWDR1.5RUA')]],
 ['dataset',
  'blank-datetime',
  'RAISED builtins.ValueError(Exception) args=("time data \'\' does not match format \'%Y%m%d%H%M%S%f\'",) str="time data \'\' does not match format '
  '\'%Y%m%d%H%M%S%f\'"',
  [('getitem', 'VOL-ALOS2290760600-191011-WWDR1.5RUA')]],
 ['dataset',
  'short-datetime',
  'RAISED builtins.ValueError(Exception) args=("time data \'20201011\' does not match format \'%Y%m%d%H%M%S%f\'",) str="time data \'20201011\' does not match '
  'format \'%Y%m%d%H%M%S%f\'"',
  [('getitem', 'VOL-ALOS2290760600-191011-WWDR1.5RUA')]],
 ['dataset',
  'non-ascii',
  'RAISED construct.core.StringError(ConstructError>Exception) args=("cannot use encoding \'ascii\' to decode b\'PRODUCT:caf\\\\xe9                            '
  '\'",) str="cannot use encoding \'ascii\' to decode b\'PRODUCT:caf\\\\xe9                            \'" [cause=None; '
  "context=builtins.UnicodeDecodeError(UnicodeError>ValueError>Exception) args=('ascii', b'PRODUCT:caf\\xe9                            ', 11, 12, 'ordinal not "
  'in range(128)\') str="\'ascii\' codec can\'t decode byte 0xe9 in position 11: ordinal not in range(128)"; suppress_context=False]',
  [('getitem', 'VOL-ALOS2290760600-191011-WWDR1.5RUA')]],
 ['dataset',
  'blank-text',
  "RETURNED Group('/', None, dict{}, dict{'control_document_id': 'CEOS-SAR', 'control_document_revision_level': 'A', 'record_format_revision_level': 'A', "
  "'software_version': '001.001', 'physical_volume_id': 'ALOS2 PHYS', 'logical_volume_id': 'ALOS2 LOG', 'volume_set_id': 'ALOS2 SET', 'creation_datetime': "
  "'2020-10-11T17:23:37.980000', 'creation_country': 'JAPAN', 'creation_agency': 'JAXA', 'creation_facility': 'EICS', 'product_id': '', 'product_creation': "
  "'PROCESS:JAPAN-JAXA-ALOS2-EICS  20201011 172337', 'scene_id': '', 'scene_location_id': ''})",
  [('getitem', 'VOL-ALOS2290760600-191011-WWDR1.5RUA')]],
 ['dataset',
  'all-spaces',
  "RAISED construct.core.RangeError(ConstructError>Exception) args=('Error in path (parsing) -> file_descriptors\\ninvalid count -1',) str='Error in path "
  "(parsing) -> file_descriptors\\ninvalid count -1'",
  [('getitem', 'VOL-ALOS2290760600-191011-WWDR1.5RUA')]],
 ['dataset',
  'all-zero',
  "RAISED construct.core.RangeError(ConstructError>Exception) args=('Error in path (parsing) -> file_descriptors\\ninvalid count -1',) str='Error in path "
  "(parsing) -> file_descriptors\\ninvalid count -1'",
  [('getitem', 'VOL-ALOS2290760600-191011-WWDR1.5RUA')]],
 ['dataset',
  'bytearray',
  "RETURNED Group('/', None, dict{}, dict{'control_document_id': 'CEOS-SAR', 'control_document_revision_level': 'A', 'record_format_revision_level': 'A', "
  "'software_version': '001.001', 'physical_volume_id': 'ALOS2 PHYS', 'logical_volume_id': 'ALOS2 LOG', 'volume_set_id': 'ALOS2 SET', 'creation_datetime': "
  "'2020-10-11T17:23:37.980000', 'creation_country': 'JAPAN', 'creation_agency': 'JAXA', 'creation_facility': 'EICS', 'product_id': 'PRODUCT:WWDR1.5RUA', "
  "'product_creation': 'PROCESS:JAPAN-JAXA-ALOS2-EICS  20201011 172337', 'scene_id': 'ORBIT:ALOS2290760600-191011', 'scene_location_id': 'FRAME: 0600'})",
  [('getitem', 'VOL-ALOS2290760600-191011-WWDR1.5RUA')]],
 ['dataset',
  'memoryview',
  "RETURNED Group('/', None, dict{}, dict{'control_document_id': 'CEOS-SAR', 'control_document_revision_level': 'A', 'record_format_revision_level': 'A', "
  "'software_version': '001.001', 'physical_volume_id': 'ALOS2 PHYS', 'logical_volume_id': 'ALOS2 LOG', 'volume_set_id': 'ALOS2 SET', 'creation_datetime': "
  "'2020-10-11T17:23:37.980000', 'creation_country': 'JAPAN', 'creation_agency': 'JAXA', 'creation_facility': 'EICS', 'product_id': 'PRODUCT:WWDR1.5RUA', "
  "'product_creation': 'PROCESS:JAPAN-JAXA-ALOS2-EICS  20201011 172337', 'scene_id': 'ORBIT:ALOS2290760600-191011', 'scene_location_id': 'FRAME: 0600'})",
  [('getitem', 'VOL-ALOS2290760600-191011-WWDR1.5RUA')]],
 ['dataset',
  'text',
  'RAISED builtins.TypeError(Exception) args=("a bytes-like object is required, not \'str\'",) str="a bytes-like object is required, not \'str\'"',
  [('getitem', 'VOL-ALOS2290760600-191011-WWDR1.5RUA')]],
 ['dataset',
  'none',
  "RAISED construct.core.StreamError(ConstructError>Exception) args=('Error in path (parsing) -> volume_descriptor -> preamble -> "
  "record_sequence_number\\nstream read less than specified amount, expected 4, found 0',) str='Error in path (parsing) -> volume_descriptor -> preamble -> "
  "record_sequence_number\\nstream read less than specified amount, expected 4, found 0'",
  [('getitem', 'VOL-ALOS2290760600-191011-WWDR1.5RUA')]],
 ['dataset',
  'int',
  'RAISED builtins.TypeError(Exception) args=("a bytes-like object is required, not \'int\'",) str="a bytes-like object is required, not \'int\'"',
  [('getitem', 'VOL-ALOS2290760600-191011-WWDR1.5RUA')]],
 ['dataset',
  'list',
  'RAISED builtins.TypeError(Exception) args=("a bytes-like object is required, not \'list\'",) str="a bytes-like object is required, not \'list\'"',
  [('getitem', 'VOL-ALOS2290760600-191011-WWDR1.5RUA')]],
 ['dict',
  "str:'VOL'",
  "RETURNED Group('/', None, dict{}, dict{'control_document_id': 'CEOS-SAR', 'control_document_revision_level': 'A', 'record_format_revision_level': 'A', "
  "'software_version': '001.001', 'physical_volume_id': 'ALOS2 PHYS', 'logical_volume_id': 'ALOS2 LOG', 'volume_set_id': 'ALOS2 SET', 'creation_datetime': "
  "'2020-10-11T17:23:37.980000', 'creation_country': 'JAPAN', 'creation_agency': 'JAXA', 'creation_facility': 'EICS', 'product_id': 'PRODUCT:WWDR1.5RUA', "
  "'product_creation': 'PROCESS:JAPAN-JAXA-ALOS2-EICS  20201011 172337', 'scene_id': 'ORBIT:ALOS2290760600-191011', 'scene_location_id': 'FRAME: 0600'})"],
 ['dict',
  "str:'dir/VOL'",
  "RETURNED Group('/', None, dict{}, dict{'control_document_id': 'CEOS-SAR', 'control_document_revision_level': 'A', 'record_format_revision_level': 'A', "
  "'software_version': '001.001', 'physical_volume_id': 'ALOS2 PHYS', 'logical_volume_id': 'ALOS2 LOG', 'volume_set_id': 'ALOS2 SET', 'creation_datetime': "
  "'2020-10-11T17:23:37.980000', 'creation_country': 'JAPAN', 'creation_agency': 'JAXA', 'creation_facility': 'EICS', 'product_id': 'PRODUCT:WWDR1.5RUA', "
  "'product_creation': 'PROCESS:JAPAN-JAXA-ALOS2-EICS  20201011 172337', 'scene_id': 'ORBIT:ALOS2290760600-191011', 'scene_location_id': 'FRAME: 0600'})"],
 ['dict',
  "str:'vol'",
  "RAISED builtins.FileNotFoundError(OSError>Exception) args=('Cannot open vol',) str='Cannot open vol' [cause=builtins.KeyError(LookupError>Exception) "
  'args=(\'vol\',) str="\'vol\'"; context=<cause>; suppress_context=True]'],
 ['dict',
  "str:''",
  "RAISED builtins.FileNotFoundError(OSError>Exception) args=('Cannot open ',) str='Cannot open ' [cause=builtins.KeyError(LookupError>Exception) args=('',) "
  'str="\'\'"; context=<cause>; suppress_context=True]'],
 ['dict',
  "str:'missing'",
  "RAISED builtins.FileNotFoundError(OSError>Exception) args=('Cannot open missing',) str='Cannot open missing' "
  '[cause=builtins.KeyError(LookupError>Exception) args=(\'missing\',) str="\'missing\'"; context=<cause>; suppress_context=True]'],
 ['dict',
  "str:'dir'",
  "RAISED builtins.FileNotFoundError(OSError>Exception) args=('Cannot open dir',) str='Cannot open dir' [cause=builtins.KeyError(LookupError>Exception) "
  'args=(\'dir\',) str="\'dir\'"; context=<cause>; suppress_context=True]'],
 ['dict',
  'int:3',
  "RETURNED Group('/', None, dict{}, dict{'control_document_id': 'CEOS-SAR', 'control_document_revision_level': 'A', 'record_format_revision_level': 'A', "
  "'software_version': '001.001', 'physical_volume_id': 'ALOS2 PHYS', 'logical_volume_id': 'ALOS2 LOG', 'volume_set_id': 'ALOS2 SET', 'creation_datetime': "
  "'2020-10-11T17:23:37.980000', 'creation_country': 'JAPAN', 'creation_agency': 'JAXA', 'creation_facility': 'EICS', 'product_id': 'PRODUCT:WWDR1.5RUA', "
  "'product_creation': 'PROCESS:JAPAN-JAXA-ALOS2-EICS  20201011 172337', 'scene_id': 'ORBIT:ALOS2290760600-191011', 'scene_location_id': 'FRAME: 0600'})"],
 ['dict',
  'int:4',
  "RAISED builtins.FileNotFoundError(OSError>Exception) args=('Cannot open 4',) str='Cannot open 4' [cause=builtins.KeyError(LookupError>Exception) args=(4,) "
  "str='4'; context=<cause>; suppress_context=True]"],
 ['dict',
  'NoneType:None',
  "RETURNED Group('/', None, dict{}, dict{'control_document_id': 'CEOS-SAR', 'control_document_revision_level': 'A', 'record_format_revision_level': 'A', "
  "'software_version': '001.001', 'physical_volume_id': 'ALOS2 PHYS', 'logical_volume_id': 'ALOS2 LOG', 'volume_set_id': 'ALOS2 SET', 'creation_datetime': "
  "'2020-10-11T17:23:37.980000', 'creation_country': 'JAPAN', 'creation_agency': 'JAXA', 'creation_facility': 'EICS', 'product_id': 'PRODUCT:WWDR1.5RUA', "
  "'product_creation': 'PROCESS:JAPAN-JAXA-ALOS2-EICS  20201011 172337', 'scene_id': 'ORBIT:ALOS2290760600-191011', 'scene_location_id': 'FRAME: 0600'})"],
 ['dict',
  "tuple:('a', 'b')",
  "RETURNED Group('/', None, dict{}, dict{'control_document_id': 'CEOS-SAR', 'control_document_revision_level': 'A', 'record_format_revision_level': 'A', "
  "'software_version': '001.001', 'physical_volume_id': 'ALOS2 PHYS', 'logical_volume_id': 'ALOS2 LOG', 'volume_set_id': 'ALOS2 SET', 'creation_datetime': "
  "'2020-10-11T17:23:37.980000', 'creation_country': 'JAPAN', 'creation_agency': 'JAXA', 'creation_facility': 'EICS', 'product_id': 'PRODUCT:WWDR1.5RUA', "
  "'product_creation': 'PROCESS:JAPAN-JAXA-ALOS2-EICS  20201011 172337', 'scene_id': 'ORBIT:ALOS2290760600-191011', 'scene_location_id': 'FRAME: 0600'})"],
 ['dict',
  "tuple:('a',)",
  'RAISED builtins.FileNotFoundError(OSError>Exception) args=("Cannot open (\'a\',)",) str="Cannot open (\'a\',)" '
  '[cause=builtins.KeyError(LookupError>Exception) args=((\'a\',),) str="(\'a\',)"; context=<cause>; suppress_context=True]'],
 ['dict',
  'tuple:()',
  "RAISED builtins.FileNotFoundError(OSError>Exception) args=('Cannot open ()',) str='Cannot open ()' [cause=builtins.KeyError(LookupError>Exception) "
  "args=((),) str='()'; context=<cause>; suppress_context=True]"],
 ['dict',
  "Str:'VOL'",
  "RETURNED Group('/', None, dict{}, dict{'control_document_id': 'CEOS-SAR', 'control_document_revision_level': 'A', 'record_format_revision_level': 'A', "
  "'software_version': '001.001', 'physical_volume_id': 'ALOS2 PHYS', 'logical_volume_id': 'ALOS2 LOG', 'volume_set_id': 'ALOS2 SET', 'creation_datetime': "
  "'2020-10-11T17:23:37.980000', 'creation_country': 'JAPAN', 'creation_agency': 'JAXA', 'creation_facility': 'EICS', 'product_id': 'PRODUCT:WWDR1.5RUA', "
  "'product_creation': 'PROCESS:JAPAN-JAXA-ALOS2-EICS  20201011 172337', 'scene_id': 'ORBIT:ALOS2290760600-191011', 'scene_location_id': 'FRAME: 0600'})"],
 ['dict',
  "Str:'nope'",
  "RAISED builtins.FileNotFoundError(OSError>Exception) args=('Cannot open nope',) str='Cannot open nope' [cause=builtins.KeyError(LookupError>Exception) "
  'args=(\'nope\',) str="\'nope\'"; context=<cause>; suppress_context=True]'],
 ['dict',
  "Loud:'VOL'",
  "RETURNED Group('/', None, dict{}, dict{'control_document_id': 'CEOS-SAR', 'control_document_revision_level': 'A', 'record_format_revision_level': 'A', "
  "'software_version': '001.001', 'physical_volume_id': 'ALOS2 PHYS', 'logical_volume_id': 'ALOS2 LOG', 'volume_set_id': 'ALOS2 SET', 'creation_datetime': "
  "'2020-10-11T17:23:37.980000', 'creation_country': 'JAPAN', 'creation_agency': 'JAXA', 'creation_facility': 'EICS', 'product_id': 'PRODUCT:WWDR1.5RUA', "
  "'product_creation': 'PROCESS:JAPAN-JAXA-ALOS2-EICS  20201011 172337', 'scene_id': 'ORBIT:ALOS2290760600-191011', 'scene_location_id': 'FRAME: 0600'})"],
 ['dict',
  "Loud:'nope'",
  "RAISED builtins.FileNotFoundError(OSError>Exception) args=('Cannot open <Loud format>',) str='Cannot open <Loud format>' "
  "[cause=builtins.KeyError(LookupError>Exception) args=(<Loud repr>,) str='<Loud repr>'; context=<cause>; suppress_context=True]"],
 ['dict',
  "bytes:b'VOL'",
  'RAISED builtins.FileNotFoundError(OSError>Exception) args=("Cannot open b\'VOL\'",) str="Cannot open b\'VOL\'" '
  '[cause=builtins.KeyError(LookupError>Exception) args=(b\'VOL\',) str="b\'VOL\'"; context=<cause>; suppress_context=True]'],
 ['dict',
  'float:1.5',
  "RAISED builtins.FileNotFoundError(OSError>Exception) args=('Cannot open 1.5',) str='Cannot open 1.5' [cause=builtins.KeyError(LookupError>Exception) "
  "args=(1.5,) str='1.5'; context=<cause>; suppress_context=True]"],
 ['dict',
  "str:'{path}'",
  "RAISED builtins.FileNotFoundError(OSError>Exception) args=('Cannot open {path}',) str='Cannot open {path}' [cause=builtins.KeyError(LookupError>Exception) "
  'args=(\'{path}\',) str="\'{path}\'"; context=<cause>; suppress_context=True]'],
 ['dict',
  "str:'%s'",
  "RAISED builtins.FileNotFoundError(OSError>Exception) args=('Cannot open %s',) str='Cannot open %s' [cause=builtins.KeyError(LookupError>Exception) "
  'args=(\'%s\',) str="\'%s\'"; context=<cause>; suppress_context=True]'],
 ['dict',
  "str:'a\\nb'",
  "RAISED builtins.FileNotFoundError(OSError>Exception) args=('Cannot open a\\nb',) str='Cannot open a\\nb' [cause=builtins.KeyError(LookupError>Exception) "
  'args=(\'a\\nb\',) str="\'a\\\\nb\'"; context=<cause>; suppress_context=True]'],
 ['dict-unprintable-present',
  "RETURNED Group('/', None, dict{}, dict{'control_document_id': 'CEOS-SAR', 'control_document_revision_level': 'A', 'record_format_revision_level': 'A', "
  "'software_version': '001.001', 'physical_volume_id': 'ALOS2 PHYS', 'logical_volume_id': 'ALOS2 LOG', 'volume_set_id': 'ALOS2 SET', 'creation_datetime': "
  "'2020-10-11T17:23:37.980000', 'creation_country': 'JAPAN', 'creation_agency': 'JAXA', 'creation_facility': 'EICS', 'product_id': 'PRODUCT:WWDR1.5RUA', "
  "'product_creation': 'PROCESS:JAPAN-JAXA-ALOS2-EICS  20201011 172337', 'scene_id': 'ORBIT:ALOS2290760600-191011', 'scene_location_id': 'FRAME: 0600'})"],
 ['dict-unprintable-missing',
  "RAISED builtins.RuntimeError(Exception) args=('__format__ called',) str='__format__ called' [cause=None; context=builtins.KeyError(LookupError>Exception) "
  "args=(Unprintable(),) str='Unprintable()'; suppress_context=False]"],
 ['dict-unhashable', 'RAISED builtins.TypeError(Exception) args=("unhashable type: \'list\'",) str="unhashable type: \'list\'"'],
 ['dict-unhashable-dict', 'RAISED builtins.TypeError(Exception) args=("unhashable type: \'dict\'",) str="unhashable type: \'dict\'"'],
 ['list-mapper',
  "RETURNED Group('/', None, dict{}, dict{'control_document_id': 'CEOS-SAR', 'control_document_revision_level': 'A', 'record_format_revision_level': 'A', "
  "'software_version': '001.001', 'physical_volume_id': 'ALOS2 PHYS', 'logical_volume_id': 'ALOS2 LOG', 'volume_set_id': 'ALOS2 SET', 'creation_datetime': "
  "'2020-10-11T17:23:37.980000', 'creation_country': 'JAPAN', 'creation_agency': 'JAXA', 'creation_facility': 'EICS', 'product_id': 'PRODUCT:WWDR1.5RUA', "
  "'product_creation': 'PROCESS:JAPAN-JAXA-ALOS2-EICS  20201011 172337', 'scene_id': 'ORBIT:ALOS2290760600-191011', 'scene_location_id': 'FRAME: 0600'})"],
 ['list-mapper-missing', "RAISED builtins.IndexError(LookupError>Exception) args=('list index out of range',) str='list index out of range'"],
 ['list-mapper-str',
  "RAISED builtins.TypeError(Exception) args=('list indices must be integers or slices, not str',) str='list indices must be integers or slices, not str'"],
 ['none-mapper', 'RAISED builtins.TypeError(Exception) args=("\'NoneType\' object is not subscriptable",) str="\'NoneType\' object is not subscriptable"'],
 ['kw',
  "RETURNED Group('/', None, dict{}, dict{'control_document_id': 'CEOS-SAR', 'control_document_revision_level': 'A', 'record_format_revision_level': 'A', "
  "'software_version': '001.001', 'physical_volume_id': 'ALOS2 PHYS', 'logical_volume_id': 'ALOS2 LOG', 'volume_set_id': 'ALOS2 SET', 'creation_datetime': "
  "'2020-10-11T17:23:37.980000', 'creation_country': 'JAPAN', 'creation_agency': 'JAXA', 'creation_facility': 'EICS', 'product_id': 'PRODUCT:WWDR1.5RUA', "
  "'product_creation': 'PROCESS:JAPAN-JAXA-ALOS2-EICS  20201011 172337', 'scene_id': 'ORBIT:ALOS2290760600-191011', 'scene_location_id': 'FRAME: 0600'})"],
 ['kw-missing',
  "RAISED builtins.FileNotFoundError(OSError>Exception) args=('Cannot open VOL',) str='Cannot open VOL' [cause=builtins.KeyError(LookupError>Exception) "
  'args=(\'VOL\',) str="\'VOL\'"; context=<cause>; suppress_context=True]'],
 ['noarg', 'RAISED builtins.TypeError(Exception)'],
 ['fsspec',
  'memory://product',
  'VOL-A',
  "RETURNED Group('/', None, dict{}, dict{'control_document_id': 'CEOS-SAR', 'control_document_revision_level': 'A', 'record_format_revision_level': 'A', "
  "'software_version': '001.001', 'physical_volume_id': 'ALOS2 PHYS', 'logical_volume_id': 'ALOS2 LOG', 'volume_set_id': 'ALOS2 SET', 'creation_datetime': "
  "'2020-10-11T17:23:37.980000', 'creation_country': 'JAPAN', 'creation_agency': 'JAXA', 'creation_facility': 'EICS', 'product_id': 'PRODUCT:WWDR1.5RUA', "
  "'product_creation': 'PROCESS:JAPAN-JAXA-ALOS2-EICS  20201011 172337', 'scene_id': 'ORBIT:ALOS2290760600-191011', 'scene_location_id': 'FRAME: 0600'})"],
 ['fsspec',
  'memory://product',
  'VOL-B',
  "RAISED builtins.FileNotFoundError(OSError>Exception) args=('Cannot open VOL-B',) str='Cannot open VOL-B' [cause=builtins.KeyError(LookupError>Exception) "
  'args=(\'VOL-B\',) str="\'VOL-B\'" [cause=builtins.FileNotFoundError(OSError>Exception) args=(\'/product/VOL-B\',) str=\'/product/VOL-B\' '
  '[cause=builtins.KeyError(LookupError>Exception) args=(\'/product/VOL-B\',) str="\'/product/VOL-B\'"; context=<cause>; suppress_context=True]; '
  'context=<cause>; suppress_context=True]; context=<cause>; suppress_context=True]'],
 ['fsspec',
  'memory://product',
  'sub/VOL-B',
  "RETURNED Group('/', None, dict{}, dict{'control_document_id': 'CEOS-SAR', 'control_document_revision_level': 'A', 'record_format_revision_level': 'A', "
  "'software_version': '001.001', 'physical_volume_id': 'ALOS2 PHYS', 'logical_volume_id': 'ALOS2 LOG', 'volume_set_id': 'ALOS2 SET', 'creation_datetime': "
  "'2020-10-11T17:23:37.980000', 'creation_country': 'JAPAN', 'creation_agency': 'JAXA', 'creation_facility': 'EICS', 'product_id': 'PRODUCT:WWDR1.5RUA', "
  "'product_creation': 'PROCESS:JAPAN-JAXA-ALOS2-EICS  20201011 172337', 'scene_id': 'ORBIT:ALOS2290760600-191011', 'scene_location_id': 'FRAME: 0600'})"],
 ['fsspec',
  'memory://product',
  '/VOL-A',
  "RAISED builtins.FileNotFoundError(OSError>Exception) args=('Cannot open /VOL-A',) str='Cannot open /VOL-A' [cause=builtins.KeyError(LookupError>Exception) "
  'args=(\'/VOL-A\',) str="\'/VOL-A\'" [cause=builtins.FileNotFoundError(OSError>Exception) args=(\'/product//VOL-A\',) str=\'/product//VOL-A\' '
  '[cause=builtins.KeyError(LookupError>Exception) args=(\'/product//VOL-A\',) str="\'/product//VOL-A\'"; context=<cause>; suppress_context=True]; '
  'context=<cause>; suppress_context=True]; context=<cause>; suppress_context=True]'],
 ['fsspec',
  'memory://product',
  'broken',
  "RAISED construct.core.StreamError(ConstructError>Exception) args=('Error in path (parsing) -> volume_descriptor -> "
  "file_number_in_the_logical_volume\\nstream read less than specified amount, expected 4, found 0',) str='Error in path (parsing) -> volume_descriptor -> "
  "file_number_in_the_logical_volume\\nstream read less than specified amount, expected 4, found 0'"],
 ['fsspec',
  'memory://product',
  'sub',
  "RAISED builtins.FileNotFoundError(OSError>Exception) args=('Cannot open sub',) str='Cannot open sub' [cause=builtins.KeyError(LookupError>Exception) "
  'args=(\'sub\',) str="\'sub\'" [cause=builtins.FileNotFoundError(OSError>Exception) args=(\'/product/sub\',) str=\'/product/sub\' '
  '[cause=builtins.KeyError(LookupError>Exception) args=(\'/product/sub\',) str="\'/product/sub\'"; context=<cause>; suppress_context=True]; context=<cause>; '
  'suppress_context=True]; context=<cause>; suppress_context=True]'],
 ['fsspec',
  'memory://product',
  '',
  "RAISED builtins.FileNotFoundError(OSError>Exception) args=('Cannot open ',) str='Cannot open ' [cause=builtins.KeyError(LookupError>Exception) args=('',) "
  'str="\'\'" [cause=builtins.FileNotFoundError(OSError>Exception) args=(\'/product\',) str=\'/product\' [cause=builtins.KeyError(LookupError>Exception) '
  'args=(\'/product\',) str="\'/product\'"; context=<cause>; suppress_context=True]; context=<cause>; suppress_context=True]; context=<cause>; '
  'suppress_context=True]'],
 ['fsspec',
  'memory://product',
  'missing',
  "RAISED builtins.FileNotFoundError(OSError>Exception) args=('Cannot open missing',) str='Cannot open missing' "
  '[cause=builtins.KeyError(LookupError>Exception) args=(\'missing\',) str="\'missing\'" [cause=builtins.FileNotFoundError(OSError>Exception) '
  "args=('/product/missing',) str='/product/missing' [cause=builtins.KeyError(LookupError>Exception) args=('/product/missing',) "
  'str="\'/product/missing\'"; context=<cause>; suppress_context=True]; context=<cause>; suppress_context=True]; context=<cause>; suppress_context=True]'],
 ['fsspec',
  'memory://product',
  '../product/VOL-A',
  "RAISED builtins.FileNotFoundError(OSError>Exception) args=('Cannot open ../product/VOL-A',) str='Cannot open ../product/VOL-A' "
  '[cause=builtins.KeyError(LookupError>Exception) args=(\'../product/VOL-A\',) str="\'../product/VOL-A\'" '
  "[cause=builtins.FileNotFoundError(OSError>Exception) args=('/product/../product/VOL-A',) str='/product/../product/VOL-A' "
  '[cause=builtins.KeyError(LookupError>Exception) args=(\'/product/../product/VOL-A\',) str="\'/product/../product/VOL-A\'"; context=<cause>; '
  'suppress_context=True]; context=<cause>; suppress_context=True]; context=<cause>; suppress_context=True]'],
 ['fsspec',
  'memory:///product/',
  'VOL-A',
  "RETURNED Group('/', None, dict{}, dict{'control_document_id': 'CEOS-SAR', 'control_document_revision_level': 'A', 'record_format_revision_level': 'A', "
  "'software_version': '001.001', 'physical_volume_id': 'ALOS2 PHYS', 'logical_volume_id': 'ALOS2 LOG', 'volume_set_id': 'ALOS2 SET', 'creation_datetime': "
  "'2020-10-11T17:23:37.980000', 'creation_country': 'JAPAN', 'creation_agency': 'JAXA', 'creation_facility': 'EICS', 'product_id': 'PRODUCT:WWDR1.5RUA', "
  "'product_creation': 'PROCESS:JAPAN-JAXA-ALOS2-EICS  20201011 172337', 'scene_id': 'ORBIT:ALOS2290760600-191011', 'scene_location_id': 'FRAME: 0600'})"],
 ['fsspec',
  'memory:///product/',
  'VOL-B',
  "RAISED builtins.FileNotFoundError(OSError>Exception) args=('Cannot open VOL-B',) str='Cannot open VOL-B' [cause=builtins.KeyError(LookupError>Exception) "
  'args=(\'VOL-B\',) str="\'VOL-B\'" [cause=builtins.FileNotFoundError(OSError>Exception) args=(\'/product/VOL-B\',) str=\'/product/VOL-B\' '
  '[cause=builtins.KeyError(LookupError>Exception) args=(\'/product/VOL-B\',) str="\'/product/VOL-B\'"; context=<cause>; suppress_context=True]; '
  'context=<cause>; suppress_context=True]; context=<cause>; suppress_context=True]'],
 ['fsspec',
  'memory:///product/',
  'sub/VOL-B',
  "RETURNED Group('/', None, dict{}, dict{'control_document_id': 'CEOS-SAR', 'control_document_revision_level': 'A', 'record_format_revision_level': 'A', "
  "'software_version': '001.001', 'physical_volume_id': 'ALOS2 PHYS', 'logical_volume_id': 'ALOS2 LOG', 'volume_set_id': 'ALOS2 SET', 'creation_datetime': "
  "'2020-10-11T17:23:37.980000', 'creation_country': 'JAPAN', 'creation_agency': 'JAXA', 'creation_facility': 'EICS', 'product_id': 'PRODUCT:WWDR1.5RUA', "
  "'product_creation': 'PROCESS:JAPAN-JAXA-ALOS2-EICS  20201011 172337', 'scene_id': 'ORBIT:ALOS2290760600-191011', 'scene_location_id': 'FRAME: 0600'})"],
 ['fsspec',
  'memory:///product/',
  '/VOL-A',
  "RAISED builtins.FileNotFoundError(OSError>Exception) args=('Cannot open /VOL-A',) str='Cannot open /VOL-A' [cause=builtins.KeyError(LookupError>Exception) "
  'args=(\'/VOL-A\',) str="\'/VOL-A\'" [cause=builtins.FileNotFoundError(OSError>Exception) args=(\'/product//VOL-A\',) str=\'/product//VOL-A\' '
  '[cause=builtins.KeyError(LookupError>Exception) args=(\'/product//VOL-A\',) str="\'/product//VOL-A\'"; context=<cause>; suppress_context=True]; '
  'context=<cause>; suppress_context=True]; context=<cause>; suppress_context=True]'],
 ['fsspec',
  'memory:///product/',
  'broken',
  "RAISED construct.core.StreamError(ConstructError>Exception) args=('Error in path (parsing) -> volume_descriptor -> "
  "file_number_in_the_logical_volume\\nstream read less than specified amount, expected 4, found 0',) str='Error in path (parsing) -> volume_descriptor -> "
  "file_number_in_the_logical_volume\\nstream read less than specified amount, expected 4, found 0'"],
 ['fsspec',
  'memory:///product/',
  'sub',
  "RAISED builtins.FileNotFoundError(OSError>Exception) args=('Cannot open sub',) str='Cannot open sub' [cause=builtins.KeyError(LookupError>Exception) "
  'args=(\'sub\',) str="\'sub\'" [cause=builtins.FileNotFoundError(OSError>Exception) args=(\'/product/sub\',) str=\'/product/sub\' '
  '[cause=builtins.KeyError(LookupError>Exception) args=(\'/product/sub\',) str="\'/product/sub\'"; context=<cause>; suppress_context=True]; context=<cause>; '
  'suppress_context=True]; context=<cause>; suppress_context=True]'],
 ['fsspec',
  'memory:///product/',
  '',
  "RAISED builtins.FileNotFoundError(OSError>Exception) args=('Cannot open ',) str='Cannot open ' [cause=builtins.KeyError(LookupError>Exception) args=('',) "
  'str="\'\'" [cause=builtins.FileNotFoundError(OSError>Exception) args=(\'/product\',) str=\'/product\' [cause=builtins.KeyError(LookupError>Exception) '
  'args=(\'/product\',) str="\'/product\'"; context=<cause>; suppress_context=True]; context=<cause>; suppress_context=True]; context=<cause>; '
  'suppress_context=True]'],
 ['fsspec',
  'memory:///product/',
  'missing',
  "RAISED builtins.FileNotFoundError(OSError>Exception) args=('Cannot open missing',) str='Cannot open missing' "
  '[cause=builtins.KeyError(LookupError>Exception) args=(\'missing\',) str="\'missing\'" [cause=builtins.FileNotFoundError(OSError>Exception) '
  "args=('/product/missing',) str='/product/missing' [cause=builtins.KeyError(LookupError>Exception) args=('/product/missing',) "
  'str="\'/product/missing\'"; context=<cause>; suppress_context=True]; context=<cause>; suppress_context=True]; context=<cause>; suppress_context=True]'],
 ['fsspec',
  'memory:///product/',
  '../product/VOL-A',
  "RAISED builtins.FileNotFoundError(OSError>Exception) args=('Cannot open ../product/VOL-A',) str='Cannot open ../product/VOL-A' "
  '[cause=builtins.KeyError(LookupError>Exception) args=(\'../product/VOL-A\',) str="\'../product/VOL-A\'" '
  "[cause=builtins.FileNotFoundError(OSError>Exception) args=('/product/../product/VOL-A',) str='/product/../product/VOL-A' "
  '[cause=builtins.KeyError(LookupError>Exception) args=(\'/product/../product/VOL-A\',) str="\'/product/../product/VOL-A\'"; context=<cause>; '
  'suppress_context=True]; context=<cause>; suppress_context=True]; context=<cause>; suppress_context=True]'],
 ['fsspec',
  'memory://product/sub',
  'VOL-A',
  "RAISED builtins.FileNotFoundError(OSError>Exception) args=('Cannot open VOL-A',) str='Cannot open VOL-A' [cause=builtins.KeyError(LookupError>Exception) "
  'args=(\'VOL-A\',) str="\'VOL-A\'" [cause=builtins.FileNotFoundError(OSError>Exception) args=(\'/product/sub/VOL-A\',) str=\'/product/sub/VOL-A\' '
  '[cause=builtins.KeyError(LookupError>Exception) args=(\'/product/sub/VOL-A\',) str="\'/product/sub/VOL-A\'"; context=<cause>; suppress_context=True]; '
  'context=<cause>; suppress_context=True]; context=<cause>; suppress_context=True]'],
 ['fsspec',
  'memory://product/sub',
  'VOL-B',
  "RETURNED Group('/', None, dict{}, dict{'control_document_id': 'CEOS-SAR', 'control_document_revision_level': 'A', 'record_format_revision_level': 'A', "
  "'software_version': '001.001', 'physical_volume_id': 'ALOS2 PHYS', 'logical_volume_id': 'ALOS2 LOG', 'volume_set_id': 'ALOS2 SET', 'creation_datetime': "
  "'2020-10-11T17:23:37.980000', 'creation_country': 'JAPAN', 'creation_agency': 'JAXA', 'creation_facility': 'EICS', 'product_id': 'PRODUCT:WWDR1.5RUA', "
  "'product_creation': 'PROCESS:JAPAN-JAXA-ALOS2-EICS  20201011 172337', 'scene_id': 'ORBIT:ALOS2290760600-191011', 'scene_location_id': 'FRAME: 0600'})"],
 ['fsspec',
  'memory://product/sub',
  'sub/VOL-B',
  "RAISED builtins.FileNotFoundError(OSError>Exception) args=('Cannot open sub/VOL-B',) str='Cannot open sub/VOL-B' "
  '[cause=builtins.KeyError(LookupError>Exception) args=(\'sub/VOL-B\',) str="\'sub/VOL-B\'" [cause=builtins.FileNotFoundError(OSError>Exception) '
  "args=('/product/sub/sub/VOL-B',) str='/product/sub/sub/VOL-B' [cause=builtins.KeyError(LookupError>Exception) args=('/product/sub/sub/VOL-B',) "
  'str="\'/product/sub/sub/VOL-B\'"; context=<cause>; suppress_context=True]; context=<cause>; suppress_context=True]; context=<cause>; '
  'suppress_context=True]'],
 ['fsspec',
  'memory://product/sub',
  '/VOL-A',
  "RAISED builtins.FileNotFoundError(OSError>Exception) args=('Cannot open /VOL-A',) str='Cannot open /VOL-A' [cause=builtins.KeyError(LookupError>Exception) "
  'args=(\'/VOL-A\',) str="\'/VOL-A\'" [cause=builtins.FileNotFoundError(OSError>Exception) args=(\'/product/sub//VOL-A\',) str=\'/product/sub//VOL-A\' '
  '[cause=builtins.KeyError(LookupError>Exception) args=(\'/product/sub//VOL-A\',) str="\'/product/sub//VOL-A\'"; context=<cause>; suppress_context=True]; '
  'context=<cause>; suppress_context=True]; context=<cause>; suppress_context=True]'],
 ['fsspec',
  'memory://product/sub',
  'broken',
  "RAISED builtins.FileNotFoundError(OSError>Exception) args=('Cannot open broken',) str='Cannot open broken' [cause=builtins.KeyError(LookupError>Exception) "
  'args=(\'broken\',) str="\'broken\'" [cause=builtins.FileNotFoundError(OSError>Exception) args=(\'/product/sub/broken\',) str=\'/product/sub/broken\' '
  '[cause=builtins.KeyError(LookupError>Exception) args=(\'/product/sub/broken\',) str="\'/product/sub/broken\'"; context=<cause>; suppress_context=True]; '
  'context=<cause>; suppress_context=True]; context=<cause>; suppress_context=True]'],
 ['fsspec',
  'memory://product/sub',
  'sub',
  "RAISED builtins.FileNotFoundError(OSError>Exception) args=('Cannot open sub',) str='Cannot open sub' [cause=builtins.KeyError(LookupError>Exception) "
  'args=(\'sub\',) str="\'sub\'" [cause=builtins.FileNotFoundError(OSError>Exception) args=(\'/product/sub/sub\',) str=\'/product/sub/sub\' '
  '[cause=builtins.KeyError(LookupError>Exception) args=(\'/product/sub/sub\',) str="\'/product/sub/sub\'"; context=<cause>; suppress_context=True]; '
  'context=<cause>; suppress_context=True]; context=<cause>; suppress_context=True]'],
 ['fsspec',
  'memory://product/sub',
  '',
  "RAISED builtins.FileNotFoundError(OSError>Exception) args=('Cannot open ',) str='Cannot open ' [cause=builtins.KeyError(LookupError>Exception) args=('',) "
  'str="\'\'" [cause=builtins.FileNotFoundError(OSError>Exception) args=(\'/product/sub\',) str=\'/product/sub\' '
  '[cause=builtins.KeyError(LookupError>Exception) args=(\'/product/sub\',) str="\'/product/sub\'"; context=<cause>; suppress_context=True]; context=<cause>; '
  'suppress_context=True]; context=<cause>; suppress_context=True]'],
 ['fsspec',
  'memory://product/sub',
  'missing',
  "RAISED builtins.FileNotFoundError(OSError>Exception) args=('Cannot open missing',) str='Cannot open missing' "
  '[cause=builtins.KeyError(LookupError>Exception) args=(\'missing\',) str="\'missing\'" [cause=builtins.FileNotFoundError(OSError>Exception) '
  "args=('/product/sub/missing',) str='/product/sub/missing' [cause=builtins.KeyError(LookupError>Exception) args=('/product/sub/missing',) "
  'str="\'/product/sub/missing\'"; context=<cause>; suppress_context=True]; context=<cause>; suppress_context=True]; context=<cause>; suppress_context=True]'],
 ['fsspec',
  'memory://product/sub',
  '../product/VOL-A',
  "RAISED builtins.FileNotFoundError(OSError>Exception) args=('Cannot open ../product/VOL-A',) str='Cannot open ../product/VOL-A' "
  '[cause=builtins.KeyError(LookupError>Exception) args=(\'../product/VOL-A\',) str="\'../product/VOL-A\'" '
  "[cause=builtins.FileNotFoundError(OSError>Exception) args=('/product/sub/../product/VOL-A',) str='/product/sub/../product/VOL-A' "
  '[cause=builtins.KeyError(LookupError>Exception) args=(\'/product/sub/../product/VOL-A\',) str="\'/product/sub/../product/VOL-A\'"; context=<cause>; '
  'suppress_context=True]; context=<cause>; suppress_context=True]; context=<cause>; suppress_context=True]'],
 ['fsspec',
  'memory://elsewhere',
  'VOL-A',
  "RAISED builtins.FileNotFoundError(OSError>Exception) args=('Cannot open VOL-A',) str='Cannot open VOL-A' [cause=builtins.KeyError(LookupError>Exception) "
  'args=(\'VOL-A\',) str="\'VOL-A\'" [cause=builtins.FileNotFoundError(OSError>Exception) args=(\'/elsewhere/VOL-A\',) str=\'/elsewhere/VOL-A\' '
  '[cause=builtins.KeyError(LookupError>Exception) args=(\'/elsewhere/VOL-A\',) str="\'/elsewhere/VOL-A\'"; context=<cause>; suppress_context=True]; '
  'context=<cause>; suppress_context=True]; context=<cause>; suppress_context=True]'],
 ['fsspec',
  'memory://elsewhere',
  'VOL-B',
  "RAISED builtins.FileNotFoundError(OSError>Exception) args=('Cannot open VOL-B',) str='Cannot open VOL-B' [cause=builtins.KeyError(LookupError>Exception) "
  'args=(\'VOL-B\',) str="\'VOL-B\'" [cause=builtins.FileNotFoundError(OSError>Exception) args=(\'/elsewhere/VOL-B\',) str=\'/elsewhere/VOL-B\' '
  '[cause=builtins.KeyError(LookupError>Exception) args=(\'/elsewhere/VOL-B\',) str="\'/elsewhere/VOL-B\'"; context=<cause>; suppress_context=True]; '
  'context=<cause>; suppress_context=True]; context=<cause>; suppress_context=True]'],
 ['fsspec',
  'memory://elsewhere',
  'sub/VOL-B',
  "RAISED builtins.FileNotFoundError(OSError>Exception) args=('Cannot open sub/VOL-B',) str='Cannot open sub/VOL-B' "
  '[cause=builtins.KeyError(LookupError>Exception) args=(\'sub/VOL-B\',) str="\'sub/VOL-B\'" [cause=builtins.FileNotFoundError(OSError>Exception) '
  "args=('/elsewhere/sub/VOL-B',) str='/elsewhere/sub/VOL-B' [cause=builtins.KeyError(LookupError>Exception) args=('/elsewhere/sub/VOL-B',) "
  'str="\'/elsewhere/sub/VOL-B\'"; context=<cause>; suppress_context=True]; context=<cause>; suppress_context=True]; context=<cause>; suppress_context=True]'],
 ['fsspec',
  'memory://elsewhere',
  '/VOL-A',
  "RAISED builtins.FileNotFoundError(OSError>Exception) args=('Cannot open /VOL-A',) str='Cannot open /VOL-A' [cause=builtins.KeyError(LookupError>Exception) "
  'args=(\'/VOL-A\',) str="\'/VOL-A\'" [cause=builtins.FileNotFoundError(OSError>Exception) args=(\'/elsewhere//VOL-A\',) str=\'/elsewhere//VOL-A\' '
  '[cause=builtins.KeyError(LookupError>Exception) args=(\'/elsewhere//VOL-A\',) str="\'/elsewhere//VOL-A\'"; context=<cause>; suppress_context=True]; '
  'context=<cause>; suppress_context=True]; context=<cause>; suppress_context=True]'],
 ['fsspec',
  'memory://elsewhere',
  'broken',
  "RAISED builtins.FileNotFoundError(OSError>Exception) args=('Cannot open broken',) str='Cannot open broken' [cause=builtins.KeyError(LookupError>Exception) "
  'args=(\'broken\',) str="\'broken\'" [cause=builtins.FileNotFoundError(OSError>Exception) args=(\'/elsewhere/broken\',) str=\'/elsewhere/broken\' '
  '[cause=builtins.KeyError(LookupError>Exception) args=(\'/elsewhere/broken\',) str="\'/elsewhere/broken\'"; context=<cause>; suppress_context=True]; '
  'context=<cause>; suppress_context=True]; context=<cause>; suppress_context=True]'],
 ['fsspec',
  'memory://elsewhere',
  'sub',
  "RAISED builtins.FileNotFoundError(OSError>Exception) args=('Cannot open sub',) str='Cannot open sub' [cause=builtins.KeyError(LookupError>Exception) "
  'args=(\'sub\',) str="\'sub\'" [cause=builtins.FileNotFoundError(OSError>Exception) args=(\'/elsewhere/sub\',) str=\'/elsewhere/sub\' '
  '[cause=builtins.KeyError(LookupError>Exception) args=(\'/elsewhere/sub\',) str="\'/elsewhere/sub\'"; context=<cause>; suppress_context=True]; '
  'context=<cause>; suppress_context=True]; context=<cause>; suppress_context=True]'],
 ['fsspec',
  'memory://elsewhere',
  '',
  "RAISED builtins.FileNotFoundError(OSError>Exception) args=('Cannot open ',) str='Cannot open ' [cause=builtins.KeyError(LookupError>Exception) args=('',) "
  'str="\'\'" [cause=builtins.FileNotFoundError(OSError>Exception) args=(\'/elsewhere\',) str=\'/elsewhere\' [cause=builtins.KeyError(LookupError>Exception) '
  'args=(\'/elsewhere\',) str="\'/elsewhere\'"; context=<cause>; suppress_context=True]; context=<cause>; suppress_context=True]; context=<cause>; '
  'suppress_context=True]'],
 ['fsspec',
  'memory://elsewhere',
  'missing',
  "RAISED builtins.FileNotFoundError(OSError>Exception) args=('Cannot open missing',) str='Cannot open missing' "
  '[cause=builtins.KeyError(LookupError>Exception) args=(\'missing\',) str="\'missing\'" [cause=builtins.FileNotFoundError(OSError>Exception) '
  "args=('/elsewhere/missing',) str='/elsewhere/missing' [cause=builtins.KeyError(LookupError>Exception) args=('/elsewhere/missing',) "
  'str="\'/elsewhere/missing\'"; context=<cause>; suppress_context=True]; context=<cause>; suppress_context=True]; context=<cause>; suppress_context=True]'],
 ['fsspec',
  'memory://elsewhere',
  '../product/VOL-A',
  "RAISED builtins.FileNotFoundError(OSError>Exception) args=('Cannot open ../product/VOL-A',) str='Cannot open ../product/VOL-A' "
  '[cause=builtins.KeyError(LookupError>Exception) args=(\'../product/VOL-A\',) str="\'../product/VOL-A\'" '
  "[cause=builtins.FileNotFoundError(OSError>Exception) args=('/elsewhere/../product/VOL-A',) str='/elsewhere/../product/VOL-A' "
  '[cause=builtins.KeyError(LookupError>Exception) args=(\'/elsewhere/../product/VOL-A\',) str="\'/elsewhere/../product/VOL-A\'"; context=<cause>; '
  'suppress_context=True]; context=<cause>; suppress_context=True]; context=<cause>; suppress_context=True]'],
 ['fsspec-strict',
  "RAISED builtins.FileNotFoundError(OSError>Exception) args=('/product/missing',) str='/product/missing' [cause=builtins.KeyError(LookupError>Exception) "
  'args=(\'/product/missing\',) str="\'/product/missing\'"; context=<cause>; suppress_context=True]'],
 ['fsspec-strict',
  "RETURNED Group('/', None, dict{}, dict{'control_document_id': 'CEOS-SAR', 'control_document_revision_level': 'A', 'record_format_revision_level': 'A', "
  "'software_version': '001.001', 'physical_volume_id': 'ALOS2 PHYS', 'logical_volume_id': 'ALOS2 LOG', 'volume_set_id': 'ALOS2 SET', 'creation_datetime': "
  "'2020-10-11T17:23:37.980000', 'creation_country': 'JAPAN', 'creation_agency': 'JAXA', 'creation_facility': 'EICS', 'product_id': 'PRODUCT:WWDR1.5RUA', "
  "'product_creation': 'PROCESS:JAPAN-JAXA-ALOS2-EICS  20201011 172337', 'scene_id': 'ORBIT:ALOS2290760600-191011', 'scene_location_id': 'FRAME: 0600'})"],
 ['mapper-raises',
  'builtins.KeyError(LookupError>Exception) args=(\'VOL\',) str="\'VOL\'"',
  "RAISED builtins.FileNotFoundError(OSError>Exception) args=('Cannot open VOL',) str='Cannot open VOL' [cause=builtins.KeyError(LookupError>Exception) "
  'args=(\'VOL\',) str="\'VOL\'"; context=<cause>; suppress_context=True]',
  [('getitem', 'VOL')]],
 ['mapper-raises',
  "builtins.KeyError(LookupError>Exception) args=() str=''",
  "RAISED builtins.FileNotFoundError(OSError>Exception) args=('Cannot open VOL',) str='Cannot open VOL' [cause=builtins.KeyError(LookupError>Exception) "
  "args=() str=''; context=<cause>; suppress_context=True]",
  [('getitem', 'VOL')]],
 ['mapper-raises',
  'builtins.KeyError(LookupError>Exception) args=(\'a\', \'b\') str="(\'a\', \'b\')"',
  "RAISED builtins.FileNotFoundError(OSError>Exception) args=('Cannot open VOL',) str='Cannot open VOL' [cause=builtins.KeyError(LookupError>Exception) "
  'args=(\'a\', \'b\') str="(\'a\', \'b\')"; context=<cause>; suppress_context=True]',
  [('getitem', 'VOL')]],
 ['mapper-raises',
  '<equiv>.MissingFile(KeyError>LookupError>Exception) args=(\'VOL\',) str="\'VOL\'"',
  "RAISED builtins.FileNotFoundError(OSError>Exception) args=('Cannot open VOL',) str='Cannot open VOL' "
  '[cause=<equiv>.MissingFile(KeyError>LookupError>Exception) args=(\'VOL\',) str="\'VOL\'"; context=<cause>; suppress_context=True]',
  [('getitem', 'VOL')]],
 ['mapper-raises',
  "builtins.LookupError(Exception) args=('VOL',) str='VOL'",
  "RAISED builtins.LookupError(Exception) args=('VOL',) str='VOL'",
  [('getitem', 'VOL')]],
 ['mapper-raises',
  "builtins.IndexError(LookupError>Exception) args=('VOL',) str='VOL'",
  "RAISED builtins.IndexError(LookupError>Exception) args=('VOL',) str='VOL'",
  [('getitem', 'VOL')]],
 ['mapper-raises',
  "builtins.FileNotFoundError(OSError>Exception) args=('VOL',) str='VOL'",
  "RAISED builtins.FileNotFoundError(OSError>Exception) args=('VOL',) str='VOL'",
  [('getitem', 'VOL')]],
 ['mapper-raises',
  'builtins.FileNotFoundError(OSError>Exception) args=(2, \'No such file\') str="[Errno 2] No such file: \'VOL\'"',
  'RAISED builtins.FileNotFoundError(OSError>Exception) args=(2, \'No such file\') str="[Errno 2] No such file: \'VOL\'"',
  [('getitem', 'VOL')]],
 ['mapper-raises',
  "builtins.PermissionError(OSError>Exception) args=('denied',) str='denied'",
  "RAISED builtins.PermissionError(OSError>Exception) args=('denied',) str='denied'",
  [('getitem', 'VOL')]],
 ['mapper-raises', "builtins.OSError(Exception) args=('io',) str='io'", "RAISED builtins.OSError(Exception) args=('io',) str='io'", [('getitem', 'VOL')]],
 ['mapper-raises',
  "builtins.ValueError(Exception) args=('value',) str='value'",
  "RAISED builtins.ValueError(Exception) args=('value',) str='value'",
  [('getitem', 'VOL')]],
 ['mapper-raises',
  "builtins.TypeError(Exception) args=('type',) str='type'",
  "RAISED builtins.TypeError(Exception) args=('type',) str='type'",
  [('getitem', 'VOL')]],
 ['mapper-raises',
  "builtins.RuntimeError(Exception) args=('runtime',) str='runtime'",
  "RAISED builtins.RuntimeError(Exception) args=('runtime',) str='runtime'",
  [('getitem', 'VOL')]],
 ['mapper-raises',
  "builtins.RuntimeError(Exception) args=('generator raised StopIteration',) str='generator raised StopIteration'",
  "RAISED builtins.RuntimeError(Exception) args=('generator raised StopIteration',) str='generator raised StopIteration'",
  [('getitem', 'VOL')]],
 ['mapper-raises', "builtins.StopIteration(Exception) args=() str=''", "RAISED builtins.StopIteration(Exception) args=() str=''", [('getitem', 'VOL')]],
 ['mapper-raises',
  "builtins.StopIteration(Exception) args=('value',) str='value'",
  "RAISED builtins.StopIteration(Exception) args=('value',) str='value'",
  [('getitem', 'VOL')]],
 ['mapper-raises',
  "builtins.StopAsyncIteration(Exception) args=() str=''",
  "RAISED builtins.StopAsyncIteration(Exception) args=() str=''",
  [('getitem', 'VOL')]],
 ['mapper-raises', "builtins.GeneratorExit() args=() str=''", "RAISED builtins.GeneratorExit() args=() str=''", [('getitem', 'VOL')]],
 ['mapper-raises', "builtins.KeyboardInterrupt() args=() str=''", "RAISED builtins.KeyboardInterrupt() args=() str=''", [('getitem', 'VOL')]],
 ['mapper-raises', "builtins.SystemExit() args=(2,) str='2'", "RAISED builtins.SystemExit() args=(2,) str='2'", [('getitem', 'VOL')]],
 ['mapper-raises',
  "builtins.AssertionError(Exception) args=('assert',) str='assert'",
  "RAISED builtins.AssertionError(Exception) args=('assert',) str='assert'",
  [('getitem', 'VOL')]],
 ['mapper-raises', "builtins.MemoryError(Exception) args=() str=''", "RAISED builtins.MemoryError(Exception) args=() str=''", [('getitem', 'VOL')]],
 ['mapper-raises-chained',
  "RAISED builtins.FileNotFoundError(OSError>Exception) args=('Cannot open VOL',) str='Cannot open VOL' [cause=builtins.KeyError(LookupError>Exception) "
  'args=(\'chained\',) str="\'chained\'" [cause=builtins.OSError(Exception) args=(\'disk\',) str=\'disk\'; context=<cause>; suppress_context=True]; '
  'context=<cause>; suppress_context=True]'],
 ['while-handling-missing',
  "RAISED builtins.FileNotFoundError(OSError>Exception) args=('Cannot open VOL',) str='Cannot open VOL' [cause=builtins.KeyError(LookupError>Exception) "
  'args=(\'VOL\',) str="\'VOL\'" [cause=None; context=builtins.ZeroDivisionError(ArithmeticError>Exception) args=(\'outer\',) str=\'outer\'; '
  'suppress_context=False]; context=<cause>; suppress_context=True]'],
 ['while-handling-present',
  "RETURNED Group('/', None, dict{}, dict{'control_document_id': 'CEOS-SAR', 'control_document_revision_level': 'A', 'record_format_revision_level': 'A', "
  "'software_version': '001.001', 'physical_volume_id': 'ALOS2 PHYS', 'logical_volume_id': 'ALOS2 LOG', 'volume_set_id': 'ALOS2 SET', 'creation_datetime': "
  "'2020-10-11T17:23:37.980000', 'creation_country': 'JAPAN', 'creation_agency': 'JAXA', 'creation_facility': 'EICS', 'product_id': 'PRODUCT:WWDR1.5RUA', "
  "'product_creation': 'PROCESS:JAPAN-JAXA-ALOS2-EICS  20201011 172337', 'scene_id': 'ORBIT:ALOS2290760600-191011', 'scene_location_id': 'FRAME: 0600'})"],
 ['while-handling-other',
  "RAISED builtins.OSError(Exception) args=('io',) str='io' [cause=None; context=builtins.ZeroDivisionError(ArithmeticError>Exception) args=('outer',) "
  "str='outer'; suppress_context=False]"],
 ['patched', "RETURNED 'transformed'", [('parse_data', "bytes:b'raw bytes'"), ('transform_record', "dict{'parsed': 1}")], [('getitem', 'VOL')]],
 ['patched-missing',
  "RAISED builtins.FileNotFoundError(OSError>Exception) args=('Cannot open VOL',) str='Cannot open VOL' [cause=builtins.KeyError(LookupError>Exception) "
  'args=(\'VOL\',) str="\'VOL\'"; context=<cause>; suppress_context=True]',
  [],
  [('getitem', 'VOL'), ('getitem', 'VOL')]],
 ['patched',
  'RAISED builtins.KeyError(LookupError>Exception) args=(\'from parse_data\',) str="\'from parse_data\'"',
  [('parse_data', "bytes:b'raw bytes'")],
  [('getitem', 'VOL')]],
 ['patched-missing',
  "RAISED builtins.FileNotFoundError(OSError>Exception) args=('Cannot open VOL',) str='Cannot open VOL' [cause=builtins.KeyError(LookupError>Exception) "
  'args=(\'VOL\',) str="\'VOL\'"; context=<cause>; suppress_context=True]',
  [],
  [('getitem', 'VOL'), ('getitem', 'VOL')]],
 ['patched',
  'RAISED builtins.KeyError(LookupError>Exception) args=(\'from transform_record\',) str="\'from transform_record\'"',
  [('parse_data', "bytes:b'raw bytes'"), ('transform_record', "dict{'parsed': 1}")],
  [('getitem', 'VOL')]],
 ['patched-missing',
  "RAISED builtins.FileNotFoundError(OSError>Exception) args=('Cannot open VOL',) str='Cannot open VOL' [cause=builtins.KeyError(LookupError>Exception) "
  'args=(\'VOL\',) str="\'VOL\'"; context=<cause>; suppress_context=True]',
  [],
  [('getitem', 'VOL'), ('getitem', 'VOL')]],
 ['patched',
  "RAISED builtins.FileNotFoundError(OSError>Exception) args=('from parse_data',) str='from parse_data'",
  [('parse_data', "bytes:b'raw bytes'")],
  [('getitem', 'VOL')]],
 ['patched-missing',
  "RAISED builtins.FileNotFoundError(OSError>Exception) args=('Cannot open VOL',) str='Cannot open VOL' [cause=builtins.KeyError(LookupError>Exception) "
  'args=(\'VOL\',) str="\'VOL\'"; context=<cause>; suppress_context=True]',
  [],
  [('getitem', 'VOL'), ('getitem', 'VOL')]],
 ['patched', 'RETURNED None', [('parse_data', "bytes:b'raw bytes'"), ('transform_record', 'None')], [('getitem', 'VOL')]],
 ['patched-missing',
  "RAISED builtins.FileNotFoundError(OSError>Exception) args=('Cannot open VOL',) str='Cannot open VOL' [cause=builtins.KeyError(LookupError>Exception) "
  'args=(\'VOL\',) str="\'VOL\'"; context=<cause>; suppress_context=True]',
  [],
  [('getitem', 'VOL'), ('getitem', 'VOL')]],
 ['patched-to_dict', "RETURNED Group('/', None, dict{}, dict{'a': 1, 'b': 2})", [('to_dict', 'Container')]],
 ['patched-to_dict',
  "RETURNED dict{'volume_descriptor': dict{'a': 1}, 'text_record': dict{'b': 2}, 'file_descriptors': list[]}",
  [('to_dict', 'Container'), ('to_dict', 'Container')]],
 ['parse_data',
  'good-4',
  "RETURNED dict{'volume_descriptor': dict{'preamble': dict{'record_sequence_number': 1, 'first_record_subtype': 192, 'record_type': 192, "
  "'second_record_subtype': 18, 'third_record_subtype': 18, 'record_length': 360}, 'ascii_ebcdic_flag': 'A', 'blanks': '', "
  "'superstructure_format_control_document_id': 'CEOS-SAR', 'superstructure_format_control_document_revision_level': 'A', "
  "'superstructure_record_format_revision_level': 'A', 'software_release_and_revision_level': '001.001', 'physical_volume_id': 'ALOS2 PHYS', "
  "'logical_volume_id': 'ALOS2 LOG', 'volume_set_id': 'ALOS2 SET', 'total_number_of_physical_volumes_in_logical_volume': 1, "
  "'physical_volume_sequence_number_of_the_first_tape': 1, 'physical_volume_sequence_number_of_the_last_tape': 1, "
  "'physical_volume_sequence_number_of_the_current_tape': 1, 'file_number_in_the_logical_volume': 1, 'logical_volume_within_a_volume_set': 1, "
  "'logical_volume_number_within_physical_volume': 1, 'logical_volume_creation_datetime': '2020101117233798', 'logical_volume_generation_country': 'JAPAN', "
  "'logical_volume_generating_agency': 'JAXA', 'logical_volume_generating_facility': 'EICS', 'number_of_file_pointer_records': 4, "
  "'number_of_text_records_in_volume_directory': 1, 'spare': '', 'local_use_segment': ''}, 'file_descriptors': list[dict{'preamble': "
  "dict{'record_sequence_number': 1, 'first_record_subtype': 192, 'record_type': 192, 'second_record_subtype': 18, 'third_record_subtype': 18, "
  "'record_length': 360}, 'ascii_ebcdic_flag': 'A', 'blanks': '', 'referenced_file_number': 1, 'referenced_file_name_id': 'FILE1', 'referenced_file_class': "
  "'SARLEADER FILE', 'referenced_file_class_code': 'SARL', 'referenced_file_data_type': 'MIXED BINARY AND ASCII', 'referenced_file_data_type_code': 'MBAA', "
  "'number_of_records_in_referenced_file': 11, 'length_of_the_first_record_in_referenced_file': 720, 'maximum_record_length_in_referenced_file': 4680, "
  "'referenced_file_record_length_type': 'VARIABLE LEN', 'referenced_file_record_length_type_code': 'VARE', "
  "'number_of_the_physical_volume_set_containing_the_first_record_of_the_file': 1, 'number_of_the_physical_volume_set_containing_the_last_record_of_the_file': "
  "1, 'record_number_of_the_first_record_appearing_on_this_physical_volume': 1, 'record_number_of_the_last_record_appearing_on_this_physical_volume': 11, "
  "'spare': '', 'local_use_segment': ''}, dict{'preamble': dict{'record_sequence_number': 1, 'first_record_subtype': 192, 'record_type': 192, "
  "'second_record_subtype': 18, 'third_record_subtype': 18, 'record_length': 360}, 'ascii_ebcdic_flag': 'A', 'blanks': '', 'referenced_file_number': 2, "
  "'referenced_file_name_id': 'FILE2', 'referenced_file_class': 'SARLEADER FILE', 'referenced_file_class_code': 'SARL', 'referenced_file_data_type': 'MIXED "
  "BINARY AND ASCII', 'referenced_file_data_type_code': 'MBAA', 'number_of_records_in_referenced_file': 12, 'length_of_the_first_record_in_referenced_file': "
  "720, 'maximum_record_length_in_referenced_file': 4680, 'referenced_file_record_length_type': 'VARIABLE LEN', 'referenced_file_record_length_type_code': "
  "'VARE', 'number_of_the_physical_volume_set_containing_the_first_record_of_the_file': 1, "
  "'number_of_the_physical_volume_set_containing_the_last_record_of_the_file': 1, 'record_number_of_the_first_record_appearing_on_this_physical_volume': 1, "
  "'record_number_of_the_last_record_appearing_on_this_physical_volume': 12, 'spare': '', 'local_use_segment': ''}, dict{'preamble': "
  "dict{'record_sequence_number': 1, 'first_record_subtype': 192, 'record_type': 192, 'second_record_subtype': 18, 'third_record_subtype': 18, "
  "'record_length': 360}, 'ascii_ebcdic_flag': 'A', 'blanks': '', 'referenced_file_number': 3, 'referenced_file_name_id': 'FILE3', 'referenced_file_class': "
  "'SARLEADER FILE', 'referenced_file_class_code': 'SARL', 'referenced_file_data_type': 'MIXED BINARY AND ASCII', 'referenced_file_data_type_code': 'MBAA', "
  "'number_of_records_in_referenced_file': 13, 'length_of_the_first_record_in_referenced_file': 720, 'maximum_record_length_in_referenced_file': 4680, "
  "'referenced_file_record_length_type': 'VARIABLE LEN', 'referenced_file_record_length_type_code': 'VARE', "
  "'number_of_the_physical_volume_set_containing_the_first_record_of_the_file': 1, 'number_of_the_physical_volume_set_containing_the_last_record_of_the_file': "
  "1, 'record_number_of_the_first_record_appearing_on_this_physical_volume': 1, 'record_number_of_the_last_record_appearing_on_this_physical_volume': 13, "
  "'spare': '', 'local_use_segment': ''}, dict{'preamble': dict{'record_sequence_number': 1, 'first_record_subtype': 192, 'record_type': 192, "
  "'second_record_subtype': 18, 'third_record_subtype': 18, 'record_length': 360}, 'ascii_ebcdic_flag': 'A', 'blanks': '', 'referenced_file_number': 4, "
  "'referenced_file_name_id': 'FILE4', 'referenced_file_class': 'SARLEADER FILE', 'referenced_file_class_code': 'SARL', 'referenced_file_data_type': 'MIXED "
  "BINARY AND ASCII', 'referenced_file_data_type_code': 'MBAA', 'number_of_records_in_referenced_file': 14, 'length_of_the_first_record_in_referenced_file': "
  "720, 'maximum_record_length_in_referenced_file': 4680, 'referenced_file_record_length_type': 'VARIABLE LEN', 'referenced_file_record_length_type_code': "
  "'VARE', 'number_of_the_physical_volume_set_containing_the_first_record_of_the_file': 1, "
  "'number_of_the_physical_volume_set_containing_the_last_record_of_the_file': 1, 'record_number_of_the_first_record_appearing_on_this_physical_volume': 1, "
  "'record_number_of_the_last_record_appearing_on_this_physical_volume': 14, 'spare': '', 'local_use_segment': ''}], 'text_record': dict{'preamble': "
  "dict{'record_sequence_number': 1, 'first_record_subtype': 192, 'record_type': 192, 'second_record_subtype': 18, 'third_record_subtype': 18, "
  "'record_length': 360}, 'ascii_ebcdic_flag': 'A', 'blanks': '', 'product_id': 'PRODUCT:WWDR1.5RUA', 'location_and_datetime_of_product_creation': "
  "'PROCESS:JAPAN-JAXA-ALOS2-EICS  20201011 172337', 'physical_tape_id': 'TAPE ID:WWDR1.5RUA', 'scene_id': 'ORBIT:ALOS2290760600-191011', 'scene_location_id': "
  "'FRAME: 0600'}}"],
 ['parse_data',
  'good-0',
  "RETURNED dict{'volume_descriptor': dict{'preamble': dict{'record_sequence_number': 1, 'first_record_subtype': 192, 'record_type': 192, "
  "'second_record_subtype': 18, 'third_record_subtype': 18, 'record_length': 360}, 'ascii_ebcdic_flag': 'A', 'blanks': '', "
  "'superstructure_format_control_document_id': 'CEOS-SAR', 'superstructure_format_control_document_revision_level': 'A', "
  "'superstructure_record_format_revision_level': 'A', 'software_release_and_revision_level': '001.001', 'physical_volume_id': 'ALOS2 PHYS', "
  "'logical_volume_id': 'ALOS2 LOG', 'volume_set_id': 'ALOS2 SET', 'total_number_of_physical_volumes_in_logical_volume': 1, "
  "'physical_volume_sequence_number_of_the_first_tape': 1, 'physical_volume_sequence_number_of_the_last_tape': 1, "
  "'physical_volume_sequence_number_of_the_current_tape': 1, 'file_number_in_the_logical_volume': 1, 'logical_volume_within_a_volume_set': 1, "
  "'logical_volume_number_within_physical_volume': 1, 'logical_volume_creation_datetime': '2020101117233798', 'logical_volume_generation_country': 'JAPAN', "
  "'logical_volume_generating_agency': 'JAXA', 'logical_volume_generating_facility': 'EICS', 'number_of_file_pointer_records': 0, "
  "'number_of_text_records_in_volume_directory': 1, 'spare': '', 'local_use_segment': ''}, 'file_descriptors': list[], 'text_record': dict{'preamble': "
  "dict{'record_sequence_number': 1, 'first_record_subtype': 192, 'record_type': 192, 'second_record_subtype': 18, 'third_record_subtype': 18, "
  "'record_length': 360}, 'ascii_ebcdic_flag': 'A', 'blanks': '', 'product_id': 'PRODUCT:WWDR1.5RUA', 'location_and_datetime_of_product_creation': "
  "'PROCESS:JAPAN-JAXA-ALOS2-EICS  20201011 172337', 'physical_tape_id': 'TAPE ID:WWDR1.5RUA', 'scene_id': 'ORBIT:ALOS2290760600-191011', 'scene_location_id': "
  "'FRAME: 0600'}}"],
 ['parse_data',
  'truncated-text',
  "RAISED construct.core.StreamError(ConstructError>Exception) args=('Error in path (parsing) -> text_record -> blanks\\nstream read less than specified "
  "amount, expected 124, found 123',) str='Error in path (parsing) -> text_record -> blanks\\nstream read less than specified amount, expected 124, found "
  "123'"],
 ['parse_data',
  'bad-count',
  'RAISED builtins.ValueError(Exception) args=("invalid literal for int() with base 10: \'four\'",) str="invalid literal for int() with base 10: \'four\'"'],
 ['parse_data',
  'bad-datetime',
  "RETURNED dict{'volume_descriptor': dict{'preamble': dict{'record_sequence_number': 1, 'first_record_subtype': 192, 'record_type': 192, "
  "'second_record_subtype': 18, 'third_record_subtype': 18, 'record_length': 360}, 'ascii_ebcdic_flag': 'A', 'blanks': '', "
  "'superstructure_format_control_document_id': 'CEOS-SAR', 'superstructure_format_control_document_revision_level': 'A', "
  "'superstructure_record_format_revision_level': 'A', 'software_release_and_revision_level': '001.001', 'physical_volume_id': 'ALOS2 PHYS', "
  "'logical_volume_id': 'ALOS2 LOG', 'volume_set_id': 'ALOS2 SET', 'total_number_of_physical_volumes_in_logical_volume': 1, "
  "'physical_volume_sequence_number_of_the_first_tape': 1, 'physical_volume_sequence_number_of_the_last_tape': 1, "
  "'physical_volume_sequence_number_of_the_current_tape': 1, 'file_number_in_the_logical_volume': 1, 'logical_volume_within_a_volume_set': 1, "
  "'logical_volume_number_within_physical_volume': 1, 'logical_volume_creation_datetime': '20201311172337', 'logical_volume_generation_country': 'JAPAN', "
  "'logical_volume_generating_agency': 'JAXA', 'logical_volume_generating_facility': 'EICS', 'number_of_file_pointer_records': 1, "
  "'number_of_text_records_in_volume_directory': 1, 'spare': '', 'local_use_segment': ''}, 'file_descriptors': list[dict{'preamble': "
  "dict{'record_sequence_number': 1, 'first_record_subtype': 192, 'record_type': 192, 'second_record_subtype': 18, 'third_record_subtype': 18, "
  "'record_length': 360}, 'ascii_ebcdic_flag': 'A', 'blanks': '', 'referenced_file_number': 1, 'referenced_file_name_id': 'FILE1', 'referenced_file_class': "
  "'SARLEADER FILE', 'referenced_file_class_code': 'SARL', 'referenced_file_data_type': 'MIXED BINARY AND ASCII', 'referenced_file_data_type_code': 'MBAA', "
  "'number_of_records_in_referenced_file': 11, 'length_of_the_first_record_in_referenced_file': 720, 'maximum_record_length_in_referenced_file': 4680, "
  "'referenced_file_record_length_type': 'VARIABLE LEN', 'referenced_file_record_length_type_code': 'VARE', "
  "'number_of_the_physical_volume_set_containing_the_first_record_of_the_file': 1, 'number_of_the_physical_volume_set_containing_the_last_record_of_the_file': "
  "1, 'record_number_of_the_first_record_appearing_on_this_physical_volume': 1, 'record_number_of_the_last_record_appearing_on_this_physical_volume': 11, "
  "'spare': '', 'local_use_segment': ''}], 'text_record': dict{'preamble': dict{'record_sequence_number': 1, 'first_record_subtype': 192, 'record_type': 192, "
  "'second_record_subtype': 18, 'third_record_subtype': 18, 'record_length': 360}, 'ascii_ebcdic_flag': 'A', 'blanks': '', 'product_id': 'PRODUCT:WWDR1.5RUA', "
  "'location_and_datetime_of_product_creation': 'PROCESS:JAPAN-JAXA-ALOS2-EICS  20201011 172337', 'physical_tape_id': 'TAPE ID:WWDR1.5RUA', 'scene_id': "
  "'ORBIT:ALOS2290760600-191011', 'scene_location_id': 'FRAME: 0600'}}"],
 ['same-object', True],
 ['name', 'parse_data', True],
 ['name', 'open_volume_directory', True],
 ['name', 'to_dict', True],
 ['name', 'transform_record', True],
 ['name', 'volume_directory_record', True],
 ['function', 'ceos_alos2.volume_directory.io', 'open_volume_directory', ['mapper', 'path']]]
# EXPECTED-END


def normalize(entry):
    return [list(item) if isinstance(item, tuple) else item for item in entry]


def test_equivalence():
    observations = [normalize(entry) for entry in run()]

    assert len(observations) == len(EXPECTED), (len(observations), len(EXPECTED))
    for actual, expected in zip(observations, EXPECTED):
        assert actual == expected, f"\nactual:   {actual}\nexpected: {expected}"

    # literal spot checks on top of the recorded table
    group = io.open_volume_directory({"VOL": good}, "VOL")
    assert type(group) is Group and group.path == "/" and group.url is None and group.data == {}
    assert group.attrs == {
        "control_document_id": "CEOS-SAR",
        "control_document_revision_level": "A",
        "record_format_revision_level": "A",
        "software_version": "001.001",
        "physical_volume_id": "ALOS2 PHYS",
        "logical_volume_id": "ALOS2 LOG",
        "volume_set_id": "ALOS2 SET",
        "creation_datetime": "2020-10-11T17:23:37.980000",
        "creation_country": "JAPAN",
        "creation_agency": "JAXA",
        "creation_facility": "EICS",
        "product_id": "PRODUCT:WWDR1.5RUA",
        "product_creation": "PROCESS:JAPAN-JAXA-ALOS2-EICS  20201011 172337",
        "scene_id": "ORBIT:ALOS2290760600-191011",
        "scene_location_id": "FRAME: 0600",
    }
    assert list(group.attrs) == [
        "control_document_id", "control_document_revision_level", "record_format_revision_level",
        "software_version", "physical_volume_id", "logical_volume_id", "volume_set_id", "creation_datetime",
        "creation_country", "creation_agency", "creation_facility", "product_id", "product_creation",
        "scene_id", "scene_location_id",
    ]

    try:
        io.open_volume_directory({}, "VOL-X")
    except FileNotFoundError as e:
        assert type(e) is FileNotFoundError and e.args == ("Cannot open VOL-X",)
        assert e.errno is None and e.filename is None
        assert type(e.__cause__) is KeyError and e.__cause__.args == ("VOL-X",)
        assert e.__context__ is e.__cause__ and e.__suppress_context__ is True
        assert e.__cause__.__cause__ is None and e.__cause__.__context__ is None
    else:
        raise AssertionError("did not raise")

    error = OSError("io")
    try:
        io.open_volume_directory(RaisingMapper(error, []), "VOL")
    except OSError as e:
        assert e is error and e.__cause__ is None and e.__context__ is None
    else:
        raise AssertionError("did not raise")

    stop = StopIteration("value")
    try:
        io.open_volume_directory(RaisingMapper(stop, []), "VOL")
    except StopIteration as e:
        assert e is stop and e.__cause__ is None
    else:
        raise AssertionError("did not raise")


if __name__ == "__main__":
    if "--record" in sys.argv:
        print("EXPECTED = " + pprint.pformat([normalize(entry) for entry in run()], width=160))
    else:
        test_equivalence()
        print("OK", len(EXPECTED), "observations")
