"""Equivalence check for refactoring 1 (ceos_alos2/utils.py).

Run: cd /tmp/wt4/e26 && PYTHONPATH=/tmp/wt4/e26 /venv/bin/python _eq/1/equiv.py
     (``--record`` prints the EXPECTED table computed from the code under test)

EXPECTED was recorded from the unchanged code (HEAD).
"""

import collections
import datetime
import pprint
import sys

from construct import Container, EnumIntegerString, ListContainer

from ceos_alos2 import utils

Point = collections.namedtuple("Point", ["x", "y"])


class Str(str):
    pass


def outcome(func, *args, **kwargs):
    try:
        result = func(*args, **kwargs)
    except BaseException as e:  # noqa: B902
        cause = type(e.__cause__).__name__ if e.__cause__ is not None else None
        return ("raise", type(e).__name__, str(e), cause)
    return ("ok", type(result).__qualname__, repr(result))


def deep_types(obj):
    if isinstance(obj, dict):
        return {k: deep_types(v) for k, v in obj.items()}
    if isinstance(obj, (list, tuple)):
        return [type(obj).__name__, [deep_types(v) for v in obj]]
    return type(obj).__name__


parse_bytes_inputs = [
    "100", "100 MB", "100M", "5kB", "5.4 kB", "1kiB", "1e6", "1e6 kB", "MB", 123, "5 foos",
    "", " ", "B", "b", "k", "K", "kb", "KB", "Ki", "ki", "kib", "KiB", "m", "Mi", "g", "G", "gi",
    "t", "ti", "p", "pi", "PiB", "1 PiB", "0", "0 B", "-1", "-1kB", "-5 MiB", "+3k", "1.5", "1.5GiB",
    ".5k", "5.k", "1e3", "1e3k", "1E3", "1e", "1e-3 GB", "1e+3B", "2.5e-1 kB", "inf", "nan", "1 inf",
    "infB", "12ab", "12 a b", "1_000", "1_000 kB", "1,000", "1 000", "1\t000", "1\tkB", "1\nkB",
    "kB1", "k1B", "1k1", "1kB ", "  7  MiB  ", "1é", "é", "1µ", "1²", "²", "٣", "٣kB", "1.2.3", "--1",
    "0x10", "1e400", "1e400 kB", "1/2", "1 B/s", "1%", "%", "1.", ".", "1.kB", "1 .kB", "7i", "iB",
    "1iB", "1 ib", "Kib", "1 kIb", "1 MIB", "1 tb", "3 PB", "2e0 TiB", "9" * 30, "9" * 30 + "PB",
    0, -3, 1.9, -1.9, 1e20, True, False, float("inf"), float("nan"), None, b"1kB", ["1"], ("1",),
    1 + 2j, Str("3 kB"),
]

enum_value = EnumIntegerString.new(3, "three")

to_dict_inputs = {
    "int": 1,
    "float": 1.5,
    "str": "a",
    "bytes": b"a",
    "complex": 1j,
    "bool": True,
    "datetime": datetime.datetime(2020, 1, 2, 3, 4, 5),
    "enum": enum_value,
    "empty_list": [],
    "empty_tuple": (),
    "empty_dict": {},
    "list": [1, "a", [2, (3, 4)]],
    "tuple": (1, [2], {"a": (3,)}),
    "listcontainer": ListContainer([1, ListContainer([2, 3]), Container(a=1, _io=None)]),
    "empty_listcontainer": ListContainer(),
    "container": Container(a=1, _io=object(), b=Container(c=ListContainer([enum_value]), _io=1)),
    "dict": {"_io": 1, "a": {"_io": 2, "b": [{"_io": 3, "c": enum_value}]}, "d": (1, 2)},
    "only_io": {"_io": 1},
    "none": None,
    "set": {1, 2},
    "nested_none": {"a": None},
    "list_none": [None],
    "namedtuple": Point(1, 2),
    "date": datetime.date(2020, 1, 1),
    "non_str_keys": {1: 2, ("a",): [3]},
    "str_subclass": Str("x"),
}

remove_nesting_inputs = {
    "empty": {},
    "flat": {"a": 1, "b": "x"},
    "one_level": {"a": {"b": 1, "c": 2}, "d": 3},
    "two_levels": {"a": {"b": {"c": 1}}, "d": {"e": {"f": {}}}},
    "empty_sub": {"a": {}, "b": 1},
    "collision_later_wins": {"a": 1, "b": {"a": 2}},
    "collision_outer_after": {"b": {"a": 2}, "a": 1},
    "collision_between_subs": {"x": {"k": 1, "l": 2}, "y": {"l": 3, "k": 4}},
    "order": {"z": 0, "m": {"y": 1, "a": 2}, "b": 3, "n": {"c": 4}},
    "container_sub": {"a": Container(b=1), "c": 2},
    "ordereddict_sub": {"a": collections.OrderedDict(b=1), "c": [1]},
    "list_value": {"a": [{"b": 1}], "c": ({"d": 1},)},
    "container_top": Container(a=Container(b=1, c=Container(d=2)), e=5),
    "not_a_mapping": [("a", 1)],
    "none": None,
    "mappingproxy_sub": {"a": type(int.__dict__)({"b": 1})},
}


def compute():
    results = {}
    for index, value in enumerate(parse_bytes_inputs):
        results[f"parse_bytes[{index}:{value!r}]"] = outcome(utils.parse_bytes, value)

    for name, value in to_dict_inputs.items():
        res = outcome(utils.to_dict, value)
        results[f"to_dict[{name}]"] = res
        if res[0] == "ok":
            results[f"to_dict_types[{name}]"] = repr(deep_types(utils.to_dict(value)))

    for name, value in remove_nesting_inputs.items():
        res = outcome(utils.remove_nesting_layer, value)
        results[f"remove_nesting_layer[{name}]"] = res
        if res[0] == "ok":
            out = utils.remove_nesting_layer(value)
            results[f"remove_nesting_layer_order[{name}]"] = repr(list(out))

    # inputs are not modified and outputs are fresh objects
    source = {"a": {"b": 1}, "c": [1, 2]}
    out = utils.remove_nesting_layer(source)
    results["remove_nesting_layer_no_mutation"] = repr(source)
    results["remove_nesting_layer_shares_values"] = out["c"] is source["c"]

    nested = [1, [2]]
    out = utils.to_dict(nested)
    results["to_dict_new_list"] = (out is not nested, out[1] is not nested[1])

    # public names of the module that other modules rely on
    results["byte_sizes"] = repr(sorted(utils.byte_sizes.items()))
    results["public"] = [
        name for name in ("unique", "starcall", "to_dict", "rename", "remove_nesting_layer",
                          "byte_sizes", "parse_bytes")
        if hasattr(utils, name)
    ]
    return results


EXPECTED = None  # replaced below


def main():
    results = compute()
    if "--record" in sys.argv:
        pprint.pprint(results, width=110, sort_dicts=False)
        return 0

    failures = []
    for key in sorted(set(results) | set(EXPECTED)):
        if results.get(key, "<missing>") != EXPECTED.get(key, "<missing>"):
            failures.append((key, EXPECTED.get(key, "<missing>"), results.get(key, "<missing>")))
    for key, expected, actual in failures:
        print(f"MISMATCH {key}\n  expected: {expected!r}\n  actual:   {actual!r}")
    print(f"{len(results) - len(failures)} / {len(results)} checks passed")
    return 1 if failures else 0


def test_equivalence():
    assert compute() == EXPECTED


# --- EXPECTED (recorded from HEAD) ---
EXPECTED = {"parse_bytes[0:'100']": ('ok', 'int', '100'),
 "parse_bytes[1:'100 MB']": ('ok', 'int', '100000000'),
 "parse_bytes[2:'100M']": ('ok', 'int', '100000000'),
 "parse_bytes[3:'5kB']": ('ok', 'int', '5000'),
 "parse_bytes[4:'5.4 kB']": ('ok', 'int', '5400'),
 "parse_bytes[5:'1kiB']": ('ok', 'int', '1024'),
 "parse_bytes[6:'1e6']": ('ok', 'int', '1000000'),
 "parse_bytes[7:'1e6 kB']": ('ok', 'int', '1000000000'),
 "parse_bytes[8:'MB']": ('ok', 'int', '1000000'),
 'parse_bytes[9:123]': ('ok', 'int', '123'),
 "parse_bytes[10:'5 foos']": ('raise', 'ValueError', "Could not interpret 'foos' as a byte unit", 'KeyError'),
 "parse_bytes[11:'']": ('ok', 'int', '1'),
 "parse_bytes[12:' ']": ('ok', 'int', '1'),
 "parse_bytes[13:'B']": ('ok', 'int', '1'),
 "parse_bytes[14:'b']": ('ok', 'int', '1'),
 "parse_bytes[15:'k']": ('ok', 'int', '1000'),
 "parse_bytes[16:'K']": ('ok', 'int', '1000'),
 "parse_bytes[17:'kb']": ('ok', 'int', '1000'),
 "parse_bytes[18:'KB']": ('ok', 'int', '1000'),
 "parse_bytes[19:'Ki']": ('ok', 'int', '1024'),
 "parse_bytes[20:'ki']": ('ok', 'int', '1024'),
 "parse_bytes[21:'kib']": ('ok', 'int', '1024'),
 "parse_bytes[22:'KiB']": ('ok', 'int', '1024'),
 "parse_bytes[23:'m']": ('ok', 'int', '1000000'),
 "parse_bytes[24:'Mi']": ('ok', 'int', '1048576'),
 "parse_bytes[25:'g']": ('ok', 'int', '1000000000'),
 "parse_bytes[26:'G']": ('ok', 'int', '1000000000'),
 "parse_bytes[27:'gi']": ('ok', 'int', '1073741824'),
 "parse_bytes[28:'t']": ('ok', 'int', '1000000000000'),
 "parse_bytes[29:'ti']": ('ok', 'int', '1099511627776'),
 "parse_bytes[30:'p']": ('ok', 'int', '1000000000000000'),
 "parse_bytes[31:'pi']": ('ok', 'int', '1125899906842624'),
 "parse_bytes[32:'PiB']": ('ok', 'int', '1125899906842624'),
 "parse_bytes[33:'1 PiB']": ('ok', 'int', '1125899906842624'),
 "parse_bytes[34:'0']": ('ok', 'int', '0'),
 "parse_bytes[35:'0 B']": ('ok', 'int', '0'),
 "parse_bytes[36:'-1']": ('ok', 'int', '-1'),
 "parse_bytes[37:'-1kB']": ('ok', 'int', '-1000'),
 "parse_bytes[38:'-5 MiB']": ('ok', 'int', '-5242880'),
 "parse_bytes[39:'+3k']": ('ok', 'int', '3000'),
 "parse_bytes[40:'1.5']": ('ok', 'int', '1'),
 "parse_bytes[41:'1.5GiB']": ('ok', 'int', '1610612736'),
 "parse_bytes[42:'.5k']": ('ok', 'int', '500'),
 "parse_bytes[43:'5.k']": ('ok', 'int', '5000'),
 "parse_bytes[44:'1e3']": ('ok', 'int', '1000'),
 "parse_bytes[45:'1e3k']": ('ok', 'int', '1000000'),
 "parse_bytes[46:'1E3']": ('ok', 'int', '1000'),
 "parse_bytes[47:'1e']": ('raise', 'ValueError', "Could not interpret 'e' as a byte unit", 'KeyError'),
 "parse_bytes[48:'1e-3 GB']": ('ok', 'int', '1000000'),
 "parse_bytes[49:'1e+3B']": ('ok', 'int', '1000'),
 "parse_bytes[50:'2.5e-1 kB']": ('ok', 'int', '250'),
 "parse_bytes[51:'inf']": ('raise', 'ValueError', "Could not interpret 'inf' as a byte unit", 'KeyError'),
 "parse_bytes[52:'nan']": ('raise', 'ValueError', "Could not interpret 'nan' as a byte unit", 'KeyError'),
 "parse_bytes[53:'1 inf']": ('raise', 'ValueError', "Could not interpret 'inf' as a byte unit", 'KeyError'),
 "parse_bytes[54:'infB']": ('raise', 'ValueError', "Could not interpret 'infB' as a byte unit", 'KeyError'),
 "parse_bytes[55:'12ab']": ('raise', 'ValueError', "Could not interpret 'ab' as a byte unit", 'KeyError'),
 "parse_bytes[56:'12 a b']": ('raise', 'ValueError', "Could not interpret 'ab' as a byte unit", 'KeyError'),
 "parse_bytes[57:'1_000']": ('ok', 'int', '1000'),
 "parse_bytes[58:'1_000 kB']": ('ok', 'int', '1000000'),
 "parse_bytes[59:'1,000']": ('raise', 'ValueError', "Could not interpret '1,000' as a number", 'ValueError'),
 "parse_bytes[60:'1 000']": ('ok', 'int', '1000'),
 "parse_bytes[61:'1\\t000']": ('raise',
                               'ValueError',
                               "Could not interpret '1\t000' as a number",
                               'ValueError'),
 "parse_bytes[62:'1\\tkB']": ('ok', 'int', '1000'),
 "parse_bytes[63:'1\\nkB']": ('ok', 'int', '1000'),
 "parse_bytes[64:'kB1']": ('raise', 'ValueError', "Could not interpret 'kB1' as a number", 'ValueError'),
 "parse_bytes[65:'k1B']": ('raise', 'ValueError', "Could not interpret 'k1' as a number", 'ValueError'),
 "parse_bytes[66:'1k1']": ('raise', 'ValueError', "Could not interpret '1k1' as a number", 'ValueError'),
 "parse_bytes[67:'1kB ']": ('ok', 'int', '1000'),
 "parse_bytes[68:'  7  MiB  ']": ('ok', 'int', '7340032'),
 "parse_bytes[69:'1é']": ('raise', 'ValueError', "Could not interpret 'é' as a byte unit", 'KeyError'),
 "parse_bytes[70:'é']": ('raise', 'ValueError', "Could not interpret 'é' as a byte unit", 'KeyError'),
 "parse_bytes[71:'1µ']": ('raise', 'ValueError', "Could not interpret 'µ' as a byte unit", 'KeyError'),
 "parse_bytes[72:'1²']": ('raise', 'ValueError', "Could not interpret '1²' as a number", 'ValueError'),
 "parse_bytes[73:'²']": ('raise', 'ValueError', "Could not interpret '²' as a number", 'ValueError'),
 "parse_bytes[74:'٣']": ('ok', 'int', '3'),
 "parse_bytes[75:'٣kB']": ('ok', 'int', '3000'),
 "parse_bytes[76:'1.2.3']": ('raise', 'ValueError', "Could not interpret '1.2.3' as a number", 'ValueError'),
 "parse_bytes[77:'--1']": ('raise', 'ValueError', "Could not interpret '--1' as a number", 'ValueError'),
 "parse_bytes[78:'0x10']": ('raise', 'ValueError', "Could not interpret '0x10' as a number", 'ValueError'),
 "parse_bytes[79:'1e400']": ('raise', 'OverflowError', 'cannot convert float infinity to integer', None),
 "parse_bytes[80:'1e400 kB']": ('raise', 'OverflowError', 'cannot convert float infinity to integer', None),
 "parse_bytes[81:'1/2']": ('raise', 'ValueError', "Could not interpret '1/2' as a number", 'ValueError'),
 "parse_bytes[82:'1 B/s']": ('raise', 'ValueError', "Could not interpret '1B/' as a number", 'ValueError'),
 "parse_bytes[83:'1%']": ('raise', 'ValueError', "Could not interpret '1%' as a number", 'ValueError'),
 "parse_bytes[84:'%']": ('raise', 'ValueError', "Could not interpret '1%' as a number", 'ValueError'),
 "parse_bytes[85:'1.']": ('ok', 'int', '1'),
 "parse_bytes[86:'.']": ('ok', 'int', '1'),
 "parse_bytes[87:'1.kB']": ('ok', 'int', '1000'),
 "parse_bytes[88:'1 .kB']": ('ok', 'int', '1000'),
 "parse_bytes[89:'7i']": ('raise', 'ValueError', "Could not interpret 'i' as a byte unit", 'KeyError'),
 "parse_bytes[90:'iB']": ('raise', 'ValueError', "Could not interpret 'iB' as a byte unit", 'KeyError'),
 "parse_bytes[91:'1iB']": ('raise', 'ValueError', "Could not interpret 'iB' as a byte unit", 'KeyError'),
 "parse_bytes[92:'1 ib']": ('raise', 'ValueError', "Could not interpret 'ib' as a byte unit", 'KeyError'),
 "parse_bytes[93:'Kib']": ('ok', 'int', '1024'),
 "parse_bytes[94:'1 kIb']": ('ok', 'int', '1024'),
 "parse_bytes[95:'1 MIB']": ('ok', 'int', '1048576'),
 "parse_bytes[96:'1 tb']": ('ok', 'int', '1000000000000'),
 "parse_bytes[97:'3 PB']": ('ok', 'int', '3000000000000000'),
 "parse_bytes[98:'2e0 TiB']": ('ok', 'int', '2199023255552'),
 "parse_bytes[99:'999999999999999999999999999999']": ('ok', 'int', '1000000000000000019884624838656'),
 "parse_bytes[100:'999999999999999999999999999999PB']": ('ok',
                                                         'int',
                                                         '1000000000000000088213614053064226407018659840'),
 'parse_bytes[101:0]': ('ok', 'int', '0'),
 'parse_bytes[102:-3]': ('ok', 'int', '-3'),
 'parse_bytes[103:1.9]': ('ok', 'int', '1'),
 'parse_bytes[104:-1.9]': ('ok', 'int', '-1'),
 'parse_bytes[105:1e+20]': ('ok', 'int', '100000000000000000000'),
 'parse_bytes[106:True]': ('ok', 'int', '1'),
 'parse_bytes[107:False]': ('ok', 'int', '0'),
 'parse_bytes[108:inf]': ('raise', 'OverflowError', 'cannot convert float infinity to integer', None),
 'parse_bytes[109:nan]': ('raise', 'ValueError', 'cannot convert float NaN to integer', None),
 'parse_bytes[110:None]': ('raise', 'AttributeError', "'NoneType' object has no attribute 'replace'", None),
 "parse_bytes[111:b'1kB']": ('raise', 'TypeError', "a bytes-like object is required, not 'str'", None),
 "parse_bytes[112:['1']]": ('raise', 'AttributeError', "'list' object has no attribute 'replace'", None),
 "parse_bytes[113:('1',)]": ('raise', 'AttributeError', "'tuple' object has no attribute 'replace'", None),
 'parse_bytes[114:(1+2j)]': ('raise', 'AttributeError', "'complex' object has no attribute 'replace'", None),
 "parse_bytes[115:'3 kB']": ('ok', 'int', '3000'),
 'to_dict[int]': ('ok', 'int', '1'),
 'to_dict_types[int]': "'int'",
 'to_dict[float]': ('ok', 'float', '1.5'),
 'to_dict_types[float]': "'float'",
 'to_dict[str]': ('ok', 'str', "'a'"),
 'to_dict_types[str]': "'str'",
 'to_dict[bytes]': ('ok', 'bytes', "b'a'"),
 'to_dict_types[bytes]': "'bytes'",
 'to_dict[complex]': ('ok', 'complex', '1j'),
 'to_dict_types[complex]': "'complex'",
 'to_dict[bool]': ('ok', 'bool', 'True'),
 'to_dict_types[bool]': "'bool'",
 'to_dict[datetime]': ('ok', 'datetime', 'datetime.datetime(2020, 1, 2, 3, 4, 5)'),
 'to_dict_types[datetime]': "'datetime'",
 'to_dict[enum]': ('ok', 'str', "'three'"),
 'to_dict_types[enum]': "'str'",
 'to_dict[empty_list]': ('ok', 'list', '[]'),
 'to_dict_types[empty_list]': "['list', []]",
 'to_dict[empty_tuple]': ('ok', 'tuple', '()'),
 'to_dict_types[empty_tuple]': "['tuple', []]",
 'to_dict[empty_dict]': ('ok', 'dict', '{}'),
 'to_dict_types[empty_dict]': '{}',
 'to_dict[list]': ('ok', 'list', "[1, 'a', [2, (3, 4)]]"),
 'to_dict_types[list]': "['list', ['int', 'str', ['list', ['int', ['tuple', ['int', 'int']]]]]]",
 'to_dict[tuple]': ('ok', 'tuple', "(1, [2], {'a': (3,)})"),
 'to_dict_types[tuple]': "['tuple', ['int', ['list', ['int']], {'a': ['tuple', ['int']]}]]",
 'to_dict[listcontainer]': ('ok', 'list', "[1, [2, 3], {'a': 1}]"),
 'to_dict_types[listcontainer]': "['list', ['int', ['list', ['int', 'int']], {'a': 'int'}]]",
 'to_dict[empty_listcontainer]': ('ok', 'list', '[]'),
 'to_dict_types[empty_listcontainer]': "['list', []]",
 'to_dict[container]': ('ok', 'dict', "{'a': 1, 'b': {'c': ['three']}}"),
 'to_dict_types[container]': "{'a': 'int', 'b': {'c': ['list', ['str']]}}",
 'to_dict[dict]': ('ok', 'dict', "{'a': {'b': [{'c': 'three'}]}, 'd': (1, 2)}"),
 'to_dict_types[dict]': "{'a': {'b': ['list', [{'c': 'str'}]]}, 'd': ['tuple', ['int', 'int']]}",
 'to_dict[only_io]': ('ok', 'dict', '{}'),
 'to_dict_types[only_io]': '{}',
 'to_dict[none]': ('raise', 'AttributeError', "'NoneType' object has no attribute 'items'", None),
 'to_dict[set]': ('raise', 'AttributeError', "'set' object has no attribute 'items'", None),
 'to_dict[nested_none]': ('raise', 'AttributeError', "'NoneType' object has no attribute 'items'", None),
 'to_dict[list_none]': ('raise', 'AttributeError', "'NoneType' object has no attribute 'items'", None),
 'to_dict[namedtuple]': ('raise',
                         'TypeError',
                         "Point.__new__() missing 1 required positional argument: 'y'",
                         None),
 'to_dict[date]': ('raise', 'AttributeError', "'datetime.date' object has no attribute 'items'", None),
 'to_dict[non_str_keys]': ('ok', 'dict', "{1: 2, ('a',): [3]}"),
 'to_dict_types[non_str_keys]': "{1: 'int', ('a',): ['list', ['int']]}",
 'to_dict[str_subclass]': ('ok', 'Str', "'x'"),
 'to_dict_types[str_subclass]': "'Str'",
 'remove_nesting_layer[empty]': ('ok', 'dict', '{}'),
 'remove_nesting_layer_order[empty]': '[]',
 'remove_nesting_layer[flat]': ('ok', 'dict', "{'a': 1, 'b': 'x'}"),
 'remove_nesting_layer_order[flat]': "['a', 'b']",
 'remove_nesting_layer[one_level]': ('ok', 'dict', "{'b': 1, 'c': 2, 'd': 3}"),
 'remove_nesting_layer_order[one_level]': "['b', 'c', 'd']",
 'remove_nesting_layer[two_levels]': ('ok', 'dict', "{'b': {'c': 1}, 'e': {'f': {}}}"),
 'remove_nesting_layer_order[two_levels]': "['b', 'e']",
 'remove_nesting_layer[empty_sub]': ('ok', 'dict', "{'b': 1}"),
 'remove_nesting_layer_order[empty_sub]': "['b']",
 'remove_nesting_layer[collision_later_wins]': ('ok', 'dict', "{'a': 2}"),
 'remove_nesting_layer_order[collision_later_wins]': "['a']",
 'remove_nesting_layer[collision_outer_after]': ('ok', 'dict', "{'a': 1}"),
 'remove_nesting_layer_order[collision_outer_after]': "['a']",
 'remove_nesting_layer[collision_between_subs]': ('ok', 'dict', "{'k': 4, 'l': 3}"),
 'remove_nesting_layer_order[collision_between_subs]': "['k', 'l']",
 'remove_nesting_layer[order]': ('ok', 'dict', "{'z': 0, 'y': 1, 'a': 2, 'b': 3, 'c': 4}"),
 'remove_nesting_layer_order[order]': "['z', 'y', 'a', 'b', 'c']",
 'remove_nesting_layer[container_sub]': ('ok', 'dict', "{'b': 1, 'c': 2}"),
 'remove_nesting_layer_order[container_sub]': "['b', 'c']",
 'remove_nesting_layer[ordereddict_sub]': ('ok', 'dict', "{'b': 1, 'c': [1]}"),
 'remove_nesting_layer_order[ordereddict_sub]': "['b', 'c']",
 'remove_nesting_layer[list_value]': ('ok', 'dict', "{'a': [{'b': 1}], 'c': ({'d': 1},)}"),
 'remove_nesting_layer_order[list_value]': "['a', 'c']",
 'remove_nesting_layer[container_top]': ('ok', 'dict', "{'b': 1, 'c': Container(d=2), 'e': 5}"),
 'remove_nesting_layer_order[container_top]': "['b', 'c', 'e']",
 'remove_nesting_layer[not_a_mapping]': ('raise',
                                         'AttributeError',
                                         "'list' object has no attribute 'items'",
                                         None),
 'remove_nesting_layer[none]': ('raise',
                                'AttributeError',
                                "'NoneType' object has no attribute 'items'",
                                None),
 'remove_nesting_layer[mappingproxy_sub]': ('ok', 'dict', "{'a': mappingproxy({'b': 1})}"),
 'remove_nesting_layer_order[mappingproxy_sub]': "['a']",
 'remove_nesting_layer_no_mutation': "{'a': {'b': 1}, 'c': [1, 2]}",
 'remove_nesting_layer_shares_values': True,
 'to_dict_new_list': (True, True),
 'byte_sizes': "[('', 1), ('b', 1), ('g', 1000000000), ('gb', 1000000000), ('gi', 1073741824), ('gib', "
               "1073741824), ('k', 1000), ('kb', 1000), ('ki', 1024), ('kib', 1024), ('m', 1000000), ('mb', "
               "1000000), ('mi', 1048576), ('mib', 1048576), ('p', 1000000000000000), ('pb', "
               "1000000000000000), ('pi', 1125899906842624), ('pib', 1125899906842624), ('t', "
               "1000000000000), ('tb', 1000000000000), ('ti', 1099511627776), ('tib', 1099511627776)]",
 'public': ['unique', 'starcall', 'to_dict', 'rename', 'remove_nesting_layer', 'byte_sizes', 'parse_bytes']}

if __name__ == "__main__":
    sys.exit(main())
