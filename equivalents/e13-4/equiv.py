"""Equivalence check for refactoring 4 (``caching.encode`` / ``decode`` /
``read_cache`` / ``create_cache`` and ``caching.path.hashsum`` /
``local_cache_location``).

Run as a script (``python equiv.py``) or through pytest.  Every case calls the
public entry points of ``ceos_alos2.sar_image.caching`` and compares a
canonical, type-preserving rendering of the result (or of the raised exception,
including its cause) together with the ordered log of all I/O requests (local
``pathlib`` calls and requests to the remote mapper) with the rendering
recorded from the unchanged code (``python equiv.py --record`` prints a fresh
table).

Nothing touches the real file system: the ``pathlib.Path`` methods used by the
library are replaced by an in-memory emulation while a case runs.
"""

import json
import pathlib
import sys

import fsspec
import numpy as np

from ceos_alos2.array import Array
from ceos_alos2.hierarchy import Group, Variable
from ceos_alos2.sar_image import caching
from ceos_alos2.sar_image.caching import path as caching_path

CACHE_ROOT = pathlib.Path("/nonexistent/cache-root/xarray-ceos-alos2")


def canon(obj):
    """Deterministic rendering which keeps the exact types and key order."""
    if isinstance(obj, dict):
        items = ", ".join(f"{canon(k)}: {canon(v)}" for k, v in obj.items())
        return f"{type(obj).__name__}{{{items}}}"
    if isinstance(obj, (list, tuple)):
        return f"{type(obj).__name__}[{', '.join(canon(v) for v in obj)}]"
    if isinstance(obj, np.ndarray):
        return f"ndarray<{obj.dtype}, {obj.shape}>({obj.tolist()!r})"
    if isinstance(obj, Array):
        fields = {
            "fs.path": obj.fs.path,
            "fs.fs": type(obj.fs.fs).__name__,
            "url": obj.url,
            "byte_ranges": obj.byte_ranges,
            "shape": obj.shape,
            "dtype": obj.dtype,
            "type_code": obj.type_code,
            "records_per_chunk": obj.records_per_chunk,
        }
        return f"{type(obj).__name__}<{canon(fields)}>"
    if isinstance(obj, Variable):
        return f"Variable<{canon(obj.dims)}, {canon(obj.data)}, {canon(obj.attrs)}>"
    if isinstance(obj, Group):
        return f"Group<{canon(obj.path)}, {canon(obj.url)}, {canon(obj.data)}, {canon(obj.attrs)}>"
    return f"{type(obj).__name__}({obj!r})"


def describe_exception(e):
    text = f"raised {type(e).__module__}.{type(e).__name__}: {e}"
    text += f" [bases: {[c.__name__ for c in type(e).__mro__[1:4]]}]"
    if e.__cause__ is not None:
        text += f" [cause: {type(e.__cause__).__name__}: {e.__cause__}]"
    if e.__context__ is not None and e.__context__ is not e.__cause__:
        text += f" [context: {type(e.__context__).__name__}: {e.__context__}]"
    text += f" [suppress_context: {e.__suppress_context__}]"
    return text


# --- in-memory emulation of the local cache directory, with an event log ----------------

events = []
local_files = {}
local_failures = {}


def relative(path):
    try:
        return path.relative_to(CACHE_ROOT).as_posix()
    except ValueError:
        return f"OUTSIDE:{path.as_posix()}"


def maybe_fail(operation, path):
    failure = local_failures.get((operation, path.name))
    if failure is not None:
        raise failure


def fake_is_file(self):
    events.append(("is_file", relative(self)))
    maybe_fail("is_file", self)
    return relative(self) in local_files


def fake_read_text(self, *args, **kwargs):
    events.append(("read_text", relative(self), args, kwargs))
    maybe_fail("read_text", self)
    return local_files[relative(self)]


def fake_write_text(self, *args, **kwargs):
    events.append(("write_text", relative(self), args, kwargs))
    maybe_fail("write_text", self)
    local_files[relative(self)] = args[0]
    return len(args[0])


def fake_mkdir(self, *args, **kwargs):
    events.append(("mkdir", relative(self), args, kwargs))
    maybe_fail("mkdir", self)


FAKES = {
    "is_file": fake_is_file,
    "read_text": fake_read_text,
    "write_text": fake_write_text,
    "mkdir": fake_mkdir,
}


class LoggingMapper:
    """minimal stand-in for a ``fsspec.mapping.FSMap``"""

    def __init__(self, root, content=None, failures=None):
        self._root = root
        self.content = dict(content or {})
        self.failures = dict(failures or {})

    @property
    def root(self):
        events.append(("mapper.root",))
        return self._root

    def __contains__(self, key):
        events.append(("mapper.__contains__", key))
        if "contains" in self.failures:
            raise self.failures["contains"]
        return key in self.content

    def __getitem__(self, key):
        events.append(("mapper.__getitem__", key))
        if "getitem" in self.failures:
            raise self.failures["getitem"]
        return self.content[key]

    def __setitem__(self, key, value):  # pragma: no cover
        events.append(("mapper.__setitem__", key))
        self.content[key] = value


def outcome(func, *args, files=None, failures=None, **kwargs):
    del events[:]
    local_files.clear()
    local_files.update(files or {})
    local_failures.clear()
    local_failures.update(failures or {})

    saved_methods = {name: getattr(pathlib.Path, name) for name in FAKES}
    saved_root = caching_path.cache_root
    for name, fake in FAKES.items():
        setattr(pathlib.Path, name, fake)
    caching_path.cache_root = CACHE_ROOT
    try:
        result = canon(func(*args, **kwargs))
    except Exception as e:  # noqa: BLE001
        result = describe_exception(e)
    finally:
        for name, method in saved_methods.items():
            setattr(pathlib.Path, name, method)
        caching_path.cache_root = saved_root
    return f"{result} | events: {events!r} | local files: {sorted(local_files)!r}"


# --- data ------------------------------------------------------------------------------


def make_array(*, path="/path/to", url="file", shape=(4, 3), dtype="int16", rpc=2, type_code="IU2"):
    fs = fsspec.filesystem("memory")
    dirfs = fsspec.filesystem("dir", path=path, fs=fs)
    return Array(
        fs=dirfs,
        url=url,
        byte_ranges=[(x * 10 + 5, (x + 1) * 10) for x in range(shape[0])],
        shape=shape,
        dtype=dtype,
        type_code=type_code,
        records_per_chunk=rpc,
    )


def make_group():
    return Group(
        path=None,
        url="s3://bucket/scene",
        data={
            "t": Variable(
                "t", np.array(["2000-01-01", "2000-01-03"], dtype="datetime64[s]"), {"a": (1, 2)}
            ),
            "sub": Group(
                path=None,
                url=None,
                data={"img": Variable(["rows", "cols"], make_array(), {"units": "dn"})},
                attrs={"n": 1},
            ),
            "x": Variable("x", [1.0, 2.0], {}),
        },
        attrs={"shape": (2, 3), "nested": {"t": [(1,), ()]}},
    )


ENCODE_INPUTS = {
    "group": make_group,
    "empty-group": lambda: Group(path="/", url="s3://bucket/data", data={}, attrs={}),
    "variable": lambda: Variable(["x"], [1, 2], {"t": (1, (2,))}),
    "variable-backend": lambda: Variable(["r", "c"], make_array(dtype="complex64", type_code="C*8"), {}),
    "plain-dict": lambda: {"b": (1, 2), "a": [None, True, 1.5]},
    "plain-list": lambda: [(1,), "x"],
    "plain-tuple": lambda: (1, (2,)),
    "none": lambda: None,
    "int": lambda: 5,
    "str": lambda: 'with "quotes" and é',
    "nan": lambda: [float("nan"), float("inf")],
    "non-str-keys": lambda: {1: "a", None: "b", 2.5: "c", True: "d"},
    "tuple-key": lambda: {(1, 2): "a"},
    "unserialisable-ndarray": lambda: Group("/", "u", {}, {"arr": np.array([1, 2])}),
    "unserialisable-array": make_array,
    "unserialisable-set": lambda: {"s": {1}},
    "unserialisable-bytes": lambda: [b"abc"],
    "unserialisable-npint": lambda: Variable("x", [1], {"n": np.int64(1)}),
    "bad-variable": lambda: Variable("t", np.array([], dtype="datetime64[s]"), {}),
    "circular": lambda: circular(),
}


def circular():
    data = {}
    data["self"] = data
    return data


GROUP_TEXT = None  # filled lazily from the library itself (same with and without the patch)


def group_text():
    global GROUP_TEXT
    if GROUP_TEXT is None:
        GROUP_TEXT = caching.encode(make_group())
    return GROUP_TEXT


BACKEND_TEXT = json.dumps(
    {
        "__type__": "group",
        "url": None,
        "data": {
            "v": {
                "__type__": "variable",
                "dims": ["x", "y"],
                "data": {
                    "__type__": "backend_array",
                    "root": "memory:///path/to",
                    "url": "file",
                    "shape": {"__type__": "tuple", "data": [4, 3]},
                    "dtype": "complex64",
                    "byte_ranges": [
                        {"__type__": "tuple", "data": [5, 10]},
                        {"__type__": "tuple", "data": [15, 20]},
                        {"__type__": "tuple", "data": [25, 30]},
                        {"__type__": "tuple", "data": [35, 40]},
                    ],
                    "type_code": "C*8",
                },
                "attrs": {},
            }
        },
        "path": "/",
        "attrs": {},
    }
)
VARIABLE_TEXT = json.dumps(
    {
        "__type__": "variable",
        "dims": ["x"],
        "data": {"__type__": "array", "dtype": "int8", "data": [1, 2], "encoding": {}},
        "attrs": {"t": {"__type__": "tuple", "data": [1, {"__type__": "tuple", "data": []}]}},
    }
)

# (cache text, records_per_chunk)
DECODE_INPUTS = {
    "group": (group_text, 2),
    "group-rpc-none": (group_text, None),
    "group-rpc-auto": (group_text, "auto"),
    "backend": (lambda: BACKEND_TEXT, 3),
    "variable": (lambda: VARIABLE_TEXT, 1),
    "bytes": (lambda: VARIABLE_TEXT.encode(), 1),
    "bytearray": (lambda: bytearray(VARIABLE_TEXT.encode()), 1),
    "utf16-bytes": (lambda: VARIABLE_TEXT.encode("utf-16"), 1),
    "with-whitespace": (lambda: f"\n  {VARIABLE_TEXT}  \n", 1),
    "plain-dict": (lambda: '{"a": 1, "b": [1, 2]}', 2),
    "plain-dict-with-tuple": (lambda: '{"a": {"__type__": "tuple", "data": [1, 2]}}', 2),
    "unknown-type": (lambda: '{"__type__": "dataset", "data": {}}', 2),
    "unhashable-type": (lambda: '{"__type__": ["group"], "data": {}}', 2),
    "top-level-tuple": (lambda: '{"__type__": "tuple", "data": [1, 2]}', 2),
    "top-level-list": (lambda: "[1, 2]", 2),
    "top-level-int": (lambda: "5", 2),
    "top-level-null": (lambda: "null", 2),
    "top-level-string": (lambda: '"group"', 2),
    "nan-literal": (lambda: '{"a": NaN}', 2),
    "tuple-without-data": (lambda: '{"a": {"__type__": "tuple"}}', 2),
    "tuple-with-int-data": (lambda: '{"a": {"__type__": "tuple", "data": 5}}', 2),
    "group-without-data": (lambda: '{"__type__": "group", "url": null}', 2),
    "group-with-list-data": (lambda: '{"__type__": "group", "data": [1], "url": 1, "path": "/", "attrs": {}}', 2),
    "variable-broken-array": (
        lambda: '{"__type__": "variable", "dims": ["x"], "attrs": {}, "data": {"__type__": "array"}}',
        2,
    ),
    "variable-bad-dtype": (
        lambda: (
            '{"__type__": "variable", "dims": ["x"], "attrs": {},'
            ' "data": {"__type__": "array", "dtype": "nope", "data": [1], "encoding": {}}}'
        ),
        2,
    ),
    "empty": (lambda: "", 2),
    "blank": (lambda: "   ", 2),
    "truncated": (lambda: BACKEND_TEXT[:50], 2),
    "truncated-by-one": (lambda: BACKEND_TEXT[:-1], 2),
    "trailing-garbage": (lambda: VARIABLE_TEXT + "}", 2),
    "two-documents": (lambda: VARIABLE_TEXT + VARIABLE_TEXT, 2),
    "single-quotes": (lambda: "{'a': 1}", 2),
    "not-json": (lambda: "not-a-cache", 2),
    "invalid-utf8-bytes": (lambda: b"\xff\xfe\xfa", 2),
    "none": (lambda: None, 2),
    "int": (lambda: 5, 2),
    "dict": (lambda: {"a": 1}, 2),
}

# (path, local files, remote files)
LOCATIONS = {
    "neither": ("image", {}, {}),
    "remote-only": ("image", {}, {"image.index": "backend"}),
    "local-only": ("image", {"image.index": "backend"}, {}),
    "both-local-wins": ("image", {"image.index": "variable"}, {"image.index": "backend"}),
    "other-names-only": ("image", {"other.index": "backend", "image": "backend"}, {"image": "backend"}),
    "subdir-remote": ("a/b/IMG-HH-X", {}, {"a/b/IMG-HH-X.index": "backend"}),
    "subdir-local": ("a/b/IMG-HH-X", {"IMG-HH-X.index": "backend"}, {}),
    "subdir-local-misplaced": ("a/b/IMG-HH-X", {"a/b/IMG-HH-X.index": "backend"}, {}),
    "subdir-remote-flat-name-only": ("a/b/IMG-HH-X", {}, {"IMG-HH-X.index": "backend"}),
    "trailing-slash": ("scene/", {".index": "variable"}, {"scene/.index": "backend"}),
    "trailing-slash-remote": ("scene/", {}, {"scene/.index": "backend"}),
    "empty-path": ("", {}, {".index": "variable"}),
    "leading-slash": ("/abs/image", {}, {"/abs/image.index": "variable"}),
    "dots": ("../image.1.tif", {"image.1.tif.index": "variable"}, {}),
    "already-index": ("image.index", {}, {"image.index.index": "variable"}),
    "local-invalid": ("image", {"image.index": "truncated"}, {"image.index": "backend"}),
    "remote-invalid": ("image", {}, {"image.index": "truncated"}),
    "remote-not-json": ("image", {}, {"image.index": b"not-a-cache"}),
    "remote-empty": ("image", {}, {"image.index": b""}),
    "remote-invalid-utf8": ("image", {}, {"image.index": b"\xff\xfe\xfa"}),
    "remote-str-instead-of-bytes": ("image", {}, {"image.index": VARIABLE_TEXT}),
    "local-empty": ("image", {"image.index": ""}, {"image.index": "backend"}),
    "local-plain-json": ("image", {"image.index": '{"a": [1, 2]}'}, {}),
    "local-list-json": ("image", {"image.index": "[1, 2]"}, {}),
}

TEXTS = {"backend": BACKEND_TEXT, "variable": VARIABLE_TEXT, "truncated": BACKEND_TEXT[:77]}
ROOTS = {
    "http://127.0.0.1/path/to/data": "c9db4f27e586452c6517524752dc472863ee42230ba98e83a346b8da94a33235",
    "s3://bucket/path/to/data": "04391cfcf37045b78e7b4793392821b5b4c84591edfcb475954130eb34b87366",
    "/path/to/data": "7b405676e8ed8556a3f4f98f4dc5b6df940f3a5ce48674046eebda551e335b37",
    "": "e3b0c44298fc1c149afbf4c8996fb92427ae41e4649b934ca495991b7852b855",
}


def resolve_text(value, binary):
    text = TEXTS.get(value, value) if isinstance(value, str) else value
    if binary and isinstance(text, str) and value in TEXTS:
        return text.encode()
    return text


def read_case(name, root="s3://bucket/path/to/data", rpc=2, failures=None, mapper_failures=None):
    path, local, remote = LOCATIONS[name]
    files = {f"{ROOTS[root]}/{fname}": resolve_text(v, binary=False) for fname, v in local.items()}
    content = {key: resolve_text(v, binary=True) for key, v in remote.items()}
    mapper = LoggingMapper(root, content, mapper_failures)
    return outcome(caching.read_cache, mapper, path, rpc, files=files, failures=failures)


def case_read_real_mapper():
    """with a real fsspec mapper on the memory file system"""
    mapper = fsspec.get_mapper("memory://equiv4-cache")
    mapper["image1.index"] = BACKEND_TEXT.encode()
    mapper["sub/image3.index"] = VARIABLE_TEXT.encode()
    try:
        results = []
        for path in ["image1", "sub/image3", "image3", "not-a-cache"]:
            try:
                results.append(caching.read_cache(mapper, path, records_per_chunk=3))
            except Exception as e:  # noqa: BLE001
                results.append(describe_exception(e))
        return results
    finally:
        mapper.clear()


def case_read_patched_helpers():
    """the module-level helpers are looked up at call time, in the same order"""
    names = ["remote_cache_location", "local_cache_location", "decode", "encode"]
    saved = {name: getattr(caching, name) for name in names}
    read_cache, create_cache = caching.read_cache, caching.create_cache

    def logging_wrapper(name):
        def wrapper(*args, **kwargs):
            events.append((f"call:{name}", canon(args), canon(kwargs)))
            return saved[name](*args, **kwargs)

        return wrapper

    for name in names:
        setattr(caching, name, logging_wrapper(name))
    try:
        mapper = LoggingMapper("s3://bucket/path/to/data", {"a/image.index": VARIABLE_TEXT.encode()})
        results = [read_cache(mapper, "a/image", 2)]
        try:
            read_cache(mapper, "b/image", records_per_chunk=2)
        except caching.CachingError as e:
            results.append(describe_exception(e))
        create_cache(mapper, "c/image", Variable("x", [1], {}))
        results.append(read_cache(mapper=mapper, path="c/image", records_per_chunk=None))
    finally:
        for name, func in saved.items():
            setattr(caching, name, func)
    return results


def case_decode_patched_postprocess():
    """the object hook and the hierarchy decoder are looked up at call time"""
    saved = (caching.postprocess, caching.decode_hierarchy)
    decode = caching.decode
    seen = []

    def hook(obj):
        seen.append(sorted(obj))
        if "fail" in obj:
            raise ValueError("raised by the hook")
        if "type-error" in obj:
            raise TypeError("raised by the hook")
        return obj

    def fake_hierarchy(obj, records_per_chunk):
        return ("decoded", obj, records_per_chunk)

    caching.postprocess, caching.decode_hierarchy = hook, fake_hierarchy
    try:
        results = [decode('{"a": {"b": 1}}', 7)]
        for text in ['{"fail": 1}', '{"type-error": 1}']:
            try:
                results.append(decode(text, records_per_chunk=7))
            except Exception as e:  # noqa: BLE001
                results.append(describe_exception(e))
    finally:
        caching.postprocess, caching.decode_hierarchy = saved
    return [results, seen]


def create_case(path, data_factory, root="s3://bucket/path/to/data", failures=None, files=None):
    mapper = LoggingMapper(root, {})
    return outcome(
        lambda: caching.create_cache(mapper, path, data_factory()), files=files, failures=failures
    )


def case_roundtrip():
    mapper = LoggingMapper("/path/to/data", {})
    group = make_group()
    created = caching.create_cache(mapper, "scene/IMG-HH", group)
    text = local_files[f"{ROOTS['/path/to/data']}/IMG-HH.index"]
    return [created, text, caching.read_cache(mapper, "scene/IMG-HH", records_per_chunk=3)]


class Formattable:
    def __format__(self, spec):
        return "formatted/name"

    def __str__(self):  # pragma: no cover
        return "str/name"


class Encodable:
    def encode(self):
        return b"abc"


HASH_INPUTS = {
    "reference": lambda: caching_path.hashsum("ddeeaaddbbeeeeff"),
    "empty": lambda: caching_path.hashsum(""),
    "unicode": lambda: caching_path.hashsum("s3://bücket/データ"),
    "md5": lambda: caching_path.hashsum("abc", "md5"),
    "sha1-keyword": lambda: caching_path.hashsum("abc", algorithm="sha1"),
    "keywords": lambda: caching_path.hashsum(data="abc", algorithm="sha512"),
    "upper-case-algorithm": lambda: caching_path.hashsum("abc", "SHA256"),
    "blake2b": lambda: caching_path.hashsum("abc", "blake2b"),
    "unknown-algorithm": lambda: caching_path.hashsum("abc", "nope"),
    "algorithm-none": lambda: caching_path.hashsum("abc", None),
    "bytes": lambda: caching_path.hashsum(b"abc"),
    "none": lambda: caching_path.hashsum(None),
    "int": lambda: caching_path.hashsum(5),
    "path-object": lambda: caching_path.hashsum(pathlib.PurePosixPath("/a")),
    "duck": lambda: caching_path.hashsum(Encodable()),
    "unknown-algorithm-and-bad-data": lambda: caching_path.hashsum(None, "nope"),
    "lone-surrogate": lambda: caching_path.hashsum("\ud800"),
    "shake": lambda: caching_path.hashsum("abc", "shake_128"),
    "no-arguments": lambda: caching_path.hashsum(),
}

LOCATION_INPUTS = {
    "simple": ("http://127.0.0.1/path/to/data", "image1"),
    "s3": ("s3://bucket/path/to/data", "image1"),
    "file": ("file:///path/to/data", "image1"),
    "local": ("/path/to/data", "image2"),
    "subdir": ("/path/to/data", "a/b/IMG-HH-ALOS2"),
    "leading-slash": ("/path/to/data", "/IMG"),
    "trailing-slash": ("/path/to/data", "a/"),
    "only-slash": ("/path/to/data", "/"),
    "double-slash": ("/path/to/data", "a//b"),
    "empty": ("", ""),
    "dots": ("/r", "../.."),
    "dot": ("/r", "."),
    "backslash": ("/r", "a\\b"),
    "index-suffix": ("/r", "x.index"),
    "space-and-unicode": ("/r", "déjà vu/im age"),
    "path-object": ("/r", pathlib.PurePosixPath("a/b/c")),
    "int-path": ("/r", 5),
    "none-path": ("/r", None),
    "formattable": ("/r", Formattable()),
    "bytes-path": ("/r", b"a/b"),
    "none-root": (None, "image"),
    "bytes-root": (b"/r", "image"),
    "none-root-none-path": (None, None),
}


def location_case(root, path):
    def run():
        local = caching_path.local_cache_location(root, path)
        remote = caching_path.remote_cache_location(root, path)
        return [type(local).__name__, relative(local), local.parent.name, local.name, remote]

    return outcome(run)


def case_location_follows_cache_root():
    """``cache_root`` is read from the module when the function is called"""
    saved = caching_path.cache_root
    results = []
    try:
        for root in [pathlib.PurePosixPath("/c1"), pathlib.PurePosixPath("rel/c2"), "/a-string"]:
            caching_path.cache_root = root
            try:
                results.append(repr(caching_path.local_cache_location("/r", "a/img")))
            except Exception as e:  # noqa: BLE001
                results.append(describe_exception(e))
    finally:
        caching_path.cache_root = saved
    return results


def case_location_patched_hashsum():
    saved = caching_path.hashsum
    calls = []

    def fake(*args, **kwargs):
        calls.append((args, kwargs))
        return "HASH"

    caching_path.hashsum = fake
    try:
        result = relative(caching_path.local_cache_location("/r", "a/img"))
    finally:
        caching_path.hashsum = saved
    return [result, calls]


def case_public_names():
    return [
        issubclass(caching.CachingError, FileNotFoundError),
        caching.CachingError.__mro__[1].__name__,
        caching_path.project_name,
        [
            name
            for name in ["encode", "decode", "read_cache", "create_cache", "CachingError"]
            if not hasattr(caching, name)
        ],
        [
            name
            for name in ["hashsum", "local_cache_location", "remote_cache_location", "cache_root"]
            if not hasattr(caching_path, name)
        ],
    ]


def run_cases():
    results = {}
    for name, factory in ENCODE_INPUTS.items():
        results[f"encode/{name}"] = outcome(lambda: caching.encode(factory()))
    results["encode/keyword"] = outcome(lambda: caching.encode(obj=(1,)))
    results["encode/no-argument"] = outcome(caching.encode)

    for name, (factory, rpc) in DECODE_INPUTS.items():
        results[f"decode/{name}"] = outcome(lambda: caching.decode(factory(), rpc))
    results["decode/keywords"] = outcome(
        lambda: caching.decode(cache=VARIABLE_TEXT, records_per_chunk=2)
    )
    results["decode/missing-rpc"] = outcome(lambda: caching.decode(VARIABLE_TEXT))
    results["decode/missing-rpc-invalid-text"] = outcome(lambda: caching.decode("not-a-cache"))
    results["decode/patched-postprocess"] = outcome(case_decode_patched_postprocess)

    for name in LOCATIONS:
        results[f"read_cache/{name}"] = read_case(name)
    results["read_cache/other-root-local"] = read_case("local-only", root="/path/to/data", rpc=4)
    results["read_cache/other-root-remote"] = read_case("remote-only", root="", rpc=None)
    results["read_cache/rpc-auto"] = read_case("remote-only", rpc="auto")
    results["read_cache/is_file-fails"] = read_case(
        "both-local-wins", failures={("is_file", "image.index"): PermissionError("is_file denied")}
    )
    results["read_cache/read_text-fails"] = read_case(
        "both-local-wins", failures={("read_text", "image.index"): OSError("read_text failed")}
    )
    results["read_cache/read_text-decode-error"] = read_case(
        "local-only",
        failures={
            ("read_text", "image.index"): UnicodeDecodeError("utf-8", b"\xff", 0, 1, "invalid")
        },
    )
    results["read_cache/contains-fails"] = read_case(
        "remote-only", mapper_failures={"contains": ConnectionError("contains failed")}
    )
    results["read_cache/getitem-fails"] = read_case(
        "remote-only", mapper_failures={"getitem": KeyError("image.index")}
    )
    results["read_cache/getitem-fails-filenotfound"] = read_case(
        "remote-only", mapper_failures={"getitem": FileNotFoundError("vanished")}
    )
    results["read_cache/missing-rpc"] = outcome(
        lambda: caching.read_cache(LoggingMapper("/path/to/data", {}), "image")
    )
    results["read_cache/mapper-without-root"] = outcome(
        lambda: caching.read_cache({"image.index": b"{}"}, "image", 2)
    )
    results["read_cache/none-root"] = outcome(
        lambda: caching.read_cache(LoggingMapper(None, {}), "image", 2)
    )
    results["read_cache/real-mapper"] = outcome(case_read_real_mapper)
    results["read_cache/patched-helpers"] = outcome(case_read_patched_helpers)

    results["create_cache/empty-group"] = create_case(
        "image", lambda: Group(path="/", url="s3://bucket/data", data={}, attrs={})
    )
    results["create_cache/group-in-subdir"] = create_case("a/b/IMG-HH", make_group)
    results["create_cache/overwrites"] = create_case(
        "image",
        lambda: Variable("x", [1], {}),
        files={f"{ROOTS['s3://bucket/path/to/data']}/image.index": "old"},
    )
    results["create_cache/plain-data"] = create_case("scene/", lambda: {"a": (1, 2)}, root="")
    results["create_cache/unserialisable"] = create_case(
        "image", lambda: Group("/", "u", {}, {"arr": np.array([1, 2])})
    )
    results["create_cache/bad-variable"] = create_case(
        "image", lambda: Variable("t", np.array([], dtype="datetime64[s]"), {})
    )
    results["create_cache/mkdir-fails"] = create_case(
        "image",
        lambda: Group("/", "u", {}, {"arr": np.array([1, 2])}),
        failures={
            ("mkdir", ROOTS["s3://bucket/path/to/data"]): PermissionError("mkdir denied"),
        },
    )
    results["create_cache/write_text-fails"] = create_case(
        "image",
        lambda: Variable("x", [1], {}),
        failures={("write_text", "image.index"): OSError("disk full")},
    )
    results["create_cache/none-root"] = outcome(
        lambda: caching.create_cache(LoggingMapper(None, {}), "image", {})
    )
    results["create_cache/keywords"] = outcome(
        lambda: caching.create_cache(mapper=LoggingMapper("/path/to/data", {}), path="i", data=[()])
    )
    results["create_cache/missing-data"] = outcome(
        lambda: caching.create_cache(LoggingMapper("/path/to/data", {}), "i")
    )
    results["roundtrip"] = outcome(case_roundtrip)

    for name, func in HASH_INPUTS.items():
        results[f"hashsum/{name}"] = outcome(func)
    for name, (root, path) in LOCATION_INPUTS.items():
        results[f"location/{name}"] = location_case(root, path)
    results["location/keywords"] = outcome(
        lambda: relative(caching_path.local_cache_location(path="a/b", remote_root="/r"))
    )
    results["location/missing-path"] = outcome(lambda: caching_path.local_cache_location("/r"))
    results["location/follows-cache-root"] = outcome(case_location_follows_cache_root)
    results["location/patched-hashsum"] = outcome(case_location_patched_hashsum)
    results["public-names"] = outcome(case_public_names)
    return results


EXPECTED = {}  # replaced below by the recorded table


def check():
    actual = run_cases()
    assert list(actual) == list(EXPECTED), "case list changed"
    mismatches = [name for name in actual if actual[name] != EXPECTED[name]]
    for name in mismatches:
        print(f"MISMATCH {name}\n  expected: {EXPECTED[name]}\n  actual:   {actual[name]}")
    assert not mismatches, mismatches
    return len(actual)


def test_equivalence():
    check()


# --- recorded from the unchanged code (HEAD) -------------------------------------------
# RECORDED-TABLE
EXPECTED = {
    'encode/group': 'str(\'{"__type__": "group", "url": "s3://bucket/scene", "data": {"t": {"__type__": "variable", "dims": ["t"], "data": {"__type__": "array", "dtype": "datetime64[s]", "data": [0, 172800], "encoding": {"reference": "2000-01-01T00:00:00", "units": "s"}}, "attrs": {"a": {"__type__": "tuple", "data": [1, 2]}}}, "sub": {"__type__": "group", "url": "s3://bucket/scene", "data": {"img": {"__type__": "variable", "dims": ["rows", "cols"], "data": {"__type__": "backend_array", "root": "/path/to", "url": "file", "shape": {"__type__": "tuple", "data": [4, 3]}, "dtype": "int16", "byte_ranges": [{"__type__": "tuple", "data": [5, 10]}, {"__type__": "tuple", "data": [15, 20]}, {"__type__": "tuple", "data": [25, 30]}, {"__type__": "tuple", "data": [35, 40]}], "type_code": "IU2"}, "attrs": {"units": "dn"}}}, "path": "/sub", "attrs": {"n": 1}}, "x": {"__type__": "variable", "dims": ["x"], "data": {"__type__": "array", "dtype": "float64", "data": [1.0, 2.0], "encoding": {}}, "attrs": {}}}, "path": "/", "attrs": {"shape": {"__type__": "tuple", "data": [2, 3]}, "nested": {"t": [{"__type__": "tuple", "data": [1]}, {"__type__": "tuple", "data": []}]}}}\') | events: [] | local files: []',
    'encode/empty-group': 'str(\'{"__type__": "group", "url": "s3://bucket/data", "data": {}, "path": "/", "attrs": {}}\') | events: [] | local files: []',
    'encode/variable': 'str(\'{"__type__": "variable", "dims": ["x"], "data": {"__type__": "array", "dtype": "int64", "data": [1, 2], "encoding": {}}, "attrs": {"t": {"__type__": "tuple", "data": [1, {"__type__": "tuple", "data": [2]}]}}}\') | events: [] | local files: []',
    'encode/variable-backend': 'str(\'{"__type__": "variable", "dims": ["r", "c"], "data": {"__type__": "backend_array", "root": "/path/to", "url": "file", "shape": {"__type__": "tuple", "data": [4, 3]}, "dtype": "complex64", "byte_ranges": [{"__type__": "tuple", "data": [5, 10]}, {"__type__": "tuple", "data": [15, 20]}, {"__type__": "tuple", "data": [25, 30]}, {"__type__": "tuple", "data": [35, 40]}], "type_code": "C*8"}, "attrs": {}}\') | events: [] | local files: []',
    'encode/plain-dict': 'str(\'{"b": {"__type__": "tuple", "data": [1, 2]}, "a": [null, true, 1.5]}\') | events: [] | local files: []',
    'encode/plain-list': 'str(\'[{"__type__": "tuple", "data": [1]}, "x"]\') | events: [] | local files: []',
    'encode/plain-tuple': 'str(\'{"__type__": "tuple", "data": [1, {"__type__": "tuple", "data": [2]}]}\') | events: [] | local files: []',
    'encode/none': "str('null') | events: [] | local files: []",
    'encode/int': "str('5') | events: [] | local files: []",
    'encode/str': 'str(\'"with \\\\"quotes\\\\" and \\\\u00e9"\') | events: [] | local files: []',
    'encode/nan': "str('[NaN, Infinity]') | events: [] | local files: []",
    'encode/non-str-keys': 'str(\'{"1": "d", "null": "b", "2.5": "c"}\') | events: [] | local files: []',
    'encode/tuple-key': "raised builtins.TypeError: keys must be str, int, float, bool or None, not tuple [bases: ['Exception', 'BaseException', 'object']] [suppress_context: False] | events: [] | local files: []",
    'encode/unserialisable-ndarray': "raised builtins.TypeError: Object of type ndarray is not JSON serializable [bases: ['Exception', 'BaseException', 'object']] [suppress_context: False] | events: [] | local files: []",
    'encode/unserialisable-array': "raised builtins.TypeError: Object of type Array is not JSON serializable [bases: ['Exception', 'BaseException', 'object']] [suppress_context: False] | events: [] | local files: []",
    'encode/unserialisable-set': "raised builtins.TypeError: Object of type set is not JSON serializable [bases: ['Exception', 'BaseException', 'object']] [suppress_context: False] | events: [] | local files: []",
    'encode/unserialisable-bytes': "raised builtins.TypeError: Object of type bytes is not JSON serializable [bases: ['Exception', 'BaseException', 'object']] [suppress_context: False] | events: [] | local files: []",
    'encode/unserialisable-npint': "raised builtins.TypeError: Object of type int64 is not JSON serializable [bases: ['Exception', 'BaseException', 'object']] [suppress_context: False] | events: [] | local files: []",
    'encode/bad-variable': "raised builtins.IndexError: index 0 is out of bounds for axis 0 with size 0 [bases: ['LookupError', 'Exception', 'BaseException']] [suppress_context: False] | events: [] | local files: []",
    'encode/circular': "raised builtins.RecursionError: maximum recursion depth exceeded [bases: ['RuntimeError', 'Exception', 'BaseException']] [suppress_context: False] | events: [] | local files: []",
    'encode/keyword': 'str(\'{"__type__": "tuple", "data": [1]}\') | events: [] | local files: []',
    'encode/no-argument': "raised builtins.TypeError: encode() missing 1 required positional argument: 'obj' [bases: ['Exception', 'BaseException', 'object']] [suppress_context: False] | events: [] | local files: []",
    'decode/group': "Group<str('/'), str('s3://bucket/scene'), dict{str('t'): Variable<list[str('t')], ndarray<datetime64[s], (2,)>([datetime.datetime(2000, 1, 1, 0, 0), datetime.datetime(2000, 1, 3, 0, 0)]), dict{str('a'): tuple[int(1), int(2)]}>, str('sub'): Group<str('/sub'), str('s3://bucket/scene'), dict{str('img'): Variable<list[str('rows'), str('cols')], Array<dict{str('fs.path'): str('/path/to'), str('fs.fs'): str('LocalFileSystem'), str('url'): str('file'), str('byte_ranges'): list[tuple[int(5), int(10)], tuple[int(15), int(20)], tuple[int(25), int(30)], tuple[int(35), int(40)]], str('shape'): tuple[int(4), int(3)], str('dtype'): str('int16'), str('type_code'): str('IU2'), str('records_per_chunk'): int(2)}>, dict{str('units'): str('dn')}>}, dict{str('n'): int(1)}>, str('x'): Variable<list[str('x')], ndarray<float64, (2,)>([1.0, 2.0]), dict{}>}, dict{str('shape'): tuple[int(2), int(3)], str('nested'): dict{str('t'): list[tuple[int(1)], tuple[]]}}> | events: [] | local files: []",
    'decode/group-rpc-none': "Group<str('/'), str('s3://bucket/scene'), dict{str('t'): Variable<list[str('t')], ndarray<datetime64[s], (2,)>([datetime.datetime(2000, 1, 1, 0, 0), datetime.datetime(2000, 1, 3, 0, 0)]), dict{str('a'): tuple[int(1), int(2)]}>, str('sub'): Group<str('/sub'), str('s3://bucket/scene'), dict{str('img'): Variable<list[str('rows'), str('cols')], Array<dict{str('fs.path'): str('/path/to'), str('fs.fs'): str('LocalFileSystem'), str('url'): str('file'), str('byte_ranges'): list[tuple[int(5), int(10)], tuple[int(15), int(20)], tuple[int(25), int(30)], tuple[int(35), int(40)]], str('shape'): tuple[int(4), int(3)], str('dtype'): str('int16'), str('type_code'): str('IU2'), str('records_per_chunk'): int(1024)}>, dict{str('units'): str('dn')}>}, dict{str('n'): int(1)}>, str('x'): Variable<list[str('x')], ndarray<float64, (2,)>([1.0, 2.0]), dict{}>}, dict{str('shape'): tuple[int(2), int(3)], str('nested'): dict{str('t'): list[tuple[int(1)], tuple[]]}}> | events: [] | local files: []",
    'decode/group-rpc-auto': "Group<str('/'), str('s3://bucket/scene'), dict{str('t'): Variable<list[str('t')], ndarray<datetime64[s], (2,)>([datetime.datetime(2000, 1, 1, 0, 0), datetime.datetime(2000, 1, 3, 0, 0)]), dict{str('a'): tuple[int(1), int(2)]}>, str('sub'): Group<str('/sub'), str('s3://bucket/scene'), dict{str('img'): Variable<list[str('rows'), str('cols')], Array<dict{str('fs.path'): str('/path/to'), str('fs.fs'): str('LocalFileSystem'), str('url'): str('file'), str('byte_ranges'): list[tuple[int(5), int(10)], tuple[int(15), int(20)], tuple[int(25), int(30)], tuple[int(35), int(40)]], str('shape'): tuple[int(4), int(3)], str('dtype'): str('int16'), str('type_code'): str('IU2'), str('records_per_chunk'): int64(np.int64(4))}>, dict{str('units'): str('dn')}>}, dict{str('n'): int(1)}>, str('x'): Variable<list[str('x')], ndarray<float64, (2,)>([1.0, 2.0]), dict{}>}, dict{str('shape'): tuple[int(2), int(3)], str('nested'): dict{str('t'): list[tuple[int(1)], tuple[]]}}> | events: [] | local files: []",
    'decode/backend': "Group<str('/'), NoneType(None), dict{str('v'): Variable<list[str('x'), str('y')], Array<dict{str('fs.path'): str('/path/to'), str('fs.fs'): str('MemoryFileSystem'), str('url'): str('file'), str('byte_ranges'): list[tuple[int(5), int(10)], tuple[int(15), int(20)], tuple[int(25), int(30)], tuple[int(35), int(40)]], str('shape'): tuple[int(4), int(3)], str('dtype'): str('complex64'), str('type_code'): str('C*8'), str('records_per_chunk'): int(3)}>, dict{}>}, dict{}> | events: [] | local files: []",
    'decode/variable': "Variable<list[str('x')], ndarray<int8, (2,)>([1, 2]), dict{str('t'): tuple[int(1), tuple[]]}> | events: [] | local files: []",
    'decode/bytes': "Variable<list[str('x')], ndarray<int8, (2,)>([1, 2]), dict{str('t'): tuple[int(1), tuple[]]}> | events: [] | local files: []",
    'decode/bytearray': "Variable<list[str('x')], ndarray<int8, (2,)>([1, 2]), dict{str('t'): tuple[int(1), tuple[]]}> | events: [] | local files: []",
    'decode/utf16-bytes': "Variable<list[str('x')], ndarray<int8, (2,)>([1, 2]), dict{str('t'): tuple[int(1), tuple[]]}> | events: [] | local files: []",
    'decode/with-whitespace': "Variable<list[str('x')], ndarray<int8, (2,)>([1, 2]), dict{str('t'): tuple[int(1), tuple[]]}> | events: [] | local files: []",
    'decode/plain-dict': "dict{str('a'): int(1), str('b'): list[int(1), int(2)]} | events: [] | local files: []",
    'decode/plain-dict-with-tuple': "dict{str('a'): tuple[int(1), int(2)]} | events: [] | local files: []",
    'decode/unknown-type': "dict{str('__type__'): str('dataset'), str('data'): dict{}} | events: [] | local files: []",
    'decode/unhashable-type': "raised builtins.TypeError: unhashable type: 'list' [bases: ['Exception', 'BaseException', 'object']] [suppress_context: False] | events: [] | local files: []",
    'decode/top-level-tuple': "raised builtins.AttributeError: 'tuple' object has no attribute 'get' [bases: ['Exception', 'BaseException', 'object']] [suppress_context: False] | events: [] | local files: []",
    'decode/top-level-list': "raised builtins.AttributeError: 'list' object has no attribute 'get' [bases: ['Exception', 'BaseException', 'object']] [suppress_context: False] | events: [] | local files: []",
    'decode/top-level-int': "raised builtins.AttributeError: 'int' object has no attribute 'get' [bases: ['Exception', 'BaseException', 'object']] [suppress_context: False] | events: [] | local files: []",
    'decode/top-level-null': "raised builtins.AttributeError: 'NoneType' object has no attribute 'get' [bases: ['Exception', 'BaseException', 'object']] [suppress_context: False] | events: [] | local files: []",
    'decode/top-level-string': "raised builtins.AttributeError: 'str' object has no attribute 'get' [bases: ['Exception', 'BaseException', 'object']] [suppress_context: False] | events: [] | local files: []",
    'decode/nan-literal': "dict{str('a'): float(nan)} | events: [] | local files: []",
    'decode/tuple-without-data': "raised builtins.KeyError: 'data' [bases: ['LookupError', 'Exception', 'BaseException']] [suppress_context: False] | events: [] | local files: []",
    'decode/tuple-with-int-data': "raised builtins.TypeError: 'int' object is not iterable [bases: ['Exception', 'BaseException', 'object']] [suppress_context: False] | events: [] | local files: []",
    'decode/group-without-data': "raised builtins.KeyError: 'data' [bases: ['LookupError', 'Exception', 'BaseException']] [suppress_context: False] | events: [] | local files: []",
    'decode/group-with-list-data': "raised builtins.AttributeError: 'list' object has no attribute 'keys' [bases: ['Exception', 'BaseException', 'object']] [suppress_context: False] | events: [] | local files: []",
    'decode/variable-broken-array': "raised builtins.KeyError: 'dtype' [bases: ['LookupError', 'Exception', 'BaseException']] [suppress_context: False] | events: [] | local files: []",
    'decode/variable-bad-dtype': "raised builtins.TypeError: data type 'nope' not understood [bases: ['Exception', 'BaseException', 'object']] [suppress_context: False] | events: [] | local files: []",
    'decode/empty': "raised ceos_alos2.sar_image.caching.CachingError: invalid or incomplete cache file [bases: ['FileNotFoundError', 'OSError', 'Exception']] [cause: JSONDecodeError: Expecting value: line 1 column 1 (char 0)] [suppress_context: True] | events: [] | local files: []",
    'decode/blank': "raised ceos_alos2.sar_image.caching.CachingError: invalid or incomplete cache file [bases: ['FileNotFoundError', 'OSError', 'Exception']] [cause: JSONDecodeError: Expecting value: line 1 column 4 (char 3)] [suppress_context: True] | events: [] | local files: []",
    'decode/truncated': "raised ceos_alos2.sar_image.caching.CachingError: invalid or incomplete cache file [bases: ['FileNotFoundError', 'OSError', 'Exception']] [cause: JSONDecodeError: Expecting property name enclosed in double quotes: line 1 column 51 (char 50)] [suppress_context: True] | events: [] | local files: []",
    'decode/truncated-by-one': "raised ceos_alos2.sar_image.caching.CachingError: invalid or incomplete cache file [bases: ['FileNotFoundError', 'OSError', 'Exception']] [cause: JSONDecodeError: Expecting ',' delimiter: line 1 column 487 (char 486)] [suppress_context: True] | events: [] | local files: []",
    'decode/trailing-garbage': "raised ceos_alos2.sar_image.caching.CachingError: invalid or incomplete cache file [bases: ['FileNotFoundError', 'OSError', 'Exception']] [cause: JSONDecodeError: Extra data: line 1 column 207 (char 206)] [suppress_context: True] | events: [] | local files: []",
    'decode/two-documents': "raised ceos_alos2.sar_image.caching.CachingError: invalid or incomplete cache file [bases: ['FileNotFoundError', 'OSError', 'Exception']] [cause: JSONDecodeError: Extra data: line 1 column 207 (char 206)] [suppress_context: True] | events: [] | local files: []",
    'decode/single-quotes': "raised ceos_alos2.sar_image.caching.CachingError: invalid or incomplete cache file [bases: ['FileNotFoundError', 'OSError', 'Exception']] [cause: JSONDecodeError: Expecting property name enclosed in double quotes: line 1 column 2 (char 1)] [suppress_context: True] | events: [] | local files: []",
    'decode/not-json': "raised ceos_alos2.sar_image.caching.CachingError: invalid or incomplete cache file [bases: ['FileNotFoundError', 'OSError', 'Exception']] [cause: JSONDecodeError: Expecting value: line 1 column 1 (char 0)] [suppress_context: True] | events: [] | local files: []",
    'decode/invalid-utf8-bytes': "raised ceos_alos2.sar_image.caching.CachingError: invalid or incomplete cache file [bases: ['FileNotFoundError', 'OSError', 'Exception']] [cause: UnicodeDecodeError: 'utf-16-le' codec can't decode byte 0xfa in position 2: truncated data] [suppress_context: True] | events: [] | local files: []",
    'decode/none': "raised builtins.TypeError: the JSON object must be str, bytes or bytearray, not NoneType [bases: ['Exception', 'BaseException', 'object']] [suppress_context: False] | events: [] | local files: []",
    'decode/int': "raised builtins.TypeError: the JSON object must be str, bytes or bytearray, not int [bases: ['Exception', 'BaseException', 'object']] [suppress_context: False] | events: [] | local files: []",
    'decode/dict': "raised builtins.TypeError: the JSON object must be str, bytes or bytearray, not dict [bases: ['Exception', 'BaseException', 'object']] [suppress_context: False] | events: [] | local files: []",
    'decode/keywords': "Variable<list[str('x')], ndarray<int8, (2,)>([1, 2]), dict{str('t'): tuple[int(1), tuple[]]}> | events: [] | local files: []",
    'decode/missing-rpc': "raised builtins.TypeError: decode() missing 1 required positional argument: 'records_per_chunk' [bases: ['Exception', 'BaseException', 'object']] [suppress_context: False] | events: [] | local files: []",
    'decode/missing-rpc-invalid-text': "raised builtins.TypeError: decode() missing 1 required positional argument: 'records_per_chunk' [bases: ['Exception', 'BaseException', 'object']] [suppress_context: False] | events: [] | local files: []",
    'decode/patched-postprocess': 'list[list[tuple[str(\'decoded\'), dict{str(\'a\'): dict{str(\'b\'): int(1)}}, int(7)], str("raised ceos_alos2.sar_image.caching.CachingError: invalid or incomplete cache file [bases: [\'FileNotFoundError\', \'OSError\', \'Exception\']] [cause: ValueError: raised by the hook] [suppress_context: True]"), str("raised builtins.TypeError: raised by the hook [bases: [\'Exception\', \'BaseException\', \'object\']] [suppress_context: False]")], list[list[str(\'b\')], list[str(\'a\')], list[str(\'fail\')], list[str(\'type-error\')]]] | events: [] | local files: []',
    'read_cache/neither': "raised ceos_alos2.sar_image.caching.CachingError: no cache found for image [bases: ['FileNotFoundError', 'OSError', 'Exception']] [suppress_context: False] | events: [('mapper.root',), ('mapper.root',), ('is_file', '04391cfcf37045b78e7b4793392821b5b4c84591edfcb475954130eb34b87366/image.index'), ('mapper.__contains__', 'image.index')] | local files: []",
    'read_cache/remote-only': "Group<str('/'), NoneType(None), dict{str('v'): Variable<list[str('x'), str('y')], Array<dict{str('fs.path'): str('/path/to'), str('fs.fs'): str('MemoryFileSystem'), str('url'): str('file'), str('byte_ranges'): list[tuple[int(5), int(10)], tuple[int(15), int(20)], tuple[int(25), int(30)], tuple[int(35), int(40)]], str('shape'): tuple[int(4), int(3)], str('dtype'): str('complex64'), str('type_code'): str('C*8'), str('records_per_chunk'): int(2)}>, dict{}>}, dict{}> | events: [('mapper.root',), ('mapper.root',), ('is_file', '04391cfcf37045b78e7b4793392821b5b4c84591edfcb475954130eb34b87366/image.index'), ('mapper.__contains__', 'image.index'), ('mapper.__getitem__', 'image.index')] | local files: []",
    'read_cache/local-only': "Group<str('/'), NoneType(None), dict{str('v'): Variable<list[str('x'), str('y')], Array<dict{str('fs.path'): str('/path/to'), str('fs.fs'): str('MemoryFileSystem'), str('url'): str('file'), str('byte_ranges'): list[tuple[int(5), int(10)], tuple[int(15), int(20)], tuple[int(25), int(30)], tuple[int(35), int(40)]], str('shape'): tuple[int(4), int(3)], str('dtype'): str('complex64'), str('type_code'): str('C*8'), str('records_per_chunk'): int(2)}>, dict{}>}, dict{}> | events: [('mapper.root',), ('mapper.root',), ('is_file', '04391cfcf37045b78e7b4793392821b5b4c84591edfcb475954130eb34b87366/image.index'), ('read_text', '04391cfcf37045b78e7b4793392821b5b4c84591edfcb475954130eb34b87366/image.index', (), {})] | local files: ['04391cfcf37045b78e7b4793392821b5b4c84591edfcb475954130eb34b87366/image.index']",
    'read_cache/both-local-wins': "Variable<list[str('x')], ndarray<int8, (2,)>([1, 2]), dict{str('t'): tuple[int(1), tuple[]]}> | events: [('mapper.root',), ('mapper.root',), ('is_file', '04391cfcf37045b78e7b4793392821b5b4c84591edfcb475954130eb34b87366/image.index'), ('read_text', '04391cfcf37045b78e7b4793392821b5b4c84591edfcb475954130eb34b87366/image.index', (), {})] | local files: ['04391cfcf37045b78e7b4793392821b5b4c84591edfcb475954130eb34b87366/image.index']",
    'read_cache/other-names-only': "raised ceos_alos2.sar_image.caching.CachingError: no cache found for image [bases: ['FileNotFoundError', 'OSError', 'Exception']] [suppress_context: False] | events: [('mapper.root',), ('mapper.root',), ('is_file', '04391cfcf37045b78e7b4793392821b5b4c84591edfcb475954130eb34b87366/image.index'), ('mapper.__contains__', 'image.index')] | local files: ['04391cfcf37045b78e7b4793392821b5b4c84591edfcb475954130eb34b87366/image', '04391cfcf37045b78e7b4793392821b5b4c84591edfcb475954130eb34b87366/other.index']",
    'read_cache/subdir-remote': "Group<str('/'), NoneType(None), dict{str('v'): Variable<list[str('x'), str('y')], Array<dict{str('fs.path'): str('/path/to'), str('fs.fs'): str('MemoryFileSystem'), str('url'): str('file'), str('byte_ranges'): list[tuple[int(5), int(10)], tuple[int(15), int(20)], tuple[int(25), int(30)], tuple[int(35), int(40)]], str('shape'): tuple[int(4), int(3)], str('dtype'): str('complex64'), str('type_code'): str('C*8'), str('records_per_chunk'): int(2)}>, dict{}>}, dict{}> | events: [('mapper.root',), ('mapper.root',), ('is_file', '04391cfcf37045b78e7b4793392821b5b4c84591edfcb475954130eb34b87366/IMG-HH-X.index'), ('mapper.__contains__', 'a/b/IMG-HH-X.index'), ('mapper.__getitem__', 'a/b/IMG-HH-X.index')] | local files: []",
    'read_cache/subdir-local': "Group<str('/'), NoneType(None), dict{str('v'): Variable<list[str('x'), str('y')], Array<dict{str('fs.path'): str('/path/to'), str('fs.fs'): str('MemoryFileSystem'), str('url'): str('file'), str('byte_ranges'): list[tuple[int(5), int(10)], tuple[int(15), int(20)], tuple[int(25), int(30)], tuple[int(35), int(40)]], str('shape'): tuple[int(4), int(3)], str('dtype'): str('complex64'), str('type_code'): str('C*8'), str('records_per_chunk'): int(2)}>, dict{}>}, dict{}> | events: [('mapper.root',), ('mapper.root',), ('is_file', '04391cfcf37045b78e7b4793392821b5b4c84591edfcb475954130eb34b87366/IMG-HH-X.index'), ('read_text', '04391cfcf37045b78e7b4793392821b5b4c84591edfcb475954130eb34b87366/IMG-HH-X.index', (), {})] | local files: ['04391cfcf37045b78e7b4793392821b5b4c84591edfcb475954130eb34b87366/IMG-HH-X.index']",
    'read_cache/subdir-local-misplaced': "raised ceos_alos2.sar_image.caching.CachingError: no cache found for a/b/IMG-HH-X [bases: ['FileNotFoundError', 'OSError', 'Exception']] [suppress_context: False] | events: [('mapper.root',), ('mapper.root',), ('is_file', '04391cfcf37045b78e7b4793392821b5b4c84591edfcb475954130eb34b87366/IMG-HH-X.index'), ('mapper.__contains__', 'a/b/IMG-HH-X.index')] | local files: ['04391cfcf37045b78e7b4793392821b5b4c84591edfcb475954130eb34b87366/a/b/IMG-HH-X.index']",
    'read_cache/subdir-remote-flat-name-only': "raised ceos_alos2.sar_image.caching.CachingError: no cache found for a/b/IMG-HH-X [bases: ['FileNotFoundError', 'OSError', 'Exception']] [suppress_context: False] | events: [('mapper.root',), ('mapper.root',), ('is_file', '04391cfcf37045b78e7b4793392821b5b4c84591edfcb475954130eb34b87366/IMG-HH-X.index'), ('mapper.__contains__', 'a/b/IMG-HH-X.index')] | local files: []",
    'read_cache/trailing-slash': "Variable<list[str('x')], ndarray<int8, (2,)>([1, 2]), dict{str('t'): tuple[int(1), tuple[]]}> | events: [('mapper.root',), ('mapper.root',), ('is_file', '04391cfcf37045b78e7b4793392821b5b4c84591edfcb475954130eb34b87366/.index'), ('read_text', '04391cfcf37045b78e7b4793392821b5b4c84591edfcb475954130eb34b87366/.index', (), {})] | local files: ['04391cfcf37045b78e7b4793392821b5b4c84591edfcb475954130eb34b87366/.index']",
    'read_cache/trailing-slash-remote': "Group<str('/'), NoneType(None), dict{str('v'): Variable<list[str('x'), str('y')], Array<dict{str('fs.path'): str('/path/to'), str('fs.fs'): str('MemoryFileSystem'), str('url'): str('file'), str('byte_ranges'): list[tuple[int(5), int(10)], tuple[int(15), int(20)], tuple[int(25), int(30)], tuple[int(35), int(40)]], str('shape'): tuple[int(4), int(3)], str('dtype'): str('complex64'), str('type_code'): str('C*8'), str('records_per_chunk'): int(2)}>, dict{}>}, dict{}> | events: [('mapper.root',), ('mapper.root',), ('is_file', '04391cfcf37045b78e7b4793392821b5b4c84591edfcb475954130eb34b87366/.index'), ('mapper.__contains__', 'scene/.index'), ('mapper.__getitem__', 'scene/.index')] | local files: []",
    'read_cache/empty-path': "Variable<list[str('x')], ndarray<int8, (2,)>([1, 2]), dict{str('t'): tuple[int(1), tuple[]]}> | events: [('mapper.root',), ('mapper.root',), ('is_file', '04391cfcf37045b78e7b4793392821b5b4c84591edfcb475954130eb34b87366/.index'), ('mapper.__contains__', '.index'), ('mapper.__getitem__', '.index')] | local files: []",
    'read_cache/leading-slash': "Variable<list[str('x')], ndarray<int8, (2,)>([1, 2]), dict{str('t'): tuple[int(1), tuple[]]}> | events: [('mapper.root',), ('mapper.root',), ('is_file', '04391cfcf37045b78e7b4793392821b5b4c84591edfcb475954130eb34b87366/image.index'), ('mapper.__contains__', '/abs/image.index'), ('mapper.__getitem__', '/abs/image.index')] | local files: []",
    'read_cache/dots': "Variable<list[str('x')], ndarray<int8, (2,)>([1, 2]), dict{str('t'): tuple[int(1), tuple[]]}> | events: [('mapper.root',), ('mapper.root',), ('is_file', '04391cfcf37045b78e7b4793392821b5b4c84591edfcb475954130eb34b87366/image.1.tif.index'), ('read_text', '04391cfcf37045b78e7b4793392821b5b4c84591edfcb475954130eb34b87366/image.1.tif.index', (), {})] | local files: ['04391cfcf37045b78e7b4793392821b5b4c84591edfcb475954130eb34b87366/image.1.tif.index']",
    'read_cache/already-index': "Variable<list[str('x')], ndarray<int8, (2,)>([1, 2]), dict{str('t'): tuple[int(1), tuple[]]}> | events: [('mapper.root',), ('mapper.root',), ('is_file', '04391cfcf37045b78e7b4793392821b5b4c84591edfcb475954130eb34b87366/image.index.index'), ('mapper.__contains__', 'image.index.index'), ('mapper.__getitem__', 'image.index.index')] | local files: []",
    'read_cache/local-invalid': "raised ceos_alos2.sar_image.caching.CachingError: invalid or incomplete cache file [bases: ['FileNotFoundError', 'OSError', 'Exception']] [cause: JSONDecodeError: Unterminated string starting at: line 1 column 75 (char 74)] [suppress_context: True] | events: [('mapper.root',), ('mapper.root',), ('is_file', '04391cfcf37045b78e7b4793392821b5b4c84591edfcb475954130eb34b87366/image.index'), ('read_text', '04391cfcf37045b78e7b4793392821b5b4c84591edfcb475954130eb34b87366/image.index', (), {})] | local files: ['04391cfcf37045b78e7b4793392821b5b4c84591edfcb475954130eb34b87366/image.index']",
    'read_cache/remote-invalid': "raised ceos_alos2.sar_image.caching.CachingError: invalid or incomplete cache file [bases: ['FileNotFoundError', 'OSError', 'Exception']] [cause: JSONDecodeError: Unterminated string starting at: line 1 column 75 (char 74)] [suppress_context: True] | events: [('mapper.root',), ('mapper.root',), ('is_file', '04391cfcf37045b78e7b4793392821b5b4c84591edfcb475954130eb34b87366/image.index'), ('mapper.__contains__', 'image.index'), ('mapper.__getitem__', 'image.index')] | local files: []",
    'read_cache/remote-not-json': "raised ceos_alos2.sar_image.caching.CachingError: invalid or incomplete cache file [bases: ['FileNotFoundError', 'OSError', 'Exception']] [cause: JSONDecodeError: Expecting value: line 1 column 1 (char 0)] [suppress_context: True] | events: [('mapper.root',), ('mapper.root',), ('is_file', '04391cfcf37045b78e7b4793392821b5b4c84591edfcb475954130eb34b87366/image.index'), ('mapper.__contains__', 'image.index'), ('mapper.__getitem__', 'image.index')] | local files: []",
    'read_cache/remote-empty': "raised ceos_alos2.sar_image.caching.CachingError: invalid or incomplete cache file [bases: ['FileNotFoundError', 'OSError', 'Exception']] [cause: JSONDecodeError: Expecting value: line 1 column 1 (char 0)] [suppress_context: True] | events: [('mapper.root',), ('mapper.root',), ('is_file', '04391cfcf37045b78e7b4793392821b5b4c84591edfcb475954130eb34b87366/image.index'), ('mapper.__contains__', 'image.index'), ('mapper.__getitem__', 'image.index')] | local files: []",
    'read_cache/remote-invalid-utf8': "raised builtins.UnicodeDecodeError: 'utf-8' codec can't decode byte 0xff in position 0: invalid start byte [bases: ['UnicodeError', 'ValueError', 'Exception']] [suppress_context: False] | events: [('mapper.root',), ('mapper.root',), ('is_file', '04391cfcf37045b78e7b4793392821b5b4c84591edfcb475954130eb34b87366/image.index'), ('mapper.__contains__', 'image.index'), ('mapper.__getitem__', 'image.index')] | local files: []",
    'read_cache/remote-str-instead-of-bytes': "raised builtins.AttributeError: 'str' object has no attribute 'decode' [bases: ['Exception', 'BaseException', 'object']] [suppress_context: False] | events: [('mapper.root',), ('mapper.root',), ('is_file', '04391cfcf37045b78e7b4793392821b5b4c84591edfcb475954130eb34b87366/image.index'), ('mapper.__contains__', 'image.index'), ('mapper.__getitem__', 'image.index')] | local files: []",
    'read_cache/local-empty': "raised ceos_alos2.sar_image.caching.CachingError: invalid or incomplete cache file [bases: ['FileNotFoundError', 'OSError', 'Exception']] [cause: JSONDecodeError: Expecting value: line 1 column 1 (char 0)] [suppress_context: True] | events: [('mapper.root',), ('mapper.root',), ('is_file', '04391cfcf37045b78e7b4793392821b5b4c84591edfcb475954130eb34b87366/image.index'), ('read_text', '04391cfcf37045b78e7b4793392821b5b4c84591edfcb475954130eb34b87366/image.index', (), {})] | local files: ['04391cfcf37045b78e7b4793392821b5b4c84591edfcb475954130eb34b87366/image.index']",
    'read_cache/local-plain-json': "dict{str('a'): list[int(1), int(2)]} | events: [('mapper.root',), ('mapper.root',), ('is_file', '04391cfcf37045b78e7b4793392821b5b4c84591edfcb475954130eb34b87366/image.index'), ('read_text', '04391cfcf37045b78e7b4793392821b5b4c84591edfcb475954130eb34b87366/image.index', (), {})] | local files: ['04391cfcf37045b78e7b4793392821b5b4c84591edfcb475954130eb34b87366/image.index']",
    'read_cache/local-list-json': "raised builtins.AttributeError: 'list' object has no attribute 'get' [bases: ['Exception', 'BaseException', 'object']] [suppress_context: False] | events: [('mapper.root',), ('mapper.root',), ('is_file', '04391cfcf37045b78e7b4793392821b5b4c84591edfcb475954130eb34b87366/image.index'), ('read_text', '04391cfcf37045b78e7b4793392821b5b4c84591edfcb475954130eb34b87366/image.index', (), {})] | local files: ['04391cfcf37045b78e7b4793392821b5b4c84591edfcb475954130eb34b87366/image.index']",
    'read_cache/other-root-local': "Group<str('/'), NoneType(None), dict{str('v'): Variable<list[str('x'), str('y')], Array<dict{str('fs.path'): str('/path/to'), str('fs.fs'): str('MemoryFileSystem'), str('url'): str('file'), str('byte_ranges'): list[tuple[int(5), int(10)], tuple[int(15), int(20)], tuple[int(25), int(30)], tuple[int(35), int(40)]], str('shape'): tuple[int(4), int(3)], str('dtype'): str('complex64'), str('type_code'): str('C*8'), str('records_per_chunk'): int(4)}>, dict{}>}, dict{}> | events: [('mapper.root',), ('mapper.root',), ('is_file', '7b405676e8ed8556a3f4f98f4dc5b6df940f3a5ce48674046eebda551e335b37/image.index'), ('read_text', '7b405676e8ed8556a3f4f98f4dc5b6df940f3a5ce48674046eebda551e335b37/image.index', (), {})] | local files: ['7b405676e8ed8556a3f4f98f4dc5b6df940f3a5ce48674046eebda551e335b37/image.index']",
    'read_cache/other-root-remote': "Group<str('/'), NoneType(None), dict{str('v'): Variable<list[str('x'), str('y')], Array<dict{str('fs.path'): str('/path/to'), str('fs.fs'): str('MemoryFileSystem'), str('url'): str('file'), str('byte_ranges'): list[tuple[int(5), int(10)], tuple[int(15), int(20)], tuple[int(25), int(30)], tuple[int(35), int(40)]], str('shape'): tuple[int(4), int(3)], str('dtype'): str('complex64'), str('type_code'): str('C*8'), str('records_per_chunk'): int(1024)}>, dict{}>}, dict{}> | events: [('mapper.root',), ('mapper.root',), ('is_file', 'e3b0c44298fc1c149afbf4c8996fb92427ae41e4649b934ca495991b7852b855/image.index'), ('mapper.__contains__', 'image.index'), ('mapper.__getitem__', 'image.index')] | local files: []",
    'read_cache/rpc-auto': "Group<str('/'), NoneType(None), dict{str('v'): Variable<list[str('x'), str('y')], Array<dict{str('fs.path'): str('/path/to'), str('fs.fs'): str('MemoryFileSystem'), str('url'): str('file'), str('byte_ranges'): list[tuple[int(5), int(10)], tuple[int(15), int(20)], tuple[int(25), int(30)], tuple[int(35), int(40)]], str('shape'): tuple[int(4), int(3)], str('dtype'): str('complex64'), str('type_code'): str('C*8'), str('records_per_chunk'): int64(np.int64(4))}>, dict{}>}, dict{}> | events: [('mapper.root',), ('mapper.root',), ('is_file', '04391cfcf37045b78e7b4793392821b5b4c84591edfcb475954130eb34b87366/image.index'), ('mapper.__contains__', 'image.index'), ('mapper.__getitem__', 'image.index')] | local files: []",
    'read_cache/is_file-fails': "raised builtins.PermissionError: is_file denied [bases: ['OSError', 'Exception', 'BaseException']] [suppress_context: False] | events: [('mapper.root',), ('mapper.root',), ('is_file', '04391cfcf37045b78e7b4793392821b5b4c84591edfcb475954130eb34b87366/image.index')] | local files: ['04391cfcf37045b78e7b4793392821b5b4c84591edfcb475954130eb34b87366/image.index']",
    'read_cache/read_text-fails': "raised builtins.OSError: read_text failed [bases: ['Exception', 'BaseException', 'object']] [suppress_context: False] | events: [('mapper.root',), ('mapper.root',), ('is_file', '04391cfcf37045b78e7b4793392821b5b4c84591edfcb475954130eb34b87366/image.index'), ('read_text', '04391cfcf37045b78e7b4793392821b5b4c84591edfcb475954130eb34b87366/image.index', (), {})] | local files: ['04391cfcf37045b78e7b4793392821b5b4c84591edfcb475954130eb34b87366/image.index']",
    'read_cache/read_text-decode-error': "raised builtins.UnicodeDecodeError: 'utf-8' codec can't decode byte 0xff in position 0: invalid [bases: ['UnicodeError', 'ValueError', 'Exception']] [suppress_context: False] | events: [('mapper.root',), ('mapper.root',), ('is_file', '04391cfcf37045b78e7b4793392821b5b4c84591edfcb475954130eb34b87366/image.index'), ('read_text', '04391cfcf37045b78e7b4793392821b5b4c84591edfcb475954130eb34b87366/image.index', (), {})] | local files: ['04391cfcf37045b78e7b4793392821b5b4c84591edfcb475954130eb34b87366/image.index']",
    'read_cache/contains-fails': "raised builtins.ConnectionError: contains failed [bases: ['OSError', 'Exception', 'BaseException']] [suppress_context: False] | events: [('mapper.root',), ('mapper.root',), ('is_file', '04391cfcf37045b78e7b4793392821b5b4c84591edfcb475954130eb34b87366/image.index'), ('mapper.__contains__', 'image.index')] | local files: []",
    'read_cache/getitem-fails': "raised builtins.KeyError: 'image.index' [bases: ['LookupError', 'Exception', 'BaseException']] [suppress_context: False] | events: [('mapper.root',), ('mapper.root',), ('is_file', '04391cfcf37045b78e7b4793392821b5b4c84591edfcb475954130eb34b87366/image.index'), ('mapper.__contains__', 'image.index'), ('mapper.__getitem__', 'image.index')] | local files: []",
    'read_cache/getitem-fails-filenotfound': "raised builtins.FileNotFoundError: vanished [bases: ['OSError', 'Exception', 'BaseException']] [suppress_context: False] | events: [('mapper.root',), ('mapper.root',), ('is_file', '04391cfcf37045b78e7b4793392821b5b4c84591edfcb475954130eb34b87366/image.index'), ('mapper.__contains__', 'image.index'), ('mapper.__getitem__', 'image.index')] | local files: []",
    'read_cache/missing-rpc': "raised builtins.TypeError: read_cache() missing 1 required positional argument: 'records_per_chunk' [bases: ['Exception', 'BaseException', 'object']] [suppress_context: False] | events: [] | local files: []",
    'read_cache/mapper-without-root': "raised builtins.AttributeError: 'dict' object has no attribute 'root' [bases: ['Exception', 'BaseException', 'object']] [suppress_context: False] | events: [] | local files: []",
    'read_cache/none-root': "raised builtins.AttributeError: 'NoneType' object has no attribute 'encode' [bases: ['Exception', 'BaseException', 'object']] [suppress_context: False] | events: [('mapper.root',), ('mapper.root',)] | local files: []",
    'read_cache/real-mapper': 'list[Group<str(\'/\'), NoneType(None), dict{str(\'v\'): Variable<list[str(\'x\'), str(\'y\')], Array<dict{str(\'fs.path\'): str(\'/path/to\'), str(\'fs.fs\'): str(\'MemoryFileSystem\'), str(\'url\'): str(\'file\'), str(\'byte_ranges\'): list[tuple[int(5), int(10)], tuple[int(15), int(20)], tuple[int(25), int(30)], tuple[int(35), int(40)]], str(\'shape\'): tuple[int(4), int(3)], str(\'dtype\'): str(\'complex64\'), str(\'type_code\'): str(\'C*8\'), str(\'records_per_chunk\'): int(3)}>, dict{}>}, dict{}>, Variable<list[str(\'x\')], ndarray<int8, (2,)>([1, 2]), dict{str(\'t\'): tuple[int(1), tuple[]]}>, str("raised ceos_alos2.sar_image.caching.CachingError: no cache found for image3 [bases: [\'FileNotFoundError\', \'OSError\', \'Exception\']] [suppress_context: False]"), str("raised ceos_alos2.sar_image.caching.CachingError: no cache found for not-a-cache [bases: [\'FileNotFoundError\', \'OSError\', \'Exception\']] [suppress_context: False]")] | events: [(\'is_file\', \'da69f56db8b170f67dfe60fb4b613151f837c8b8f76905e37b6ae2518758d543/image1.index\'), (\'is_file\', \'da69f56db8b170f67dfe60fb4b613151f837c8b8f76905e37b6ae2518758d543/image3.index\'), (\'is_file\', \'da69f56db8b170f67dfe60fb4b613151f837c8b8f76905e37b6ae2518758d543/image3.index\'), (\'is_file\', \'da69f56db8b170f67dfe60fb4b613151f837c8b8f76905e37b6ae2518758d543/not-a-cache.index\')] | local files: []',
    'read_cache/patched-helpers': 'list[Variable<list[str(\'x\')], ndarray<int8, (2,)>([1, 2]), dict{str(\'t\'): tuple[int(1), tuple[]]}>, str("raised ceos_alos2.sar_image.caching.CachingError: no cache found for b/image [bases: [\'FileNotFoundError\', \'OSError\', \'Exception\']] [suppress_context: False]"), Variable<list[str(\'x\')], ndarray<int64, (1,)>([1]), dict{}>] | events: [(\'mapper.root\',), (\'call:remote_cache_location\', "tuple[str(\'s3://bucket/path/to/data\'), str(\'a/image\')]", \'dict{}\'), (\'mapper.root\',), (\'call:local_cache_location\', "tuple[str(\'s3://bucket/path/to/data\'), str(\'a/image\')]", \'dict{}\'), (\'is_file\', \'04391cfcf37045b78e7b4793392821b5b4c84591edfcb475954130eb34b87366/image.index\'), (\'mapper.__contains__\', \'a/image.index\'), (\'mapper.__getitem__\', \'a/image.index\'), (\'call:decode\', \'tuple[str(\\\'{"__type__": "variable", "dims": ["x"], "data": {"__type__": "array", "dtype": "int8", "data": [1, 2], "encoding": {}}, "attrs": {"t": {"__type__": "tuple", "data": [1, {"__type__": "tuple", "data": []}]}}}\\\')]\', "dict{str(\'records_per_chunk\'): int(2)}"), (\'mapper.root\',), (\'call:remote_cache_location\', "tuple[str(\'s3://bucket/path/to/data\'), str(\'b/image\')]", \'dict{}\'), (\'mapper.root\',), (\'call:local_cache_location\', "tuple[str(\'s3://bucket/path/to/data\'), str(\'b/image\')]", \'dict{}\'), (\'is_file\', \'04391cfcf37045b78e7b4793392821b5b4c84591edfcb475954130eb34b87366/image.index\'), (\'mapper.__contains__\', \'b/image.index\'), (\'mapper.root\',), (\'call:local_cache_location\', "tuple[str(\'s3://bucket/path/to/data\'), str(\'c/image\')]", \'dict{}\'), (\'mkdir\', \'04391cfcf37045b78e7b4793392821b5b4c84591edfcb475954130eb34b87366\', (), {\'exist_ok\': True, \'parents\': True}), (\'call:encode\', "tuple[Variable<list[str(\'x\')], list[int(1)], dict{}>]", \'dict{}\'), (\'write_text\', \'04391cfcf37045b78e7b4793392821b5b4c84591edfcb475954130eb34b87366/image.index\', (\'{"__type__": "variable", "dims": ["x"], "data": {"__type__": "array", "dtype": "int64", "data": [1], "encoding": {}}, "attrs": {}}\',), {}), (\'mapper.root\',), (\'call:remote_cache_location\', "tuple[str(\'s3://bucket/path/to/data\'), str(\'c/image\')]", \'dict{}\'), (\'mapper.root\',), (\'call:local_cache_location\', "tuple[str(\'s3://bucket/path/to/data\'), str(\'c/image\')]", \'dict{}\'), (\'is_file\', \'04391cfcf37045b78e7b4793392821b5b4c84591edfcb475954130eb34b87366/image.index\'), (\'read_text\', \'04391cfcf37045b78e7b4793392821b5b4c84591edfcb475954130eb34b87366/image.index\', (), {}), (\'call:decode\', \'tuple[str(\\\'{"__type__": "variable", "dims": ["x"], "data": {"__type__": "array", "dtype": "int64", "data": [1], "encoding": {}}, "attrs": {}}\\\')]\', "dict{str(\'records_per_chunk\'): NoneType(None)}")] | local files: [\'04391cfcf37045b78e7b4793392821b5b4c84591edfcb475954130eb34b87366/image.index\']',
    'create_cache/empty-group': 'NoneType(None) | events: [(\'mapper.root\',), (\'mkdir\', \'04391cfcf37045b78e7b4793392821b5b4c84591edfcb475954130eb34b87366\', (), {\'exist_ok\': True, \'parents\': True}), (\'write_text\', \'04391cfcf37045b78e7b4793392821b5b4c84591edfcb475954130eb34b87366/image.index\', (\'{"__type__": "group", "url": "s3://bucket/data", "data": {}, "path": "/", "attrs": {}}\',), {})] | local files: [\'04391cfcf37045b78e7b4793392821b5b4c84591edfcb475954130eb34b87366/image.index\']',
    'create_cache/group-in-subdir': 'NoneType(None) | events: [(\'mapper.root\',), (\'mkdir\', \'04391cfcf37045b78e7b4793392821b5b4c84591edfcb475954130eb34b87366\', (), {\'exist_ok\': True, \'parents\': True}), (\'write_text\', \'04391cfcf37045b78e7b4793392821b5b4c84591edfcb475954130eb34b87366/IMG-HH.index\', (\'{"__type__": "group", "url": "s3://bucket/scene", "data": {"t": {"__type__": "variable", "dims": ["t"], "data": {"__type__": "array", "dtype": "datetime64[s]", "data": [0, 172800], "encoding": {"reference": "2000-01-01T00:00:00", "units": "s"}}, "attrs": {"a": {"__type__": "tuple", "data": [1, 2]}}}, "sub": {"__type__": "group", "url": "s3://bucket/scene", "data": {"img": {"__type__": "variable", "dims": ["rows", "cols"], "data": {"__type__": "backend_array", "root": "/path/to", "url": "file", "shape": {"__type__": "tuple", "data": [4, 3]}, "dtype": "int16", "byte_ranges": [{"__type__": "tuple", "data": [5, 10]}, {"__type__": "tuple", "data": [15, 20]}, {"__type__": "tuple", "data": [25, 30]}, {"__type__": "tuple", "data": [35, 40]}], "type_code": "IU2"}, "attrs": {"units": "dn"}}}, "path": "/sub", "attrs": {"n": 1}}, "x": {"__type__": "variable", "dims": ["x"], "data": {"__type__": "array", "dtype": "float64", "data": [1.0, 2.0], "encoding": {}}, "attrs": {}}}, "path": "/", "attrs": {"shape": {"__type__": "tuple", "data": [2, 3]}, "nested": {"t": [{"__type__": "tuple", "data": [1]}, {"__type__": "tuple", "data": []}]}}}\',), {})] | local files: [\'04391cfcf37045b78e7b4793392821b5b4c84591edfcb475954130eb34b87366/IMG-HH.index\']',
    'create_cache/overwrites': 'NoneType(None) | events: [(\'mapper.root\',), (\'mkdir\', \'04391cfcf37045b78e7b4793392821b5b4c84591edfcb475954130eb34b87366\', (), {\'exist_ok\': True, \'parents\': True}), (\'write_text\', \'04391cfcf37045b78e7b4793392821b5b4c84591edfcb475954130eb34b87366/image.index\', (\'{"__type__": "variable", "dims": ["x"], "data": {"__type__": "array", "dtype": "int64", "data": [1], "encoding": {}}, "attrs": {}}\',), {})] | local files: [\'04391cfcf37045b78e7b4793392821b5b4c84591edfcb475954130eb34b87366/image.index\']',
    'create_cache/plain-data': 'NoneType(None) | events: [(\'mapper.root\',), (\'mkdir\', \'e3b0c44298fc1c149afbf4c8996fb92427ae41e4649b934ca495991b7852b855\', (), {\'exist_ok\': True, \'parents\': True}), (\'write_text\', \'e3b0c44298fc1c149afbf4c8996fb92427ae41e4649b934ca495991b7852b855/.index\', (\'{"a": {"__type__": "tuple", "data": [1, 2]}}\',), {})] | local files: [\'e3b0c44298fc1c149afbf4c8996fb92427ae41e4649b934ca495991b7852b855/.index\']',
    'create_cache/unserialisable': "raised builtins.TypeError: Object of type ndarray is not JSON serializable [bases: ['Exception', 'BaseException', 'object']] [suppress_context: False] | events: [('mapper.root',), ('mkdir', '04391cfcf37045b78e7b4793392821b5b4c84591edfcb475954130eb34b87366', (), {'exist_ok': True, 'parents': True})] | local files: []",
    'create_cache/bad-variable': "raised builtins.IndexError: index 0 is out of bounds for axis 0 with size 0 [bases: ['LookupError', 'Exception', 'BaseException']] [suppress_context: False] | events: [('mapper.root',), ('mkdir', '04391cfcf37045b78e7b4793392821b5b4c84591edfcb475954130eb34b87366', (), {'exist_ok': True, 'parents': True})] | local files: []",
    'create_cache/mkdir-fails': "raised builtins.PermissionError: mkdir denied [bases: ['OSError', 'Exception', 'BaseException']] [suppress_context: False] | events: [('mapper.root',), ('mkdir', '04391cfcf37045b78e7b4793392821b5b4c84591edfcb475954130eb34b87366', (), {'exist_ok': True, 'parents': True})] | local files: []",
    'create_cache/write_text-fails': 'raised builtins.OSError: disk full [bases: [\'Exception\', \'BaseException\', \'object\']] [suppress_context: False] | events: [(\'mapper.root\',), (\'mkdir\', \'04391cfcf37045b78e7b4793392821b5b4c84591edfcb475954130eb34b87366\', (), {\'exist_ok\': True, \'parents\': True}), (\'write_text\', \'04391cfcf37045b78e7b4793392821b5b4c84591edfcb475954130eb34b87366/image.index\', (\'{"__type__": "variable", "dims": ["x"], "data": {"__type__": "array", "dtype": "int64", "data": [1], "encoding": {}}, "attrs": {}}\',), {})] | local files: []',
    'create_cache/none-root': "raised builtins.AttributeError: 'NoneType' object has no attribute 'encode' [bases: ['Exception', 'BaseException', 'object']] [suppress_context: False] | events: [('mapper.root',)] | local files: []",
    'create_cache/keywords': 'NoneType(None) | events: [(\'mapper.root\',), (\'mkdir\', \'7b405676e8ed8556a3f4f98f4dc5b6df940f3a5ce48674046eebda551e335b37\', (), {\'exist_ok\': True, \'parents\': True}), (\'write_text\', \'7b405676e8ed8556a3f4f98f4dc5b6df940f3a5ce48674046eebda551e335b37/i.index\', (\'[{"__type__": "tuple", "data": []}]\',), {})] | local files: [\'7b405676e8ed8556a3f4f98f4dc5b6df940f3a5ce48674046eebda551e335b37/i.index\']',
    'create_cache/missing-data': "raised builtins.TypeError: create_cache() missing 1 required positional argument: 'data' [bases: ['Exception', 'BaseException', 'object']] [suppress_context: False] | events: [] | local files: []",
    'roundtrip': 'list[NoneType(None), str(\'{"__type__": "group", "url": "s3://bucket/scene", "data": {"t": {"__type__": "variable", "dims": ["t"], "data": {"__type__": "array", "dtype": "datetime64[s]", "data": [0, 172800], "encoding": {"reference": "2000-01-01T00:00:00", "units": "s"}}, "attrs": {"a": {"__type__": "tuple", "data": [1, 2]}}}, "sub": {"__type__": "group", "url": "s3://bucket/scene", "data": {"img": {"__type__": "variable", "dims": ["rows", "cols"], "data": {"__type__": "backend_array", "root": "/path/to", "url": "file", "shape": {"__type__": "tuple", "data": [4, 3]}, "dtype": "int16", "byte_ranges": [{"__type__": "tuple", "data": [5, 10]}, {"__type__": "tuple", "data": [15, 20]}, {"__type__": "tuple", "data": [25, 30]}, {"__type__": "tuple", "data": [35, 40]}], "type_code": "IU2"}, "attrs": {"units": "dn"}}}, "path": "/sub", "attrs": {"n": 1}}, "x": {"__type__": "variable", "dims": ["x"], "data": {"__type__": "array", "dtype": "float64", "data": [1.0, 2.0], "encoding": {}}, "attrs": {}}}, "path": "/", "attrs": {"shape": {"__type__": "tuple", "data": [2, 3]}, "nested": {"t": [{"__type__": "tuple", "data": [1]}, {"__type__": "tuple", "data": []}]}}}\'), Group<str(\'/\'), str(\'s3://bucket/scene\'), dict{str(\'t\'): Variable<list[str(\'t\')], ndarray<datetime64[s], (2,)>([datetime.datetime(2000, 1, 1, 0, 0), datetime.datetime(2000, 1, 3, 0, 0)]), dict{str(\'a\'): tuple[int(1), int(2)]}>, str(\'sub\'): Group<str(\'/sub\'), str(\'s3://bucket/scene\'), dict{str(\'img\'): Variable<list[str(\'rows\'), str(\'cols\')], Array<dict{str(\'fs.path\'): str(\'/path/to\'), str(\'fs.fs\'): str(\'LocalFileSystem\'), str(\'url\'): str(\'file\'), str(\'byte_ranges\'): list[tuple[int(5), int(10)], tuple[int(15), int(20)], tuple[int(25), int(30)], tuple[int(35), int(40)]], str(\'shape\'): tuple[int(4), int(3)], str(\'dtype\'): str(\'int16\'), str(\'type_code\'): str(\'IU2\'), str(\'records_per_chunk\'): int(3)}>, dict{str(\'units\'): str(\'dn\')}>}, dict{str(\'n\'): int(1)}>, str(\'x\'): Variable<list[str(\'x\')], ndarray<float64, (2,)>([1.0, 2.0]), dict{}>}, dict{str(\'shape\'): tuple[int(2), int(3)], str(\'nested\'): dict{str(\'t\'): list[tuple[int(1)], tuple[]]}}>] | events: [(\'mapper.root\',), (\'mkdir\', \'7b405676e8ed8556a3f4f98f4dc5b6df940f3a5ce48674046eebda551e335b37\', (), {\'exist_ok\': True, \'parents\': True}), (\'write_text\', \'7b405676e8ed8556a3f4f98f4dc5b6df940f3a5ce48674046eebda551e335b37/IMG-HH.index\', (\'{"__type__": "group", "url": "s3://bucket/scene", "data": {"t": {"__type__": "variable", "dims": ["t"], "data": {"__type__": "array", "dtype": "datetime64[s]", "data": [0, 172800], "encoding": {"reference": "2000-01-01T00:00:00", "units": "s"}}, "attrs": {"a": {"__type__": "tuple", "data": [1, 2]}}}, "sub": {"__type__": "group", "url": "s3://bucket/scene", "data": {"img": {"__type__": "variable", "dims": ["rows", "cols"], "data": {"__type__": "backend_array", "root": "/path/to", "url": "file", "shape": {"__type__": "tuple", "data": [4, 3]}, "dtype": "int16", "byte_ranges": [{"__type__": "tuple", "data": [5, 10]}, {"__type__": "tuple", "data": [15, 20]}, {"__type__": "tuple", "data": [25, 30]}, {"__type__": "tuple", "data": [35, 40]}], "type_code": "IU2"}, "attrs": {"units": "dn"}}}, "path": "/sub", "attrs": {"n": 1}}, "x": {"__type__": "variable", "dims": ["x"], "data": {"__type__": "array", "dtype": "float64", "data": [1.0, 2.0], "encoding": {}}, "attrs": {}}}, "path": "/", "attrs": {"shape": {"__type__": "tuple", "data": [2, 3]}, "nested": {"t": [{"__type__": "tuple", "data": [1]}, {"__type__": "tuple", "data": []}]}}}\',), {}), (\'mapper.root\',), (\'mapper.root\',), (\'is_file\', \'7b405676e8ed8556a3f4f98f4dc5b6df940f3a5ce48674046eebda551e335b37/IMG-HH.index\'), (\'read_text\', \'7b405676e8ed8556a3f4f98f4dc5b6df940f3a5ce48674046eebda551e335b37/IMG-HH.index\', (), {})] | local files: [\'7b405676e8ed8556a3f4f98f4dc5b6df940f3a5ce48674046eebda551e335b37/IMG-HH.index\']',
    'hashsum/reference': "str('b8be84665c5cd09ec19677ce9714bcd987422de886ac2e8432a3e2311b5f0cde') | events: [] | local files: []",
    'hashsum/empty': "str('e3b0c44298fc1c149afbf4c8996fb92427ae41e4649b934ca495991b7852b855') | events: [] | local files: []",
    'hashsum/unicode': "str('25bd8e312139c3e6c393608a9ee3ffde3236d2448acc3c4c2ca08426c74657d6') | events: [] | local files: []",
    'hashsum/md5': "str('900150983cd24fb0d6963f7d28e17f72') | events: [] | local files: []",
    'hashsum/sha1-keyword': "str('a9993e364706816aba3e25717850c26c9cd0d89d') | events: [] | local files: []",
    'hashsum/keywords': "str('ddaf35a193617abacc417349ae20413112e6fa4e89a97ea20a9eeee64b55d39a2192992a274fc1a836ba3c23a3feebbd454d4423643ce80e2a9ac94fa54ca49f') | events: [] | local files: []",
    'hashsum/upper-case-algorithm': "str('ba7816bf8f01cfea414140de5dae2223b00361a396177a9cb410ff61f20015ad') | events: [] | local files: []",
    'hashsum/blake2b': "str('ba80a53f981c4d0d6a2797b69f12f6e94c212f14685ac4b74b12bb6fdbffa2d17d87c5392aab792dc252d5de4533cc9518d38aa8dbf1925ab92386edd4009923') | events: [] | local files: []",
    'hashsum/unknown-algorithm': "raised builtins.ValueError: unsupported hash type nope [bases: ['Exception', 'BaseException', 'object']] [context: UnsupportedDigestmodError: [digital envelope routines] unsupported] [suppress_context: False] | events: [] | local files: []",
    'hashsum/algorithm-none': "raised builtins.TypeError: name must be a string [bases: ['Exception', 'BaseException', 'object']] [suppress_context: False] | events: [] | local files: []",
    'hashsum/bytes': "raised builtins.AttributeError: 'bytes' object has no attribute 'encode' [bases: ['Exception', 'BaseException', 'object']] [suppress_context: False] | events: [] | local files: []",
    'hashsum/none': "raised builtins.AttributeError: 'NoneType' object has no attribute 'encode' [bases: ['Exception', 'BaseException', 'object']] [suppress_context: False] | events: [] | local files: []",
    'hashsum/int': "raised builtins.AttributeError: 'int' object has no attribute 'encode' [bases: ['Exception', 'BaseException', 'object']] [suppress_context: False] | events: [] | local files: []",
    'hashsum/path-object': "raised builtins.AttributeError: 'PurePosixPath' object has no attribute 'encode' [bases: ['Exception', 'BaseException', 'object']] [suppress_context: False] | events: [] | local files: []",
    'hashsum/duck': "str('ba7816bf8f01cfea414140de5dae2223b00361a396177a9cb410ff61f20015ad') | events: [] | local files: []",
    'hashsum/unknown-algorithm-and-bad-data': "raised builtins.ValueError: unsupported hash type nope [bases: ['Exception', 'BaseException', 'object']] [context: UnsupportedDigestmodError: [digital envelope routines] unsupported] [suppress_context: False] | events: [] | local files: []",
    'hashsum/lone-surrogate': "raised builtins.UnicodeEncodeError: 'utf-8' codec can't encode character '\\ud800' in position 0: surrogates not allowed [bases: ['UnicodeError', 'ValueError', 'Exception']] [suppress_context: False] | events: [] | local files: []",
    'hashsum/shake': "raised builtins.TypeError: hexdigest() missing required argument 'length' (pos 1) [bases: ['Exception', 'BaseException', 'object']] [suppress_context: False] | events: [] | local files: []",
    'hashsum/no-arguments': "raised builtins.TypeError: hashsum() missing 1 required positional argument: 'data' [bases: ['Exception', 'BaseException', 'object']] [suppress_context: False] | events: [] | local files: []",
    'location/simple': "list[str('PosixPath'), str('c9db4f27e586452c6517524752dc472863ee42230ba98e83a346b8da94a33235/image1.index'), str('c9db4f27e586452c6517524752dc472863ee42230ba98e83a346b8da94a33235'), str('image1.index'), str('image1.index')] | events: [] | local files: []",
    'location/s3': "list[str('PosixPath'), str('04391cfcf37045b78e7b4793392821b5b4c84591edfcb475954130eb34b87366/image1.index'), str('04391cfcf37045b78e7b4793392821b5b4c84591edfcb475954130eb34b87366'), str('image1.index'), str('image1.index')] | events: [] | local files: []",
    'location/file': "list[str('PosixPath'), str('9506f2b2ddfa8498bc4c1d3cc50d02ee5f799f6716710ff4dd31a9f6e41eac45/image1.index'), str('9506f2b2ddfa8498bc4c1d3cc50d02ee5f799f6716710ff4dd31a9f6e41eac45'), str('image1.index'), str('image1.index')] | events: [] | local files: []",
    'location/local': "list[str('PosixPath'), str('7b405676e8ed8556a3f4f98f4dc5b6df940f3a5ce48674046eebda551e335b37/image2.index'), str('7b405676e8ed8556a3f4f98f4dc5b6df940f3a5ce48674046eebda551e335b37'), str('image2.index'), str('image2.index')] | events: [] | local files: []",
    'location/subdir': "list[str('PosixPath'), str('7b405676e8ed8556a3f4f98f4dc5b6df940f3a5ce48674046eebda551e335b37/IMG-HH-ALOS2.index'), str('7b405676e8ed8556a3f4f98f4dc5b6df940f3a5ce48674046eebda551e335b37'), str('IMG-HH-ALOS2.index'), str('a/b/IMG-HH-ALOS2.index')] | events: [] | local files: []",
    'location/leading-slash': "list[str('PosixPath'), str('7b405676e8ed8556a3f4f98f4dc5b6df940f3a5ce48674046eebda551e335b37/IMG.index'), str('7b405676e8ed8556a3f4f98f4dc5b6df940f3a5ce48674046eebda551e335b37'), str('IMG.index'), str('/IMG.index')] | events: [] | local files: []",
    'location/trailing-slash': "list[str('PosixPath'), str('7b405676e8ed8556a3f4f98f4dc5b6df940f3a5ce48674046eebda551e335b37/.index'), str('7b405676e8ed8556a3f4f98f4dc5b6df940f3a5ce48674046eebda551e335b37'), str('.index'), str('a/.index')] | events: [] | local files: []",
    'location/only-slash': "list[str('PosixPath'), str('7b405676e8ed8556a3f4f98f4dc5b6df940f3a5ce48674046eebda551e335b37/.index'), str('7b405676e8ed8556a3f4f98f4dc5b6df940f3a5ce48674046eebda551e335b37'), str('.index'), str('/.index')] | events: [] | local files: []",
    'location/double-slash': "list[str('PosixPath'), str('7b405676e8ed8556a3f4f98f4dc5b6df940f3a5ce48674046eebda551e335b37/b.index'), str('7b405676e8ed8556a3f4f98f4dc5b6df940f3a5ce48674046eebda551e335b37'), str('b.index'), str('a//b.index')] | events: [] | local files: []",
    'location/empty': "list[str('PosixPath'), str('e3b0c44298fc1c149afbf4c8996fb92427ae41e4649b934ca495991b7852b855/.index'), str('e3b0c44298fc1c149afbf4c8996fb92427ae41e4649b934ca495991b7852b855'), str('.index'), str('.index')] | events: [] | local files: []",
    'location/dots': "list[str('PosixPath'), str('6588117f7b5162325520a43670f6b2f80d50e9aa09f820f57274904a22ddfaf2/...index'), str('6588117f7b5162325520a43670f6b2f80d50e9aa09f820f57274904a22ddfaf2'), str('...index'), str('../...index')] | events: [] | local files: []",
    'location/dot': "list[str('PosixPath'), str('6588117f7b5162325520a43670f6b2f80d50e9aa09f820f57274904a22ddfaf2/..index'), str('6588117f7b5162325520a43670f6b2f80d50e9aa09f820f57274904a22ddfaf2'), str('..index'), str('..index')] | events: [] | local files: []",
    'location/backslash': "list[str('PosixPath'), str('6588117f7b5162325520a43670f6b2f80d50e9aa09f820f57274904a22ddfaf2/a\\\\b.index'), str('6588117f7b5162325520a43670f6b2f80d50e9aa09f820f57274904a22ddfaf2'), str('a\\\\b.index'), str('a\\\\b.index')] | events: [] | local files: []",
    'location/index-suffix': "list[str('PosixPath'), str('6588117f7b5162325520a43670f6b2f80d50e9aa09f820f57274904a22ddfaf2/x.index.index'), str('6588117f7b5162325520a43670f6b2f80d50e9aa09f820f57274904a22ddfaf2'), str('x.index.index'), str('x.index.index')] | events: [] | local files: []",
    'location/space-and-unicode': "list[str('PosixPath'), str('6588117f7b5162325520a43670f6b2f80d50e9aa09f820f57274904a22ddfaf2/im age.index'), str('6588117f7b5162325520a43670f6b2f80d50e9aa09f820f57274904a22ddfaf2'), str('im age.index'), str('déjà vu/im age.index')] | events: [] | local files: []",
    'location/path-object': "list[str('PosixPath'), str('6588117f7b5162325520a43670f6b2f80d50e9aa09f820f57274904a22ddfaf2/c.index'), str('6588117f7b5162325520a43670f6b2f80d50e9aa09f820f57274904a22ddfaf2'), str('c.index'), str('a/b/c.index')] | events: [] | local files: []",
    'location/int-path': "list[str('PosixPath'), str('6588117f7b5162325520a43670f6b2f80d50e9aa09f820f57274904a22ddfaf2/5.index'), str('6588117f7b5162325520a43670f6b2f80d50e9aa09f820f57274904a22ddfaf2'), str('5.index'), str('5.index')] | events: [] | local files: []",
    'location/none-path': "list[str('PosixPath'), str('6588117f7b5162325520a43670f6b2f80d50e9aa09f820f57274904a22ddfaf2/None.index'), str('6588117f7b5162325520a43670f6b2f80d50e9aa09f820f57274904a22ddfaf2'), str('None.index'), str('None.index')] | events: [] | local files: []",
    'location/formattable': "list[str('PosixPath'), str('6588117f7b5162325520a43670f6b2f80d50e9aa09f820f57274904a22ddfaf2/name.index'), str('6588117f7b5162325520a43670f6b2f80d50e9aa09f820f57274904a22ddfaf2'), str('name.index'), str('formatted/name.index')] | events: [] | local files: []",
    'location/bytes-path': 'list[str(\'PosixPath\'), str("6588117f7b5162325520a43670f6b2f80d50e9aa09f820f57274904a22ddfaf2/b\'.index"), str(\'6588117f7b5162325520a43670f6b2f80d50e9aa09f820f57274904a22ddfaf2\'), str("b\'.index"), str("b\'a/b\'.index")] | events: [] | local files: []',
    'location/none-root': "raised builtins.AttributeError: 'NoneType' object has no attribute 'encode' [bases: ['Exception', 'BaseException', 'object']] [suppress_context: False] | events: [] | local files: []",
    'location/bytes-root': "raised builtins.AttributeError: 'bytes' object has no attribute 'encode' [bases: ['Exception', 'BaseException', 'object']] [suppress_context: False] | events: [] | local files: []",
    'location/none-root-none-path': "raised builtins.AttributeError: 'NoneType' object has no attribute 'encode' [bases: ['Exception', 'BaseException', 'object']] [suppress_context: False] | events: [] | local files: []",
    'location/keywords': "str('6588117f7b5162325520a43670f6b2f80d50e9aa09f820f57274904a22ddfaf2/b.index') | events: [] | local files: []",
    'location/missing-path': "raised builtins.TypeError: local_cache_location() missing 1 required positional argument: 'path' [bases: ['Exception', 'BaseException', 'object']] [suppress_context: False] | events: [] | local files: []",
    'location/follows-cache-root': 'list[str("PurePosixPath(\'/c1/6588117f7b5162325520a43670f6b2f80d50e9aa09f820f57274904a22ddfaf2/img.index\')"), str("PurePosixPath(\'rel/c2/6588117f7b5162325520a43670f6b2f80d50e9aa09f820f57274904a22ddfaf2/img.index\')"), str("raised builtins.TypeError: unsupported operand type(s) for /: \'str\' and \'str\' [bases: [\'Exception\', \'BaseException\', \'object\']] [suppress_context: False]")] | events: [] | local files: []',
    'location/patched-hashsum': "list[str('HASH/img.index'), list[tuple[tuple[str('/r')], dict{}]]] | events: [] | local files: []",
    'public-names': "list[bool(True), str('FileNotFoundError'), str('xarray-ceos-alos2'), list[], list[]] | events: [] | local files: []",
}


if __name__ == "__main__":
    if "--record" in sys.argv:
        print("EXPECTED = {")
        for key, value in run_cases().items():
            print(f"    {key!r}: {value!r},")
        print("}")
    else:
        print(f"{check()} cases identical to the recorded behaviour")
