"""Equivalence check for refactoring 1 (``ceos_alos2.io.open``).

Run as a script or with pytest; must pass with and without ``patch.diff``.

``open`` is the top-level orchestration: it builds a mapper, reads the summary, and then
delegates to the volume-directory / SAR-leader / SAR-image readers. The summary is read for
real (from a fsspec memory file system); the three heavy readers are replaced by recording
fakes so that the *sequence* of delegated calls, their arguments, the store requests and the
assembled result can all be compared with values recorded from the unchanged code.
"""

import contextlib

import fsspec
from fsspec.mapping import FSMap

import ceos_alos2.io as io_module
from ceos_alos2.hierarchy import Group

REFDOC = "https://www.eorc.jaxa.jp/ALOS-2/en/doc/fdata/PALSAR-2_xx_Format_CEOS_E_f.pdf"
SCENE = "ALOS2225333200-180726"
PRODUCT = "WWDR1.1__D"


def make_summary(filenames):
    lines = [f'Pdi_CntOfL11ProductFileName="{len(filenames)}"']
    lines.extend(
        f'Pdi_L11ProductFileName{index:02d}="{name}"' for index, name in enumerate(filenames, 1)
    )
    lines.append('Pdi_ProductFormat="CEOS"')
    return "\n".join(lines).encode()


def names(image_parts):
    return (
        [f"VOL-{SCENE}-{PRODUCT}", f"LED-{SCENE}-{PRODUCT}"]
        + [f"IMG-{part}-{SCENE}-{PRODUCT}" for part in image_parts]
        + [f"TRL-{SCENE}-{PRODUCT}"]
    )


class Recorder:
    """Installs the fakes and records everything ``open`` does, in order."""

    def __init__(self, *, volume_attrs=None, image_error=None, group_name=None):
        self.log = []
        self.volume_attrs = {"volume": 1} if volume_attrs is None else volume_attrs
        self.image_error = image_error or {}
        self.group_name = group_name or (lambda path: path.split("-")[1])

    def open_volume_directory(self, mapper, path):
        self.log.append(("volume_directory", type(mapper).__name__, mapper.root, path))
        return Group(path=None, url=mapper.root, data={}, attrs=dict(self.volume_attrs))

    def open_sar_leader(self, mapper, path):
        self.log.append(("sar_leader", type(mapper).__name__, mapper.root, path))
        return Group(path="metadata", url=mapper.root, data={}, attrs={"leader": path})

    def open_image(self, mapper, path, **kwargs):
        # same positional signature as the real ``sar_image.open_image`` (no ``*args``);
        # ``**kwargs`` keeps the order in which the options are forwarded observable
        self.log.append(("image", mapper.root, (path,), tuple(kwargs.items())))
        if path in self.image_error:
            raise self.image_error[path]
        return Group(path=self.group_name(path), url=mapper.root, data={}, attrs={"file": path})

    @contextlib.contextmanager
    def installed(self):
        log = self.log
        original_getitem = FSMap.__getitem__

        def recording_getitem(self, key, default=None):
            log.append(("getitem", self.root, key))
            return original_getitem(self, key, default)

        saved = (
            io_module.open_volume_directory,
            io_module.open_sar_leader,
            io_module.sar_image.open_image,
        )
        io_module.open_volume_directory = self.open_volume_directory
        io_module.open_sar_leader = self.open_sar_leader
        io_module.sar_image.open_image = self.open_image
        FSMap.__getitem__ = recording_getitem
        try:
            yield self
        finally:
            FSMap.__getitem__ = original_getitem
            (
                io_module.open_volume_directory,
                io_module.open_sar_leader,
                io_module.sar_image.open_image,
            ) = saved


def populate(root, filenames):
    fs = fsspec.filesystem("memory")
    with contextlib.suppress(FileNotFoundError):
        fs.rm(root, recursive=True)
    if filenames is not None:
        fs.pipe(f"{root}/summary.txt", make_summary(filenames))


def dump(group):
    """Order- and type-sensitive description of a group tree."""
    return (
        type(group).__name__,
        group.path,
        group.url,
        list(group.attrs.items()),
        [(name, dump(value)) for name, value in group.data.items()],
    )


def summary_dump(root, filenames):
    vol, led, *img, trl = filenames
    return (
        "Group",
        "/summary",
        root,
        [],
        [
            (
                "product_information",
                (
                    "Group",
                    "/summary/product_information",
                    root,
                    [("ProductFormat", "CEOS")],
                    [
                        (
                            "data_files",
                            (
                                "Group",
                                "/summary/product_information/data_files",
                                root,
                                [
                                    ("volume_directory", vol),
                                    ("sar_leader", led),
                                    ("sar_imagery", img),
                                    ("sar_trailer", trl),
                                ],
                                [],
                            ),
                        )
                    ],
                ),
            )
        ],
    )


def expected_dump(root, filenames, image_groups, volume_attrs):
    return (
        "Group",
        "/",
        root,
        list(volume_attrs) + [("reference_document", REFDOC)],
        [
            ("summary", summary_dump(root, filenames)),
            ("metadata", ("Group", "/metadata", root, [("leader", filenames[1])], [])),
            (
                "imagery",
                (
                    "Group",
                    "/imagery",
                    root,
                    [],
                    [
                        (name, ("Group", f"/imagery/{name}", root, [("file", path)], []))
                        for name, path in image_groups
                    ],
                ),
            ),
        ],
    )


DEFAULT_KWARGS = (("records_per_chunk", 1024), ("create_cache", False), ("use_cache", True))


def expected_log(root, filenames, kwargs=DEFAULT_KWARGS, n_images=None):
    images = filenames[2:-1]
    if n_images is not None:
        images = images[:n_images]
    return [
        ("getitem", root, "summary.txt"),
        ("volume_directory", "FSMap", root, filenames[0]),
        ("sar_leader", "FSMap", root, filenames[1]),
    ] + [("image", root, (path,), kwargs) for path in images]


def test_varied_image_counts():
    for index, parts in enumerate([[], ["HH"], ["HH", "HV"], ["HH", "HV", "VH", "VV"]]):
        root = f"/eq1/count{index}"
        filenames = names(parts)
        populate(root, filenames)
        with Recorder().installed() as rec:
            result = io_module.open(f"memory://{root}")

        assert rec.log == expected_log(root, filenames)
        image_groups = list(zip(parts, filenames[2:-1]))
        assert dump(result) == expected_dump(root, filenames, image_groups, [("volume", 1)])
        assert type(result.attrs) is dict
        assert type(result.data) is dict
        assert type(result["imagery"].data) is dict


def test_keyword_arguments_are_forwarded():
    root = "/eq1/kwargs"
    filenames = names(["HH", "HV"])
    combos = [
        dict(create_cache=True),
        dict(use_cache=False),
        dict(records_per_chunk=7),
        dict(records_per_chunk=None, create_cache=True, use_cache=False),
        dict(storage_options={}, records_per_chunk=2048),
    ]
    for kwargs in combos:
        populate(root, filenames)
        with Recorder().installed() as rec:
            result = io_module.open(f"memory://{root}", **kwargs)

        forwarded = (
            ("records_per_chunk", kwargs.get("records_per_chunk", 1024)),
            ("create_cache", kwargs.get("create_cache", False)),
            ("use_cache", kwargs.get("use_cache", True)),
        )
        assert rec.log == expected_log(root, filenames, forwarded)
        image_groups = list(zip(["HH", "HV"], filenames[2:-1]))
        assert dump(result) == expected_dump(root, filenames, image_groups, [("volume", 1)])


def test_storage_options_reach_the_mapper():
    root = "/eq1/options"
    filenames = names(["HH"])
    populate(root, filenames)
    seen = []
    original = io_module.fsspec.get_mapper

    def get_mapper(*args, **kwargs):
        seen.append((args, dict(kwargs)))
        kwargs.pop("marker")
        return original(*args, **kwargs)

    io_module.fsspec.get_mapper = get_mapper
    try:
        with Recorder().installed() as rec:
            io_module.open(f"memory://{root}", storage_options={"marker": 1, "check": False})
    finally:
        io_module.fsspec.get_mapper = original

    assert seen == [((f"memory://{root}",), {"marker": 1, "check": False})]
    assert rec.log == expected_log(root, filenames)


def test_positional_options_are_rejected():
    try:
        io_module.open("memory:///eq1/none", {})
    except TypeError as e:
        assert "takes 1 positional argument but 2 were given" in str(e)
    else:
        raise AssertionError("expected a TypeError")


def test_volume_attrs_order_and_override():
    root = "/eq1/attrs"
    filenames = names(["HH"])
    populate(root, filenames)
    volume_attrs = {"b": 2, "reference_document": "from the volume directory", "a": 1}
    with Recorder(volume_attrs=volume_attrs).installed():
        result = io_module.open(f"memory://{root}")

    assert list(result.attrs.items()) == [("b", 2), ("reference_document", REFDOC), ("a", 1)]

    populate(root, filenames)
    with Recorder(volume_attrs={}).installed():
        result = io_module.open(f"memory://{root}")
    assert list(result.attrs.items()) == [("reference_document", REFDOC)]


def test_duplicate_group_names_last_one_wins():
    root = "/eq1/duplicates"
    filenames = names(["HH", "HV", "VV"])
    populate(root, filenames)
    group_name = lambda path: "same" if "-HV-" not in path else "other"
    with Recorder(group_name=group_name).installed() as rec:
        result = io_module.open(f"memory://{root}")

    assert rec.log == expected_log(root, filenames)
    imagery = result["imagery"]
    assert list(imagery.data) == ["same", "other"]
    assert imagery["same"].attrs == {"file": filenames[4]}
    assert imagery["same"].path == "/imagery/same"
    assert imagery["other"].attrs == {"file": filenames[3]}


def test_image_errors_propagate_unchanged_and_stop_the_loop():
    root = "/eq1/errors"
    filenames = names(["HH", "HV", "VV"])
    errors = [
        TypeError("bad type"),
        ValueError("bad value"),
        OSError("bad file"),
        KeyError("bad key"),
    ]
    for error in errors:
        populate(root, filenames)
        rec = Recorder(image_error={filenames[3]: error})
        with rec.installed():
            try:
                io_module.open(f"memory://{root}")
            except Exception as e:
                assert e is error
            else:
                raise AssertionError("expected an exception")

        # the third image is never requested
        assert rec.log == expected_log(root, filenames, n_images=2)


def test_missing_summary():
    root = "/eq1/missing"
    populate(root, None)
    with Recorder().installed() as rec:
        try:
            io_module.open(f"memory://{root}")
        except OSError as e:
            assert str(e) == (
                "Cannot find the summary file (`summary.txt`)."
                f" Make sure the dataset at {root} is complete and in the JAXA CEOS format."
            )
            assert isinstance(e.__cause__, KeyError)
        else:
            raise AssertionError("expected an OSError")

    assert rec.log == [("getitem", root, "summary.txt")]


def test_too_few_files_in_summary():
    root = "/eq1/short"
    populate(root, ["VOL-only", "LED-only"])
    with Recorder().installed() as rec:
        try:
            io_module.open(f"memory://{root}")
        except ValueError as e:
            assert "not enough values to unpack" in str(e)
        else:
            raise AssertionError("expected a ValueError")
    assert rec.log == [("getitem", root, "summary.txt")]


def test_leader_error_prevents_image_reads():
    root = "/eq1/leader"
    filenames = names(["HH"])
    populate(root, filenames)
    rec = Recorder()
    error = RuntimeError("leader")

    def failing_leader(mapper, path):
        rec.log.append(("sar_leader", path))
        raise error

    with rec.installed():
        io_module.open_sar_leader = failing_leader
        try:
            io_module.open(f"memory://{root}")
        except RuntimeError as e:
            assert e is error
        else:
            raise AssertionError("expected a RuntimeError")

    assert rec.log == [
        ("getitem", root, "summary.txt"),
        ("volume_directory", "FSMap", root, filenames[0]),
        ("sar_leader", filenames[1]),
    ]


def test_signature():
    import inspect

    assert str(inspect.signature(io_module.open)) == (
        "(path, *, storage_options={}, create_cache=False, use_cache=True, records_per_chunk=1024)"
    )


if __name__ == "__main__":
    tests = [obj for name, obj in sorted(globals().items()) if name.startswith("test_")]
    for test in tests:
        test()
        print("ok", test.__name__)
    print(f"{len(tests)} checks passed ({io_module.__file__})")
