"""Equivalence check for refactoring 4 (ceos_alos2.xarray: to_variable,
extract_encoding, to_dataset).

Run as a script (``python equiv.py``) or through pytest.  ``python equiv.py
--record`` prints the observations instead of comparing them; EXPECTED below
was recorded that way from the unchanged code (HEAD).

Observations whose key starts with ``nodask/`` describe what happens when
chunking is requested without dask being installed (the situation in which they
were recorded); they are skipped if dask can be imported.
"""

import importlib.util
import pprint
import sys
import warnings

import numpy as np
import xarray as xr

from ceos_alos2 import xarray as cx
from ceos_alos2.array import Array
from ceos_alos2.hierarchy import Group, Variable

HAS_DASK = importlib.util.find_spec("dask") is not None


def describe_exception(exc):
    return (
        f"{type(exc).__qualname__}{exc.args!r}"
        f" cause={exc.__cause__!r} context={type(exc.__context__).__name__}"
        f" suppress_context={exc.__suppress_context__}"
    )


def attempt(func, *args, **kwargs):
    try:
        return "returned", func(*args, **kwargs)
    except BaseException as exc:  # noqa: BLE001
        return "raised", exc


# --------------------------------------------------------------------------------------
# doubles


class RecordingFile:
    def __init__(self, log, content):
        self.log = log
        self.content = content
        self.position = 0

    def __enter__(self):
        self.log.append("enter")
        return self

    def __exit__(self, *exc_info):
        self.log.append(f"exit({None if exc_info[0] is None else exc_info[0].__name__})")

    def seek(self, offset):
        self.log.append(f"seek({offset})")
        self.position = offset

    def read(self, size):
        self.log.append(f"read({size})")
        return self.content[self.position : self.position + size]


class RecordingFS:
    def __init__(self, log, content):
        self.log = log
        self.content = content

    def open(self, *args, **kwargs):
        self.log.append(f"open(*{args!r}, **{kwargs!r})")
        return RecordingFile(self.log, self.content)

    def __eq__(self, other):
        return type(other) is RecordingFS and other.content == self.content

    def __hash__(self):
        return hash(self.content)


def lazy_array(log, shape=(4, 3), records_per_chunk=2, dtype="uint16"):
    n_rows, *rest = shape
    n_cols = int(np.prod(rest)) if rest else 1
    values = (np.arange(n_rows * n_cols).reshape(n_rows, n_cols) * 3 + 1).astype(">u2")
    content = b""
    byte_ranges = []
    for row in values:
        content += b"\xff" * 4
        byte_ranges.append((len(content), len(content) + row.nbytes))
        content += row.tobytes()
    return Array(
        fs=RecordingFS(log, content),
        url="image",
        byte_ranges=byte_ranges,
        shape=shape,
        dtype=dtype,
        type_code="IU2",
        records_per_chunk=records_per_chunk,
    )


class LoggingVar:
    """stands in for ``hierarchy.Variable``; logs every attribute that is consulted"""

    def __init__(self, log, *, dims, data, attrs, chunks, sizes):
        self._log = log
        self._values = {
            "dims": dims, "data": data, "attrs": attrs, "chunks": chunks, "sizes": sizes
        }  # fmt: skip

    def __getattr__(self, name):
        if name.startswith("_"):
            raise AttributeError(name)
        self._log.append(name)
        value = self._values[name]
        if isinstance(value, BaseException):
            raise value
        return value


class LoggingSizes(dict):
    def __init__(self, log, values):
        super().__init__(values)
        self._log = log

    def __getitem__(self, key):
        self._log.append(f"sizes[{key!r}]")
        return super().__getitem__(key)


class Boom(Exception):
    pass


# --------------------------------------------------------------------------------------
# descriptions


def describe_variable(result, source_data=None, io_log=None):
    data = result._data
    layers = []
    current = data
    while True:
        layers.append(type(current).__qualname__)
        if isinstance(current, (np.ndarray, Array)) or not hasattr(current, "array"):
            break
        current = current.array
    parts = [
        f"type={type(result).__module__}.{type(result).__qualname__}",
        f"dims={result.dims!r}",
        f"attrs={dict(result.attrs)!r}",
        f"encoding={dict(result.encoding)!r}",
        f"in_memory={result._in_memory}",
        f"dtype={result.dtype} shape={result.shape}",
        f"layers={'>'.join(layers)}",
    ]
    if source_data is not None:
        parts.append(f"innermost_is_source={current is source_data}")
    if isinstance(data, xr.core.indexing.LazilyIndexedArray):
        wrapper = data.array
        parts.append(
            f"lock={type(wrapper.lock).__module__}.{type(wrapper.lock).__qualname__}"
            f" wrapper_shape={wrapper.shape!r} wrapper_dtype={wrapper.dtype!r}"
        )
        parts.append(f"key={data.key!r}")
    if io_log is not None:
        parts.append(f"io_before_load={list(io_log)!r}")
        parts.append(f"values={np.asarray(result.values).tolist()!r}")
        parts.append(f"io_after_load={' '.join(io_log)}")
    else:
        parts.append(f"values={np.asarray(result.values).tolist()!r}")
    return " | ".join(parts)


def describe_dataset(ds):
    parts = [
        f"type={type(ds).__qualname__}",
        f"data_vars={list(ds.data_vars)!r}",
        f"coords={list(ds.coords)!r}",
        f"sizes={dict(ds.sizes)!r}",
        f"attrs={dict(ds.attrs)!r}",
    ]
    for name, var in ds.variables.items():
        parts.append(
            f"{name}: dims={var.dims!r} dtype={var.dtype} attrs={dict(var.attrs)!r}"
            f" encoding={dict(var.encoding)!r} in_memory={var._in_memory}"
            f" values={np.asarray(var.values).tolist()!r}"
        )
    return " | ".join(parts)


# --------------------------------------------------------------------------------------


def observe_extract_encoding(obs):
    cases = {
        "no-chunks": ({}, {}),
        "all-none": ({"x": None, "y": None}, {"x": 4, "y": 3}),
        "one-none": ({"x": 2, "y": None}, {"x": 4, "y": 3}),
        "first-none": ({"x": None, "y": 3}, {"x": 4, "y": 3}),
        "minus-one": ({"x": -1, "y": 3}, {"x": 4, "y": 3}),
        "all-minus-one": ({"x": -1, "y": -1}, {"x": 4, "y": 3}),
        "plain": ({"x": 2, "y": 3}, {"x": 4, "y": 3}),
        "larger-than-size": ({"x": 10, "y": 30}, {"x": 4, "y": 3}),
        "zero": ({"x": 0}, {"x": 4}),
        "false": ({"x": False}, {"x": 4}),
        "minus-two": ({"x": -2}, {"x": 4}),
        "float-minus-one": ({"x": -1.0}, {"x": 4}),
        "numpy-int": ({"x": np.int64(2), "y": np.int64(-1)}, {"x": 4, "y": 3}),
        "string": ({"x": "auto"}, {"x": 4}),
        "tuple": ({"x": (2, 2)}, {"x": 4}),
        "array-chunksize": ({"x": np.array([1, 2])}, {"x": 4}),
        "missing-size": ({"x": 2, "y": -1}, {"x": 4}),
        "missing-size-unused": ({"x": 2, "y": 3}, {}),
        "order": ({"b": -1, "a": 2, "c": None}, {"a": 1, "b": 2, "c": 3}),
    }
    for name, (chunks, sizes) in cases.items():
        log = []
        var = LoggingVar(
            log, dims=None, data=None, attrs=None, chunks=chunks, sizes=LoggingSizes(log, sizes)
        )
        kind, value = attempt(cx.extract_encoding, var)
        if kind == "raised":
            outcome = "raised " + describe_exception(value)
        else:
            outcome = f"returned {value!r} (fresh mapping: {value is not chunks})"
            if value:
                inner = value["preferred_chunksizes"]
                types = {k: type(v).__qualname__ for k, v in inner.items()}
                outcome += f" keys={list(inner)!r} types={types!r}"
        obs[f"extract_encoding/{name}"] = outcome + " | accessed: " + " ".join(log)

    log = []
    var = LoggingVar(log, dims=None, data=None, attrs=None, chunks=Boom("chunks"), sizes={})
    kind, value = attempt(cx.extract_encoding, var)
    obs["extract_encoding/chunks-raises"] = describe_exception(value) + " | " + " ".join(log)
    log = []
    var = LoggingVar(
        log, dims=None, data=None, attrs=None, chunks={"x": 2, "y": None}, sizes=Boom("sizes")
    )
    kind, value = attempt(cx.extract_encoding, var)
    obs["extract_encoding/sizes-raises"] = describe_exception(value) + " | " + " ".join(log)

    # the real thing
    for shape, records_per_chunk in [((4, 3), 2), ((4,), None), ((5, 2, 2), -1), ((4, 3), "auto")]:
        arr = lazy_array([], shape=shape, records_per_chunk=records_per_chunk)
        var = Variable(list("xyz"[: len(shape)]), arr, {})
        obs[f"extract_encoding/array-{shape}-{records_per_chunk}"] = repr(cx.extract_encoding(var))
    obs["extract_encoding/numpy"] = repr(cx.extract_encoding(Variable("x", np.arange(3), {})))


def observe_to_variable(obs):
    # in-memory data
    for name, data in {
        "int8": np.array([1, 2], dtype="int8"),
        "2d": np.arange(6.0).reshape(2, 3),
        "0d": np.array(5),
        "strings": np.array(["a", "bc"]),
        "list": [1, 2, 3],
        "empty": np.array([], dtype="f4"),
    }.items():
        dims = ["x", "y"][: np.ndim(data)]
        var = Variable(dims, data, {"a": 1, "units": "m"})
        kind, value = attempt(cx.to_variable, var)
        if kind == "raised":
            obs[f"to_variable/memory-{name}"] = "raised " + describe_exception(value)
            continue
        obs[f"to_variable/memory-{name}"] = describe_variable(value, source_data=data) + (
            f" | source_attrs_untouched={var.attrs == {'a': 1, 'units': 'm'}}"
        )

    # lazily loaded data
    for shape, records_per_chunk, dims in [
        ((4, 3), 2, ["rows", "cols"]),
        ((4, 3), None, ["rows", "cols"]),
        ((4, 3), -1, ["rows", "cols"]),
        ((6, 2), "auto", ["a", "b"]),
        ((5,), 2, "rows"),
        ((0, 3), 2, ["rows", "cols"]),
    ]:
        log = []
        arr = lazy_array(log, shape=shape, records_per_chunk=records_per_chunk)
        var = Variable(dims, arr, {"long_name": "image"})
        result = cx.to_variable(var)
        key = f"to_variable/lazy-{shape}-{records_per_chunk}"
        obs[key] = describe_variable(result, source_data=arr, io_log=log)

        # partial loads go through the wrapper and the lock
        del log[:]
        fresh = cx.to_variable(var)
        if shape[0]:
            part = fresh[1:3] if len(shape) == 1 else fresh[1:3, ::-1]
            obs[key + "/partial"] = (
                f"{np.asarray(part.values).tolist()!r} | io={' '.join(log)}"
                f" | still_lazy={not fresh._in_memory}"
            )

    # mismatching dims are reported by xarray, after the data was wrapped
    log = []
    var = Variable(["x"], lazy_array(log), {})
    kind, value = attempt(cx.to_variable, var)
    obs["to_variable/dims-mismatch"] = f"{kind} {type(value).__qualname__} | io={log!r}"

    # what is consulted, how often, in which order
    for name, data in {"memory": np.arange(3), "lazy": lazy_array([], shape=(3, 2))}.items():
        log = []
        dims = ["x"] if name == "memory" else ["x", "y"]
        chunks = {} if name == "memory" else {"x": 2, "y": -1}
        var = LoggingVar(
            log, dims=dims, data=data, attrs={"k": "v"}, chunks=chunks,
            sizes=LoggingSizes(log, {"x": 3, "y": 2}),
        )  # fmt: skip
        result = cx.to_variable(var)
        obs[f"to_variable/access-order-{name}"] = (
            " ".join(log) + " | " + describe_variable(result, source_data=data)
        )
    for failing in ("data", "dims", "attrs", "chunks"):
        log = []
        values = dict(dims=["x"], data=np.arange(3), attrs={}, chunks={}, sizes={})
        values[failing] = Boom(failing)
        kind, value = attempt(cx.to_variable, LoggingVar(log, **values))
        obs[f"to_variable/{failing}-raises"] = describe_exception(value) + " | " + " ".join(log)

    # collaborators are looked up in the module at call time
    log = []
    originals = {
        name: getattr(cx, name)
        for name in ("SerializableLock", "LazilyIndexedWrapper", "extract_encoding")
    }

    def spy(name):
        def wrapper(*args, **kwargs):
            shown = [type(a).__qualname__ for a in args]
            log.append(f"{name}(*{shown!r}, **{sorted(kwargs)!r})")
            return originals[name](*args, **kwargs)

        return wrapper

    try:
        for name in originals:
            setattr(cx, name, spy(name))
        cx.to_variable(Variable(["x", "y"], lazy_array([]), {}))
        obs["to_variable/spy-lazy"] = " ; ".join(log)
        del log[:]
        cx.to_variable(Variable(["x"], np.arange(2), {}))
        obs["to_variable/spy-memory"] = " ; ".join(log)
    finally:
        for name, func in originals.items():
            setattr(cx, name, func)

    # every variable gets its own lock
    var = Variable(["x", "y"], lazy_array([]), {})
    first, second = cx.to_variable(var), cx.to_variable(var)
    obs["to_variable/locks-distinct"] = first._data.array.lock is not second._data.array.lock
    obs["to_variable/array-shared"] = first._data.array.array is second._data.array.array


def groups():
    log = []
    return log, {
        "attrs-only": Group(path=None, url=None, data={}, attrs={"a": 1, "b": 2}),
        "variables": Group(
            path=None,
            url=None,
            data={
                "a": Variable("x", np.array([1, 2, 3], dtype="int8"), {"a": 1}),
                "b": Variable(["x", "y"], np.arange(12).reshape(3, 4), {"b": "abc"}),
            },
            attrs={},
        ),
        "coords": Group(
            path=None,
            url=None,
            data={
                "c": Variable("x", np.array([1, 2, 3], dtype="int8"), {"a": 1}),
                "d": Variable(["x", "y"], np.arange(12).reshape(3, 4), {"b": "abc"}),
                "e": Variable("y", np.arange(4.0), {}),
            },
            attrs={"coordinates": ["d", "e"], "title": "t"},
        ),
        "missing-coords": Group(
            path=None,
            url=None,
            data={"c": Variable("x", np.arange(3), {})},
            attrs={"coordinates": ["nope"]},
        ),
        "lazy": Group(
            path=None,
            url=None,
            data={
                "image": Variable(["rows", "cols"], lazy_array(log), {"units": "1"}),
                "rows": Variable("rows", np.arange(4), {}),
                "sub": Group(path=None, url=None, data={}, attrs={"ignored": True}),
            },
            attrs={"coordinates": ["rows"]},
        ),
        "conflicting-sizes": Group(
            path=None,
            url=None,
            data={
                "a": Variable("x", np.arange(3), {}),
                "b": Variable("x", np.arange(4), {}),
            },
            attrs={},
        ),
    }


def observe_to_dataset(obs):
    chunk_requests = {
        "None": None,
        "empty": {},
        "xy": {"x": 1, "y": 2},
        "unknown-dims": {"nope": 5},
        "rows": {"rows": 2, "other": 1},
        "not-a-mapping": 4,
        "auto": "auto",
    }
    for request_name, chunks in chunk_requests.items():
        log, all_groups = groups()
        for group_name, group in all_groups.items():
            del log[:]
            attrs_before = dict(group.attrs)
            with warnings.catch_warnings():
                warnings.simplefilter("ignore")
                kind, value = attempt(cx.to_dataset, group, chunks=chunks)
            needs_dask = kind == "raised" and isinstance(value, ImportError)
            prefix = "nodask/" if (needs_dask or (HAS_DASK and chunks is not None)) else ""
            key = f"{prefix}to_dataset/{group_name}/{request_name}"
            if kind == "raised":
                outcome = f"raised {type(value).__qualname__}"
                if not isinstance(value, ImportError):
                    outcome = "raised " + describe_exception(value)
            else:
                io_before = list(log)
                outcome = f"io_before_load={io_before!r} | " + describe_dataset(value)
                outcome += f" | io_after_load={' '.join(log)}"
            obs[key] = outcome + f" | group_attrs_untouched={group.attrs == attrs_before}"

    # what ``Dataset.chunk`` is asked to do (works without dask: the method is replaced)
    original_chunk = xr.Dataset.chunk
    chunk_calls = []

    def fake_chunk(self, *args, **kwargs):
        chunk_calls.append(
            f"chunk(*{args!r}, **{kwargs!r}) on data_vars={list(self.data_vars)!r}"
            f" coords={list(self.coords)!r} attrs={dict(self.attrs)!r}"
        )
        return ("chunked", self)

    try:
        xr.Dataset.chunk = fake_chunk
        requests = dict(chunk_requests)
        requests["ordered"] = {"y": 1, "zzz": 2, "x": 3, "rows": 4, "cols": -1}
        requests["values-kept"] = {"x": "auto", "y": None, "cols": (1, 2)}
        requests["non-string-keys"] = {0: 1, ("x",): 2, "x": 3}
        for request_name, chunks in requests.items():
            _, all_groups = groups()
            for group_name in ("attrs-only", "coords", "lazy"):
                del chunk_calls[:]
                kind, value = attempt(cx.to_dataset, all_groups[group_name], chunks=chunks)
                if kind == "raised":
                    outcome = "raised " + describe_exception(value)
                elif isinstance(value, tuple):
                    outcome = f"returned what chunk returned: {value[0]!r} {type(value[1]).__name__}"
                else:
                    outcome = f"returned {type(value).__qualname__}"
                obs[f"to_dataset/fake-chunk/{group_name}/{request_name}"] = (
                    outcome + " | " + " ; ".join(chunk_calls)
                )
    finally:
        xr.Dataset.chunk = original_chunk

    # default argument and positional use
    _, all_groups = groups()
    obs["to_dataset/default-chunks"] = describe_dataset(cx.to_dataset(all_groups["coords"]))
    obs["to_dataset/positional-chunks"] = describe_dataset(
        cx.to_dataset(all_groups["coords"], None)
    )

    # collaborators: which, in which order, looked up at call time
    log = []
    originals = {name: getattr(cx, name) for name in ("to_variable", "decode_coords")}

    def spy(name):
        def wrapper(*args, **kwargs):
            shown = [
                a.dims if isinstance(a, Variable) else type(a).__qualname__ for a in args
            ]  # fmt: skip
            log.append(f"{name}(*{shown!r}, **{sorted(kwargs)!r})")
            return originals[name](*args, **kwargs)

        return wrapper

    try:
        for name in originals:
            setattr(cx, name, spy(name))
        cx.to_dataset(all_groups["coords"])
        obs["to_dataset/spy"] = " ; ".join(log)
        del log[:]
        kind, value = attempt(cx.to_dataset, all_groups["conflicting-sizes"])
        obs["to_dataset/spy-conflict"] = f"{kind} {type(value).__qualname__} | " + " ; ".join(log)

        def failing(var):
            log.append(f"to_variable({var.dims!r})")
            if var.dims == ["x", "y"]:
                raise Boom("second variable")
            return originals["to_variable"](var)

        del log[:]
        cx.to_variable = failing
        kind, value = attempt(cx.to_dataset, all_groups["coords"])
        obs["to_dataset/variable-fails"] = describe_exception(value) + " | " + " ; ".join(log)
    finally:
        for name, func in originals.items():
            setattr(cx, name, func)

    # to_datatree / open_alos2 build on to_dataset
    _, all_groups = groups()
    nested = Group(
        path=None,
        url=None,
        data={
            "c": Variable("x", np.array([1, 2, 3], dtype="int8"), {"a": 1}),
            "d": all_groups["coords"],
            "l": all_groups["lazy"],
        },
        attrs={"root": True},
    )
    tree = cx.to_datatree(nested)
    obs["to_datatree/nested"] = " || ".join(
        f"{node.path}: {describe_dataset(node.to_dataset())}" for node in tree.subtree
    )

    obs["public-names"] = sorted(
        name
        for name in (
            "LazilyIndexedWrapper", "extract_encoding", "to_variable", "decode_coords",
            "to_dataset", "to_datatree", "open_alos2", "SerializableLock", "Array", "io",
        )
        if hasattr(cx, name)
    )  # fmt: skip


def observe():
    obs = {}
    observe_extract_encoding(obs)
    observe_to_variable(obs)
    observe_to_dataset(obs)
    return obs


EXPECTED = {'extract_encoding/all-minus-one': "returned {'preferred_chunksizes': {'x': 4, 'y': 3}} (fresh mapping: "
                                   "True) keys=['x', 'y'] types={'x': 'int', 'y': 'int'} | accessed: chunks "
                                   "sizes sizes['x'] sizes sizes['y']",
 'extract_encoding/all-none': 'returned {} (fresh mapping: True) | accessed: chunks',
 'extract_encoding/array-(4, 3)-2': "{'preferred_chunksizes': {'x': 2, 'y': 3}}",
 'extract_encoding/array-(4, 3)-auto': "{'preferred_chunksizes': {'x': np.int64(4), 'y': 3}}",
 'extract_encoding/array-(4,)-None': "{'preferred_chunksizes': {'x': 1024}}",
 'extract_encoding/array-(5, 2, 2)--1': "{'preferred_chunksizes': {'x': 5, 'y': 2, 'z': 2}}",
 'extract_encoding/array-chunksize': "raised ValueError('The truth value of an array with more than one "
                                     "element is ambiguous. Use a.any() or a.all()',) cause=None "
                                     'context=NoneType suppress_context=False | accessed: chunks',
 'extract_encoding/chunks-raises': "Boom('chunks',) cause=None context=NoneType suppress_context=False | "
                                   'chunks',
 'extract_encoding/false': "returned {'preferred_chunksizes': {'x': False}} (fresh mapping: True) keys=['x'] "
                           "types={'x': 'bool'} | accessed: chunks",
 'extract_encoding/first-none': "returned {'preferred_chunksizes': {'x': 4, 'y': 3}} (fresh mapping: True) "
                                "keys=['x', 'y'] types={'x': 'int', 'y': 'int'} | accessed: chunks sizes "
                                "sizes['x']",
 'extract_encoding/float-minus-one': "returned {'preferred_chunksizes': {'x': 4}} (fresh mapping: True) "
                                     "keys=['x'] types={'x': 'int'} | accessed: chunks sizes sizes['x']",
 'extract_encoding/larger-than-size': "returned {'preferred_chunksizes': {'x': 10, 'y': 30}} (fresh mapping: "
                                      "True) keys=['x', 'y'] types={'x': 'int', 'y': 'int'} | accessed: "
                                      'chunks',
 'extract_encoding/minus-one': "returned {'preferred_chunksizes': {'x': 4, 'y': 3}} (fresh mapping: True) "
                               "keys=['x', 'y'] types={'x': 'int', 'y': 'int'} | accessed: chunks sizes "
                               "sizes['x']",
 'extract_encoding/minus-two': "returned {'preferred_chunksizes': {'x': -2}} (fresh mapping: True) "
                               "keys=['x'] types={'x': 'int'} | accessed: chunks",
 'extract_encoding/missing-size': "raised KeyError('y',) cause=None context=NoneType suppress_context=False "
                                  "| accessed: chunks sizes sizes['y']",
 'extract_encoding/missing-size-unused': "returned {'preferred_chunksizes': {'x': 2, 'y': 3}} (fresh "
                                         "mapping: True) keys=['x', 'y'] types={'x': 'int', 'y': 'int'} | "
                                         'accessed: chunks',
 'extract_encoding/no-chunks': 'returned {} (fresh mapping: True) | accessed: chunks',
 'extract_encoding/numpy': '{}',
 'extract_encoding/numpy-int': "returned {'preferred_chunksizes': {'x': np.int64(2), 'y': 3}} (fresh "
                               "mapping: True) keys=['x', 'y'] types={'x': 'int64', 'y': 'int'} | accessed: "
                               "chunks sizes sizes['y']",
 'extract_encoding/one-none': "returned {'preferred_chunksizes': {'x': 2, 'y': 3}} (fresh mapping: True) "
                              "keys=['x', 'y'] types={'x': 'int', 'y': 'int'} | accessed: chunks sizes "
                              "sizes['y']",
 'extract_encoding/order': "returned {'preferred_chunksizes': {'b': 2, 'a': 2, 'c': 3}} (fresh mapping: "
                           "True) keys=['b', 'a', 'c'] types={'b': 'int', 'a': 'int', 'c': 'int'} | "
                           "accessed: chunks sizes sizes['b'] sizes sizes['c']",
 'extract_encoding/plain': "returned {'preferred_chunksizes': {'x': 2, 'y': 3}} (fresh mapping: True) "
                           "keys=['x', 'y'] types={'x': 'int', 'y': 'int'} | accessed: chunks",
 'extract_encoding/sizes-raises': "Boom('sizes',) cause=None context=NoneType suppress_context=False | "
                                  'chunks sizes',
 'extract_encoding/string': "returned {'preferred_chunksizes': {'x': 'auto'}} (fresh mapping: True) "
                            "keys=['x'] types={'x': 'str'} | accessed: chunks",
 'extract_encoding/tuple': "returned {'preferred_chunksizes': {'x': (2, 2)}} (fresh mapping: True) "
                           "keys=['x'] types={'x': 'tuple'} | accessed: chunks",
 'extract_encoding/zero': "returned {'preferred_chunksizes': {'x': 0}} (fresh mapping: True) keys=['x'] "
                          "types={'x': 'int'} | accessed: chunks",
 'nodask/to_dataset/attrs-only/empty': 'raised ImportError | group_attrs_untouched=True',
 'nodask/to_dataset/attrs-only/rows': 'raised ImportError | group_attrs_untouched=True',
 'nodask/to_dataset/attrs-only/unknown-dims': 'raised ImportError | group_attrs_untouched=True',
 'nodask/to_dataset/attrs-only/xy': 'raised ImportError | group_attrs_untouched=True',
 'nodask/to_dataset/coords/empty': 'raised ImportError | group_attrs_untouched=True',
 'nodask/to_dataset/coords/rows': 'raised ImportError | group_attrs_untouched=True',
 'nodask/to_dataset/coords/unknown-dims': 'raised ImportError | group_attrs_untouched=True',
 'nodask/to_dataset/coords/xy': 'raised ImportError | group_attrs_untouched=True',
 'nodask/to_dataset/lazy/empty': 'raised ImportError | group_attrs_untouched=True',
 'nodask/to_dataset/lazy/rows': 'raised ImportError | group_attrs_untouched=True',
 'nodask/to_dataset/lazy/unknown-dims': 'raised ImportError | group_attrs_untouched=True',
 'nodask/to_dataset/lazy/xy': 'raised ImportError | group_attrs_untouched=True',
 'nodask/to_dataset/variables/empty': 'raised ImportError | group_attrs_untouched=True',
 'nodask/to_dataset/variables/rows': 'raised ImportError | group_attrs_untouched=True',
 'nodask/to_dataset/variables/unknown-dims': 'raised ImportError | group_attrs_untouched=True',
 'nodask/to_dataset/variables/xy': 'raised ImportError | group_attrs_untouched=True',
 'public-names': ['Array',
                  'LazilyIndexedWrapper',
                  'SerializableLock',
                  'decode_coords',
                  'extract_encoding',
                  'io',
                  'open_alos2',
                  'to_dataset',
                  'to_datatree',
                  'to_variable'],
 'to_dataset/attrs-only/None': 'io_before_load=[] | type=Dataset | data_vars=[] | coords=[] | sizes={} | '
                               "attrs={'a': 1, 'b': 2} | io_after_load= | group_attrs_untouched=True",
 'to_dataset/attrs-only/auto': 'raised AttributeError("\'str\' object has no attribute \'items\'",) '
                               'cause=None context=NoneType suppress_context=False | '
                               'group_attrs_untouched=True',
 'to_dataset/attrs-only/not-a-mapping': 'raised AttributeError("\'int\' object has no attribute \'items\'",) '
                                        'cause=None context=NoneType suppress_context=False | '
                                        'group_attrs_untouched=True',
 'to_dataset/conflicting-sizes/None': 'raised ValueError("conflicting sizes for dimension \'x\': length 4 on '
                                      '\'b\' and length 3 on {\'x\': \'a\'}",) cause=None context=NoneType '
                                      'suppress_context=False | group_attrs_untouched=True',
 'to_dataset/conflicting-sizes/auto': 'raised ValueError("conflicting sizes for dimension \'x\': length 4 on '
                                      '\'b\' and length 3 on {\'x\': \'a\'}",) cause=None context=NoneType '
                                      'suppress_context=False | group_attrs_untouched=True',
 'to_dataset/conflicting-sizes/empty': 'raised ValueError("conflicting sizes for dimension \'x\': length 4 '
                                       'on \'b\' and length 3 on {\'x\': \'a\'}",) cause=None '
                                       'context=NoneType suppress_context=False | group_attrs_untouched=True',
 'to_dataset/conflicting-sizes/not-a-mapping': 'raised ValueError("conflicting sizes for dimension \'x\': '
                                               'length 4 on \'b\' and length 3 on {\'x\': \'a\'}",) '
                                               'cause=None context=NoneType suppress_context=False | '
                                               'group_attrs_untouched=True',
 'to_dataset/conflicting-sizes/rows': 'raised ValueError("conflicting sizes for dimension \'x\': length 4 on '
                                      '\'b\' and length 3 on {\'x\': \'a\'}",) cause=None context=NoneType '
                                      'suppress_context=False | group_attrs_untouched=True',
 'to_dataset/conflicting-sizes/unknown-dims': 'raised ValueError("conflicting sizes for dimension \'x\': '
                                              'length 4 on \'b\' and length 3 on {\'x\': \'a\'}",) '
                                              'cause=None context=NoneType suppress_context=False | '
                                              'group_attrs_untouched=True',
 'to_dataset/conflicting-sizes/xy': 'raised ValueError("conflicting sizes for dimension \'x\': length 4 on '
                                    '\'b\' and length 3 on {\'x\': \'a\'}",) cause=None context=NoneType '
                                    'suppress_context=False | group_attrs_untouched=True',
 'to_dataset/coords/None': "io_before_load=[] | type=Dataset | data_vars=['c'] | coords=['d', 'e'] | "
                           "sizes={'x': 3, 'y': 4} | attrs={'title': 't'} | c: dims=('x',) dtype=int8 "
                           "attrs={'a': 1} encoding={} in_memory=True values=[1, 2, 3] | d: dims=('x', 'y') "
                           "dtype=int64 attrs={'b': 'abc'} encoding={} in_memory=True values=[[0, 1, 2, 3], "
                           "[4, 5, 6, 7], [8, 9, 10, 11]] | e: dims=('y',) dtype=float64 attrs={} "
                           'encoding={} in_memory=True values=[0.0, 1.0, 2.0, 3.0] | io_after_load= | '
                           'group_attrs_untouched=True',
 'to_dataset/coords/auto': 'raised AttributeError("\'str\' object has no attribute \'items\'",) cause=None '
                           'context=NoneType suppress_context=False | group_attrs_untouched=True',
 'to_dataset/coords/not-a-mapping': 'raised AttributeError("\'int\' object has no attribute \'items\'",) '
                                    'cause=None context=NoneType suppress_context=False | '
                                    'group_attrs_untouched=True',
 'to_dataset/default-chunks': "type=Dataset | data_vars=['c'] | coords=['d', 'e'] | sizes={'x': 3, 'y': 4} | "
                              "attrs={'title': 't'} | c: dims=('x',) dtype=int8 attrs={'a': 1} encoding={} "
                              "in_memory=True values=[1, 2, 3] | d: dims=('x', 'y') dtype=int64 attrs={'b': "
                              "'abc'} encoding={} in_memory=True values=[[0, 1, 2, 3], [4, 5, 6, 7], [8, 9, "
                              "10, 11]] | e: dims=('y',) dtype=float64 attrs={} encoding={} in_memory=True "
                              'values=[0.0, 1.0, 2.0, 3.0]',
 'to_dataset/fake-chunk/attrs-only/None': 'returned Dataset | ',
 'to_dataset/fake-chunk/attrs-only/auto': 'raised AttributeError("\'str\' object has no attribute '
                                          '\'items\'",) cause=None context=NoneType suppress_context=False '
                                          '| ',
 'to_dataset/fake-chunk/attrs-only/empty': "returned what chunk returned: 'chunked' Dataset | chunk(*({},), "
                                           "**{}) on data_vars=[] coords=[] attrs={'a': 1, 'b': 2}",
 'to_dataset/fake-chunk/attrs-only/non-string-keys': "returned what chunk returned: 'chunked' Dataset | "
                                                     'chunk(*({},), **{}) on data_vars=[] coords=[] '
                                                     "attrs={'a': 1, 'b': 2}",
 'to_dataset/fake-chunk/attrs-only/not-a-mapping': 'raised AttributeError("\'int\' object has no attribute '
                                                   '\'items\'",) cause=None context=NoneType '
                                                   'suppress_context=False | ',
 'to_dataset/fake-chunk/attrs-only/ordered': "returned what chunk returned: 'chunked' Dataset | "
                                             "chunk(*({},), **{}) on data_vars=[] coords=[] attrs={'a': 1, "
                                             "'b': 2}",
 'to_dataset/fake-chunk/attrs-only/rows': "returned what chunk returned: 'chunked' Dataset | chunk(*({},), "
                                          "**{}) on data_vars=[] coords=[] attrs={'a': 1, 'b': 2}",
 'to_dataset/fake-chunk/attrs-only/unknown-dims': "returned what chunk returned: 'chunked' Dataset | "
                                                  "chunk(*({},), **{}) on data_vars=[] coords=[] attrs={'a': "
                                                  "1, 'b': 2}",
 'to_dataset/fake-chunk/attrs-only/values-kept': "returned what chunk returned: 'chunked' Dataset | "
                                                 "chunk(*({},), **{}) on data_vars=[] coords=[] attrs={'a': "
                                                 "1, 'b': 2}",
 'to_dataset/fake-chunk/attrs-only/xy': "returned what chunk returned: 'chunked' Dataset | chunk(*({},), "
                                        "**{}) on data_vars=[] coords=[] attrs={'a': 1, 'b': 2}",
 'to_dataset/fake-chunk/coords/None': 'returned Dataset | ',
 'to_dataset/fake-chunk/coords/auto': 'raised AttributeError("\'str\' object has no attribute \'items\'",) '
                                      'cause=None context=NoneType suppress_context=False | ',
 'to_dataset/fake-chunk/coords/empty': "returned what chunk returned: 'chunked' Dataset | chunk(*({},), "
                                       "**{}) on data_vars=['c'] coords=['d', 'e'] attrs={'title': 't'}",
 'to_dataset/fake-chunk/coords/non-string-keys': "returned what chunk returned: 'chunked' Dataset | "
                                                 "chunk(*({'x': 3},), **{}) on data_vars=['c'] coords=['d', "
                                                 "'e'] attrs={'title': 't'}",
 'to_dataset/fake-chunk/coords/not-a-mapping': 'raised AttributeError("\'int\' object has no attribute '
                                               '\'items\'",) cause=None context=NoneType '
                                               'suppress_context=False | ',
 'to_dataset/fake-chunk/coords/ordered': "returned what chunk returned: 'chunked' Dataset | chunk(*({'y': 1, "
                                         "'x': 3},), **{}) on data_vars=['c'] coords=['d', 'e'] "
                                         "attrs={'title': 't'}",
 'to_dataset/fake-chunk/coords/rows': "returned what chunk returned: 'chunked' Dataset | chunk(*({},), **{}) "
                                      "on data_vars=['c'] coords=['d', 'e'] attrs={'title': 't'}",
 'to_dataset/fake-chunk/coords/unknown-dims': "returned what chunk returned: 'chunked' Dataset | "
                                              "chunk(*({},), **{}) on data_vars=['c'] coords=['d', 'e'] "
                                              "attrs={'title': 't'}",
 'to_dataset/fake-chunk/coords/values-kept': "returned what chunk returned: 'chunked' Dataset | "
                                             "chunk(*({'x': 'auto', 'y': None},), **{}) on data_vars=['c'] "
                                             "coords=['d', 'e'] attrs={'title': 't'}",
 'to_dataset/fake-chunk/coords/xy': "returned what chunk returned: 'chunked' Dataset | chunk(*({'x': 1, 'y': "
                                    "2},), **{}) on data_vars=['c'] coords=['d', 'e'] attrs={'title': 't'}",
 'to_dataset/fake-chunk/lazy/None': 'returned Dataset | ',
 'to_dataset/fake-chunk/lazy/auto': 'raised AttributeError("\'str\' object has no attribute \'items\'",) '
                                    'cause=None context=NoneType suppress_context=False | ',
 'to_dataset/fake-chunk/lazy/empty': "returned what chunk returned: 'chunked' Dataset | chunk(*({},), **{}) "
                                     "on data_vars=['image'] coords=['rows'] attrs={}",
 'to_dataset/fake-chunk/lazy/non-string-keys': "returned what chunk returned: 'chunked' Dataset | "
                                               "chunk(*({},), **{}) on data_vars=['image'] coords=['rows'] "
                                               'attrs={}',
 'to_dataset/fake-chunk/lazy/not-a-mapping': 'raised AttributeError("\'int\' object has no attribute '
                                             '\'items\'",) cause=None context=NoneType '
                                             'suppress_context=False | ',
 'to_dataset/fake-chunk/lazy/ordered': "returned what chunk returned: 'chunked' Dataset | chunk(*({'rows': "
                                       "4, 'cols': -1},), **{}) on data_vars=['image'] coords=['rows'] "
                                       'attrs={}',
 'to_dataset/fake-chunk/lazy/rows': "returned what chunk returned: 'chunked' Dataset | chunk(*({'rows': "
                                    "2},), **{}) on data_vars=['image'] coords=['rows'] attrs={}",
 'to_dataset/fake-chunk/lazy/unknown-dims': "returned what chunk returned: 'chunked' Dataset | chunk(*({},), "
                                            "**{}) on data_vars=['image'] coords=['rows'] attrs={}",
 'to_dataset/fake-chunk/lazy/values-kept': "returned what chunk returned: 'chunked' Dataset | "
                                           "chunk(*({'cols': (1, 2)},), **{}) on data_vars=['image'] "
                                           "coords=['rows'] attrs={}",
 'to_dataset/fake-chunk/lazy/xy': "returned what chunk returned: 'chunked' Dataset | chunk(*({},), **{}) on "
                                  "data_vars=['image'] coords=['rows'] attrs={}",
 'to_dataset/lazy/None': "io_before_load=[] | type=Dataset | data_vars=['image'] | coords=['rows'] | "
                         "sizes={'rows': 4, 'cols': 3} | attrs={} | image: dims=('rows', 'cols') "
                         "dtype=uint16 attrs={'units': '1'} encoding={'preferred_chunksizes': {'rows': 2, "
                         "'cols': 3}} in_memory=False values=[[1, 4, 7], [10, 13, 16], [19, 22, 25], [28, "
                         "31, 34]] | rows: dims=('rows',) dtype=int64 attrs={} encoding={} in_memory=True "
                         "values=[0, 1, 2, 3] | io_after_load=open(*('image',), **{'mode': 'rb'}) enter "
                         'seek(4) read(16) seek(24) read(16) exit(None) | group_attrs_untouched=True',
 'to_dataset/lazy/auto': 'raised AttributeError("\'str\' object has no attribute \'items\'",) cause=None '
                         'context=NoneType suppress_context=False | group_attrs_untouched=True',
 'to_dataset/lazy/not-a-mapping': 'raised AttributeError("\'int\' object has no attribute \'items\'",) '
                                  'cause=None context=NoneType suppress_context=False | '
                                  'group_attrs_untouched=True',
 'to_dataset/missing-coords/None': 'raised ValueError("These variables cannot be found in this dataset: '
                                   '[\'nope\']",) cause=None context=NoneType suppress_context=False | '
                                   'group_attrs_untouched=True',
 'to_dataset/missing-coords/auto': 'raised ValueError("These variables cannot be found in this dataset: '
                                   '[\'nope\']",) cause=None context=NoneType suppress_context=False | '
                                   'group_attrs_untouched=True',
 'to_dataset/missing-coords/empty': 'raised ValueError("These variables cannot be found in this dataset: '
                                    '[\'nope\']",) cause=None context=NoneType suppress_context=False | '
                                    'group_attrs_untouched=True',
 'to_dataset/missing-coords/not-a-mapping': 'raised ValueError("These variables cannot be found in this '
                                            'dataset: [\'nope\']",) cause=None context=NoneType '
                                            'suppress_context=False | group_attrs_untouched=True',
 'to_dataset/missing-coords/rows': 'raised ValueError("These variables cannot be found in this dataset: '
                                   '[\'nope\']",) cause=None context=NoneType suppress_context=False | '
                                   'group_attrs_untouched=True',
 'to_dataset/missing-coords/unknown-dims': 'raised ValueError("These variables cannot be found in this '
                                           'dataset: [\'nope\']",) cause=None context=NoneType '
                                           'suppress_context=False | group_attrs_untouched=True',
 'to_dataset/missing-coords/xy': 'raised ValueError("These variables cannot be found in this dataset: '
                                 '[\'nope\']",) cause=None context=NoneType suppress_context=False | '
                                 'group_attrs_untouched=True',
 'to_dataset/positional-chunks': "type=Dataset | data_vars=['c'] | coords=['d', 'e'] | sizes={'x': 3, 'y': "
                                 "4} | attrs={'title': 't'} | c: dims=('x',) dtype=int8 attrs={'a': 1} "
                                 "encoding={} in_memory=True values=[1, 2, 3] | d: dims=('x', 'y') "
                                 "dtype=int64 attrs={'b': 'abc'} encoding={} in_memory=True values=[[0, 1, "
                                 "2, 3], [4, 5, 6, 7], [8, 9, 10, 11]] | e: dims=('y',) dtype=float64 "
                                 'attrs={} encoding={} in_memory=True values=[0.0, 1.0, 2.0, 3.0]',
 'to_dataset/spy': "to_variable(*[['x']], **[]) ; to_variable(*[['x', 'y']], **[]) ; to_variable(*[['y']], "
                   "**[]) ; decode_coords(*['Dataset'], **[])",
 'to_dataset/spy-conflict': "raised ValueError | to_variable(*[['x']], **[]) ; to_variable(*[['x']], **[])",
 'to_dataset/variable-fails': "Boom('second variable',) cause=None context=NoneType suppress_context=False | "
                              "to_variable(['x']) ; to_variable(['x', 'y'])",
 'to_dataset/variables/None': "io_before_load=[] | type=Dataset | data_vars=['a', 'b'] | coords=[] | "
                              "sizes={'x': 3, 'y': 4} | attrs={} | a: dims=('x',) dtype=int8 attrs={'a': 1} "
                              "encoding={} in_memory=True values=[1, 2, 3] | b: dims=('x', 'y') dtype=int64 "
                              "attrs={'b': 'abc'} encoding={} in_memory=True values=[[0, 1, 2, 3], [4, 5, 6, "
                              '7], [8, 9, 10, 11]] | io_after_load= | group_attrs_untouched=True',
 'to_dataset/variables/auto': 'raised AttributeError("\'str\' object has no attribute \'items\'",) '
                              'cause=None context=NoneType suppress_context=False | '
                              'group_attrs_untouched=True',
 'to_dataset/variables/not-a-mapping': 'raised AttributeError("\'int\' object has no attribute \'items\'",) '
                                       'cause=None context=NoneType suppress_context=False | '
                                       'group_attrs_untouched=True',
 'to_datatree/nested': "/: type=Dataset | data_vars=['c'] | coords=[] | sizes={'x': 3} | attrs={'root': "
                       "True} | c: dims=('x',) dtype=int8 attrs={'a': 1} encoding={} in_memory=True "
                       "values=[1, 2, 3] || /d: type=Dataset | data_vars=['c'] | coords=['d', 'e'] | "
                       "sizes={'x': 3, 'y': 4} | attrs={'title': 't'} | c: dims=('x',) dtype=int8 "
                       "attrs={'a': 1} encoding={} in_memory=True values=[1, 2, 3] | d: dims=('x', 'y') "
                       "dtype=int64 attrs={'b': 'abc'} encoding={} in_memory=True values=[[0, 1, 2, 3], [4, "
                       "5, 6, 7], [8, 9, 10, 11]] | e: dims=('y',) dtype=float64 attrs={} encoding={} "
                       "in_memory=True values=[0.0, 1.0, 2.0, 3.0] || /l: type=Dataset | data_vars=['image'] "
                       "| coords=['rows'] | sizes={'rows': 4, 'cols': 3} | attrs={} | image: dims=('rows', "
                       "'cols') dtype=uint16 attrs={'units': '1'} encoding={'preferred_chunksizes': {'rows': "
                       "2, 'cols': 3}} in_memory=False values=[[1, 4, 7], [10, 13, 16], [19, 22, 25], [28, "
                       "31, 34]] | rows: dims=('rows',) dtype=int64 attrs={} encoding={} in_memory=True "
                       "values=[0, 1, 2, 3] || /l/sub: type=Dataset | data_vars=[] | coords=['rows'] | "
                       "sizes={'rows': 4} | attrs={'ignored': True} | rows: dims=('rows',) dtype=int64 "
                       'attrs={} encoding={} in_memory=True values=[0, 1, 2, 3]',
 'to_variable/access-order-lazy': "data data dims attrs chunks sizes sizes['y'] | "
                                  "type=xarray.core.variable.Variable | dims=('x', 'y') | attrs={'k': 'v'} | "
                                  "encoding={'preferred_chunksizes': {'x': 2, 'y': 2}} | in_memory=False | "
                                  'dtype=uint16 shape=(3, 2) | '
                                  'layers=LazilyIndexedArray>LazilyIndexedWrapper>Array | '
                                  'innermost_is_source=True | lock=xarray.backends.locks.SerializableLock '
                                  "wrapper_shape=(3, 2) wrapper_dtype=dtype('uint16') | "
                                  'key=BasicIndexer((slice(None, None, None), slice(None, None, None))) | '
                                  'values=[[1, 4], [7, 10], [13, 16]]',
 'to_variable/access-order-memory': 'data data dims attrs chunks | type=xarray.core.variable.Variable | '
                                    "dims=('x',) | attrs={'k': 'v'} | encoding={} | in_memory=True | "
                                    'dtype=int64 shape=(3,) | layers=ndarray | innermost_is_source=True | '
                                    'values=[0, 1, 2]',
 'to_variable/array-shared': True,
 'to_variable/attrs-raises': "Boom('attrs',) cause=None context=NoneType suppress_context=False | data data "
                             'dims attrs',
 'to_variable/chunks-raises': "Boom('chunks',) cause=None context=NoneType suppress_context=False | data "
                              'data dims attrs chunks',
 'to_variable/data-raises': "Boom('data',) cause=None context=NoneType suppress_context=False | data",
 'to_variable/dims-mismatch': 'raised ValueError | io=[]',
 'to_variable/dims-raises': "Boom('dims',) cause=None context=NoneType suppress_context=False | data data "
                            'dims',
 'to_variable/lazy-(0, 3)-2': "type=xarray.core.variable.Variable | dims=('rows', 'cols') | "
                              "attrs={'long_name': 'image'} | encoding={'preferred_chunksizes': {'rows': 0, "
                              "'cols': 3}} | in_memory=False | dtype=uint16 shape=(0, 3) | "
                              'layers=LazilyIndexedArray>LazilyIndexedWrapper>Array | '
                              'innermost_is_source=True | lock=xarray.backends.locks.SerializableLock '
                              "wrapper_shape=(0, 3) wrapper_dtype=dtype('uint16') | "
                              'key=BasicIndexer((slice(None, None, None), slice(None, None, None))) | '
                              "io_before_load=[] | values=[] | io_after_load=open(*('image',), **{'mode': "
                              "'rb'}) enter exit(None)",
 'to_variable/lazy-(4, 3)--1': "type=xarray.core.variable.Variable | dims=('rows', 'cols') | "
                               "attrs={'long_name': 'image'} | encoding={'preferred_chunksizes': {'rows': 4, "
                               "'cols': 3}} | in_memory=False | dtype=uint16 shape=(4, 3) | "
                               'layers=LazilyIndexedArray>LazilyIndexedWrapper>Array | '
                               'innermost_is_source=True | lock=xarray.backends.locks.SerializableLock '
                               "wrapper_shape=(4, 3) wrapper_dtype=dtype('uint16') | "
                               'key=BasicIndexer((slice(None, None, None), slice(None, None, None))) | '
                               'io_before_load=[] | values=[[1, 4, 7], [10, 13, 16], [19, 22, 25], [28, 31, '
                               "34]] | io_after_load=open(*('image',), **{'mode': 'rb'}) enter seek(4) "
                               'read(36) exit(None)',
 'to_variable/lazy-(4, 3)--1/partial': "[[16, 13, 10], [25, 22, 19]] | io=open(*('image',), **{'mode': "
                                       "'rb'}) enter seek(4) read(36) exit(None) | still_lazy=True",
 'to_variable/lazy-(4, 3)-2': "type=xarray.core.variable.Variable | dims=('rows', 'cols') | "
                              "attrs={'long_name': 'image'} | encoding={'preferred_chunksizes': {'rows': 2, "
                              "'cols': 3}} | in_memory=False | dtype=uint16 shape=(4, 3) | "
                              'layers=LazilyIndexedArray>LazilyIndexedWrapper>Array | '
                              'innermost_is_source=True | lock=xarray.backends.locks.SerializableLock '
                              "wrapper_shape=(4, 3) wrapper_dtype=dtype('uint16') | "
                              'key=BasicIndexer((slice(None, None, None), slice(None, None, None))) | '
                              'io_before_load=[] | values=[[1, 4, 7], [10, 13, 16], [19, 22, 25], [28, 31, '
                              "34]] | io_after_load=open(*('image',), **{'mode': 'rb'}) enter seek(4) "
                              'read(16) seek(24) read(16) exit(None)',
 'to_variable/lazy-(4, 3)-2/partial': "[[16, 13, 10], [25, 22, 19]] | io=open(*('image',), **{'mode': 'rb'}) "
                                      'enter seek(4) read(16) seek(24) read(16) exit(None) | still_lazy=True',
 'to_variable/lazy-(4, 3)-None': "type=xarray.core.variable.Variable | dims=('rows', 'cols') | "
                                 "attrs={'long_name': 'image'} | encoding={'preferred_chunksizes': {'rows': "
                                 "1024, 'cols': 3}} | in_memory=False | dtype=uint16 shape=(4, 3) | "
                                 'layers=LazilyIndexedArray>LazilyIndexedWrapper>Array | '
                                 'innermost_is_source=True | lock=xarray.backends.locks.SerializableLock '
                                 "wrapper_shape=(4, 3) wrapper_dtype=dtype('uint16') | "
                                 'key=BasicIndexer((slice(None, None, None), slice(None, None, None))) | '
                                 'io_before_load=[] | values=[[1, 4, 7], [10, 13, 16], [19, 22, 25], [28, '
                                 "31, 34]] | io_after_load=open(*('image',), **{'mode': 'rb'}) enter seek(4) "
                                 'read(36) exit(None)',
 'to_variable/lazy-(4, 3)-None/partial': "[[16, 13, 10], [25, 22, 19]] | io=open(*('image',), **{'mode': "
                                         "'rb'}) enter seek(4) read(36) exit(None) | still_lazy=True",
 'to_variable/lazy-(5,)-2': "type=xarray.core.variable.Variable | dims=('rows',) | attrs={'long_name': "
                            "'image'} | encoding={'preferred_chunksizes': {'rows': 2}} | in_memory=False | "
                            'dtype=uint16 shape=(5,) | layers=LazilyIndexedArray>LazilyIndexedWrapper>Array '
                            '| innermost_is_source=True | lock=xarray.backends.locks.SerializableLock '
                            "wrapper_shape=(5,) wrapper_dtype=dtype('uint16') | "
                            'key=BasicIndexer((slice(None, None, None),)) | io_before_load=[] | values=[[1], '
                            "[4], [7], [10], [13]] | io_after_load=open(*('image',), **{'mode': 'rb'}) enter "
                            'seek(4) read(8) seek(16) read(8) seek(28) read(2) exit(None)',
 'to_variable/lazy-(5,)-2/partial': "[[4], [7]] | io=open(*('image',), **{'mode': 'rb'}) enter seek(4) "
                                    'read(8) seek(16) read(8) exit(None) | still_lazy=True',
 'to_variable/lazy-(6, 2)-auto': "type=xarray.core.variable.Variable | dims=('a', 'b') | attrs={'long_name': "
                                 "'image'} | encoding={'preferred_chunksizes': {'a': np.int64(6), 'b': 2}} | "
                                 'in_memory=False | dtype=uint16 shape=(6, 2) | '
                                 'layers=LazilyIndexedArray>LazilyIndexedWrapper>Array | '
                                 'innermost_is_source=True | lock=xarray.backends.locks.SerializableLock '
                                 "wrapper_shape=(6, 2) wrapper_dtype=dtype('uint16') | "
                                 'key=BasicIndexer((slice(None, None, None), slice(None, None, None))) | '
                                 'io_before_load=[] | values=[[1, 4], [7, 10], [13, 16], [19, 22], [25, 28], '
                                 "[31, 34]] | io_after_load=open(*('image',), **{'mode': 'rb'}) enter "
                                 'seek(4) read(44) exit(None)',
 'to_variable/lazy-(6, 2)-auto/partial': "[[10, 7], [16, 13]] | io=open(*('image',), **{'mode': 'rb'}) enter "
                                         'seek(4) read(44) exit(None) | still_lazy=True',
 'to_variable/locks-distinct': True,
 'to_variable/memory-0d': "type=xarray.core.variable.Variable | dims=() | attrs={'a': 1, 'units': 'm'} | "
                          'encoding={} | in_memory=True | dtype=int64 shape=() | layers=ndarray | '
                          'innermost_is_source=True | values=5 | source_attrs_untouched=True',
 'to_variable/memory-2d': "type=xarray.core.variable.Variable | dims=('x', 'y') | attrs={'a': 1, 'units': "
                          "'m'} | encoding={} | in_memory=True | dtype=float64 shape=(2, 3) | layers=ndarray "
                          '| innermost_is_source=True | values=[[0.0, 1.0, 2.0], [3.0, 4.0, 5.0]] | '
                          'source_attrs_untouched=True',
 'to_variable/memory-empty': "type=xarray.core.variable.Variable | dims=('x',) | attrs={'a': 1, 'units': "
                             "'m'} | encoding={} | in_memory=True | dtype=float32 shape=(0,) | "
                             'layers=ndarray | innermost_is_source=True | values=[] | '
                             'source_attrs_untouched=True',
 'to_variable/memory-int8': "type=xarray.core.variable.Variable | dims=('x',) | attrs={'a': 1, 'units': 'm'} "
                            '| encoding={} | in_memory=True | dtype=int8 shape=(2,) | layers=ndarray | '
                            'innermost_is_source=True | values=[1, 2] | source_attrs_untouched=True',
 'to_variable/memory-list': "type=xarray.core.variable.Variable | dims=('x',) | attrs={'a': 1, 'units': 'm'} "
                            '| encoding={} | in_memory=True | dtype=int64 shape=(3,) | layers=ndarray | '
                            'innermost_is_source=False | values=[1, 2, 3] | source_attrs_untouched=True',
 'to_variable/memory-strings': "type=xarray.core.variable.Variable | dims=('x',) | attrs={'a': 1, 'units': "
                               "'m'} | encoding={} | in_memory=True | dtype=<U2 shape=(2,) | layers=ndarray "
                               "| innermost_is_source=True | values=['a', 'bc'] | "
                               'source_attrs_untouched=True',
 'to_variable/spy-lazy': "SerializableLock(*[], **[]) ; LazilyIndexedWrapper(*['Array', 'SerializableLock'], "
                         "**[]) ; extract_encoding(*['Variable'], **[])",
 'to_variable/spy-memory': "extract_encoding(*['Variable'], **[])"}


def test_equiv():
    assert EXPECTED is not None, "expected values have not been recorded"
    observed = observe()
    if HAS_DASK:
        observed = {k: v for k, v in observed.items() if not k.startswith("nodask/")}
        expected = {k: v for k, v in EXPECTED.items() if not k.startswith("nodask/")}
    else:
        expected = EXPECTED
    assert sorted(observed) == sorted(expected)
    for key in expected:
        assert observed[key] == expected[key], key


if __name__ == "__main__":
    if "--record" in sys.argv:
        print("EXPECTED = " + pprint.pformat(observe(), width=110, sort_dicts=True))
    else:
        test_equiv()
        print(f"ok: {len(EXPECTED)} observations identical ({cx.__file__})")
