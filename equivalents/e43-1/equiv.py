"""Equivalence check for refactoring 1 (caching/encoders.py: encode_timedelta,
encode_datetime, encode_array).

Run: cd /tmp/wt6/e43 && PYTHONPATH=/tmp/wt6/e43 /venv/bin/python _eq/1/equiv.py
The expectations in EXPECTED were recorded from the unchanged code (HEAD); the
script must pass both with and without patch.diff applied.
"""
import json
import pathlib
import sys
import warnings

import numpy as np

warnings.simplefilter("ignore")


def canon(obj):
    """Deterministic, type-aware description of a result."""
    from ceos_alos2.array import Array
    from ceos_alos2.hierarchy import Group, Variable

    if isinstance(obj, Group):
        return [
            "Group",
            canon(obj.path),
            canon(obj.url),
            canon(obj.attrs),
            [type(obj.data).__name__, [[canon(k), canon(v)] for k, v in obj.data.items()]],
        ]
    if isinstance(obj, Variable):
        return ["Variable", canon(obj.dims), canon(obj.data), canon(obj.attrs)]
    if isinstance(obj, Array):
        return [
            "Array",
            type(obj.fs).__name__,
            canon(getattr(obj.fs, "path", None)),
            type(getattr(obj.fs, "fs", None)).__name__,
            canon(obj.url),
            canon(obj.byte_ranges),
            canon(obj.shape),
            canon(obj.dtype),
            canon(obj.type_code),
            canon(obj.records_per_chunk),
            canon(obj.chunk_offsets),
        ]
    if isinstance(obj, np.ndarray):
        flat = obj.ravel()
        if obj.dtype.kind in "mM":
            items = [[str(v), int(v.astype("int64"))] for v in flat]
        else:
            items = [canon(v) for v in flat.tolist()]
        return ["ndarray", str(obj.dtype), list(obj.shape), items]
    if isinstance(obj, np.generic):
        return [type(obj).__name__, str(obj)]
    if isinstance(obj, dict):
        return [type(obj).__name__, [[canon(k), canon(v)] for k, v in obj.items()]]
    if isinstance(obj, (list, tuple)):
        return [type(obj).__name__, [canon(v) for v in obj]]
    if isinstance(obj, pathlib.PurePath):
        return [type(obj).__name__, str(obj)]
    if isinstance(obj, BaseException):
        return ["exc", type(obj).__name__, str(obj)]
    if obj is None or isinstance(obj, (bool, int, float, str, bytes)):
        return [type(obj).__name__, repr(obj)]
    return ["other", type(obj).__name__, repr(obj)]


def outcome(thunk):
    try:
        result = thunk()
    except BaseException as e:  # noqa: B902
        chain = []
        cur = e
        while cur is not None:
            chain.append([type(cur).__name__, str(cur)])
            cur = cur.__cause__
        return ["raised", chain]
    return ["returned", canon(result)]


def main(cases, expected_text):
    actual = {name: outcome(thunk) for name, thunk in cases().items()}
    if "--record" in sys.argv:
        lines = [f" {json.dumps(name)}: {json.dumps(actual[name])}" for name in sorted(actual)]
        print("{\n" + ",\n".join(lines) + "\n}")
        return
    expected = json.loads(expected_text)
    assert sorted(actual) == sorted(expected), (sorted(actual), sorted(expected))
    failures = [name for name in actual if json.loads(json.dumps(actual[name])) != expected[name]]
    for name in failures:
        print("MISMATCH", name, "\n  expected:", expected[name], "\n  actual:  ", actual[name])
    assert not failures, failures
    print(f"OK: {len(actual)} cases identical to the recorded behaviour")


def make_array(shape=(4, 3), dtype="int16", type_code="IU2", rpc=2, root="/path/to", url="file"):
    from fsspec.implementations.dirfs import DirFileSystem
    from fsspec.implementations.local import LocalFileSystem

    from ceos_alos2.array import Array

    fs = DirFileSystem(fs=LocalFileSystem(), path=root)
    byte_ranges = [(x * 10 + 5, (x + 1) * 10) for x in range(shape[0])]
    return Array(
        fs=fs,
        url=url,
        byte_ranges=byte_ranges,
        shape=shape,
        dtype=dtype,
        type_code=type_code,
        records_per_chunk=rpc,
    )


class Opaque:
    def __repr__(self):
        return "Opaque()"


def cases():
    from ceos_alos2.sar_image.caching import encoders as enc

    c = {}

    # encode_timedelta
    for unit in ["ns", "us", "ms", "s", "m", "h", "D", "10ms", "25s", "3D"]:
        arr = np.array([0, 10, -20, 30], dtype=f"timedelta64[{unit}]")
        c[f"timedelta-{unit}"] = lambda arr=arr: enc.encode_timedelta(arr)
    c["timedelta-empty"] = lambda: enc.encode_timedelta(np.array([], dtype="timedelta64[s]"))
    c["timedelta-0d"] = lambda: enc.encode_timedelta(np.array(5, dtype="timedelta64[ms]"))
    c["timedelta-2d"] = lambda: enc.encode_timedelta(
        np.arange(6).reshape(2, 3).astype("timedelta64[us]")
    )
    c["timedelta-nat"] = lambda: enc.encode_timedelta(
        np.array([1, "NaT", 3], dtype="timedelta64[s]")
    )
    c["timedelta-generic"] = lambda: enc.encode_timedelta(np.array([1, 2], dtype="timedelta64"))
    c["timedelta-on-int"] = lambda: enc.encode_timedelta(np.array([1, 2]))
    c["timedelta-on-datetime"] = lambda: enc.encode_timedelta(
        np.array(["2020-01-01"], dtype="datetime64[7D]")
    )
    c["timedelta-on-list"] = lambda: enc.encode_timedelta([1, 2])

    # encode_datetime
    stamps = ["2019-01-01T00:01:00", "2019-01-02T00:02:00", "2018-12-31T23:59:59"]
    for unit in ["ns", "us", "ms", "s", "m", "h", "D", "M", "Y", "10ms", "25s", "2D", "15m"]:
        arr = np.array(stamps, dtype=f"datetime64[{unit}]")
        c[f"datetime-{unit}"] = lambda arr=arr: enc.encode_datetime(arr)
    c["datetime-single"] = lambda: enc.encode_datetime(
        np.array(["2019-01-01 00:00:00"], dtype="datetime64[ns]")
    )
    c["datetime-empty"] = lambda: enc.encode_datetime(np.array([], dtype="datetime64[s]"))
    c["datetime-0d"] = lambda: enc.encode_datetime(np.array("2020-02-02", dtype="datetime64[s]"))
    c["datetime-2d"] = lambda: enc.encode_datetime(
        np.array([["2020-01-01", "2020-01-02"], ["2020-01-03", "2020-01-04"]], dtype="datetime64[D]")
    )
    c["datetime-nat-first"] = lambda: enc.encode_datetime(
        np.array(["NaT", "2020-01-01"], dtype="datetime64[s]")
    )
    c["datetime-nat-later"] = lambda: enc.encode_datetime(
        np.array(["2020-01-01", "NaT"], dtype="datetime64[s]")
    )
    c["datetime-generic"] = lambda: enc.encode_datetime(np.array(["NaT"], dtype="datetime64"))
    c["datetime-on-int"] = lambda: enc.encode_datetime(np.array([1, 2]))
    c["datetime-on-timedelta"] = lambda: enc.encode_datetime(
        np.array([4, 6], dtype="timedelta64[5s]")
    )
    c["datetime-on-list"] = lambda: enc.encode_datetime(["2020-01-01"])

    # encode_array: in-memory data of every dtype kind
    plain = {
        "int32": np.array([0, 1, 2], dtype="int32"),
        "uint8": np.array([0, 255], dtype="uint8"),
        "float16": np.array([0.0, 1.0, 2.5], dtype="float16"),
        "float64-nan": np.array([np.nan, np.inf, -0.0]),
        "complex64": np.array([1 + 2j, 3 - 4j], dtype="complex64"),
        "bool": np.array([True, False]),
        "str": np.array(["a", "bc"]),
        "bytes": np.array([b"a", b"bc"]),
        "object": np.array([1, "a", None, (1, 2)], dtype=object),
        "void": np.array([(1, 2.0)], dtype=[("a", "i4"), ("b", "f8")]),
        "big-endian": np.array([1, 2], dtype=">u2"),
        "2d": np.arange(6, dtype="int64").reshape(2, 3),
        "0d": np.array(4.5),
        "empty": np.array([], dtype="float32"),
        "timedelta-s": np.array([0, 1, 2], dtype="timedelta64[s]"),
        "timedelta-10ms": np.array([0, 1, 2], dtype="timedelta64[10ms]"),
        "timedelta-0d": np.array(3, dtype="timedelta64[h]"),
        "datetime-ns": np.array(
            ["2019-01-01", "2020-01-01", "2021-01-01", "2022-01-01"], dtype="datetime64[ns]"
        ),
        "datetime-25s": np.array(stamps, dtype="datetime64[25s]"),
        "datetime-empty": np.array([], dtype="datetime64[ms]"),
        "datetime-0d": np.array("2020-01-01", dtype="datetime64[D]"),
        "datetime-2d": np.array([["2020-01-01"], ["2020-01-03"]], dtype="datetime64[h]"),
    }
    for name, arr in plain.items():
        c[f"array-{name}"] = lambda arr=arr: enc.encode_array(arr)

    # encode_array: things that are not arrays yet
    others = {
        "list": [1, 2, 3],
        "nested-list": [[1.5, 2], [3, 4]],
        "tuple": (1, 2),
        "scalar": 7,
        "float-scalar": 1.5,
        "str-scalar": "abc",
        "none": None,
        "np-datetime-scalar": np.datetime64("2020-01-01T00:00:00", "s"),
        "np-timedelta-scalar": np.timedelta64(5, "m"),
        "list-of-datetimes": [np.datetime64("2020-01-01", "D"), np.datetime64("2020-01-05", "D")],
        "list-of-timedeltas": [np.timedelta64(1, "s"), np.timedelta64(5, "s")],
        "ragged": [[1, 2], [3]],
        "dict": {"a": 1},
        "opaque": Opaque(),
        "memoryview": memoryview(b"abc"),
        "range": range(3),
    }
    for name, value in others.items():
        c[f"array-from-{name}"] = lambda value=value: enc.encode_array(value)

    # encode_array: backend arrays
    c["backend-int16"] = lambda: enc.encode_array(make_array())
    c["backend-complex"] = lambda: enc.encode_array(
        make_array(shape=(3, 5), dtype="complex64", type_code="C*8", rpc=None, root="/a/b", url="IMG-HH")
    )
    c["backend-np-dtype"] = lambda: enc.encode_array(
        make_array(shape=(2, 2), dtype=np.dtype(">u2"), rpc="auto", root="/", url="x/y")
    )
    c["backend-empty"] = lambda: enc.encode_array(make_array(shape=(0, 3), rpc=1))

    def backend_memory_fs():
        import fsspec

        from ceos_alos2.array import Array

        return enc.encode_array(
            Array(
                fs=fsspec.filesystem("memory"),
                url="f",
                byte_ranges=[(0, 4)],
                shape=(1, 2),
                dtype="uint16",
                type_code="IU2",
            )
        )

    c["backend-fs-without-path"] = backend_memory_fs

    def key_order():
        return [list(enc.encode_array(make_array())), list(enc.encode_array([1])), list(enc.encode_datetime(plain["datetime-ns"])[1])]

    c["key-order"] = key_order

    return c


EXPECTED = r'''
{
 "array-0d": ["returned", ["dict", [[["str", "'__type__'"], ["str", "'array'"]], [["str", "'dtype'"], ["str", "'float64'"]], [["str", "'data'"], ["float", "4.5"]], [["str", "'encoding'"], ["dict", []]]]]],
 "array-2d": ["returned", ["dict", [[["str", "'__type__'"], ["str", "'array'"]], [["str", "'dtype'"], ["str", "'int64'"]], [["str", "'data'"], ["list", [["list", [["int", "0"], ["int", "1"], ["int", "2"]]], ["list", [["int", "3"], ["int", "4"], ["int", "5"]]]]]], [["str", "'encoding'"], ["dict", []]]]]],
 "array-big-endian": ["returned", ["dict", [[["str", "'__type__'"], ["str", "'array'"]], [["str", "'dtype'"], ["str", "'>u2'"]], [["str", "'data'"], ["list", [["int", "1"], ["int", "2"]]]], [["str", "'encoding'"], ["dict", []]]]]],
 "array-bool": ["returned", ["dict", [[["str", "'__type__'"], ["str", "'array'"]], [["str", "'dtype'"], ["str", "'bool'"]], [["str", "'data'"], ["list", [["bool", "True"], ["bool", "False"]]]], [["str", "'encoding'"], ["dict", []]]]]],
 "array-bytes": ["returned", ["dict", [[["str", "'__type__'"], ["str", "'array'"]], [["str", "'dtype'"], ["str", "'|S2'"]], [["str", "'data'"], ["list", [["bytes", "b'a'"], ["bytes", "b'bc'"]]]], [["str", "'encoding'"], ["dict", []]]]]],
 "array-complex64": ["returned", ["dict", [[["str", "'__type__'"], ["str", "'array'"]], [["str", "'dtype'"], ["str", "'complex64'"]], [["str", "'data'"], ["list", [["other", "complex", "(1+2j)"], ["other", "complex", "(3-4j)"]]]], [["str", "'encoding'"], ["dict", []]]]]],
 "array-datetime-0d": ["raised", [["IndexError", "too many indices for array: array is 0-dimensional, but 1 were indexed"]]],
 "array-datetime-25s": ["returned", ["dict", [[["str", "'__type__'"], ["str", "'array'"]], [["str", "'dtype'"], ["str", "'datetime64[25s]'"]], [["str", "'data'"], ["list", [["int", "0"], ["int", "3458"], ["int", "-3"]]]], [["str", "'encoding'"], ["dict", [[["str", "'reference'"], ["str", "'2019-01-01T00:00:50'"]], [["str", "'units'"], ["str", "'25s'"]]]]]]]],
 "array-datetime-2d": ["returned", ["dict", [[["str", "'__type__'"], ["str", "'array'"]], [["str", "'dtype'"], ["str", "'datetime64[h]'"]], [["str", "'data'"], ["list", [["list", [["int", "0"]]], ["list", [["int", "48"]]]]]], [["str", "'encoding'"], ["dict", [[["str", "'reference'"], ["str", "\"['2020-01-01T00']\""]], [["str", "'units'"], ["str", "'h'"]]]]]]]],
 "array-datetime-empty": ["raised", [["IndexError", "index 0 is out of bounds for axis 0 with size 0"]]],
 "array-datetime-ns": ["returned", ["dict", [[["str", "'__type__'"], ["str", "'array'"]], [["str", "'dtype'"], ["str", "'datetime64[ns]'"]], [["str", "'data'"], ["list", [["int", "0"], ["int", "31536000000000000"], ["int", "63158400000000000"], ["int", "94694400000000000"]]]], [["str", "'encoding'"], ["dict", [[["str", "'reference'"], ["str", "'2019-01-01T00:00:00.000000000'"]], [["str", "'units'"], ["str", "'ns'"]]]]]]]],
 "array-empty": ["returned", ["dict", [[["str", "'__type__'"], ["str", "'array'"]], [["str", "'dtype'"], ["str", "'float32'"]], [["str", "'data'"], ["list", []]], [["str", "'encoding'"], ["dict", []]]]]],
 "array-float16": ["returned", ["dict", [[["str", "'__type__'"], ["str", "'array'"]], [["str", "'dtype'"], ["str", "'float16'"]], [["str", "'data'"], ["list", [["float", "0.0"], ["float", "1.0"], ["float", "2.5"]]]], [["str", "'encoding'"], ["dict", []]]]]],
 "array-float64-nan": ["returned", ["dict", [[["str", "'__type__'"], ["str", "'array'"]], [["str", "'dtype'"], ["str", "'float64'"]], [["str", "'data'"], ["list", [["float", "nan"], ["float", "inf"], ["float", "-0.0"]]]], [["str", "'encoding'"], ["dict", []]]]]],
 "array-from-dict": ["returned", ["dict", [[["str", "'__type__'"], ["str", "'array'"]], [["str", "'dtype'"], ["str", "'object'"]], [["str", "'data'"], ["dict", [[["str", "'a'"], ["int", "1"]]]]], [["str", "'encoding'"], ["dict", []]]]]],
 "array-from-float-scalar": ["returned", ["dict", [[["str", "'__type__'"], ["str", "'array'"]], [["str", "'dtype'"], ["str", "'float64'"]], [["str", "'data'"], ["float", "1.5"]], [["str", "'encoding'"], ["dict", []]]]]],
 "array-from-list": ["returned", ["dict", [[["str", "'__type__'"], ["str", "'array'"]], [["str", "'dtype'"], ["str", "'int64'"]], [["str", "'data'"], ["list", [["int", "1"], ["int", "2"], ["int", "3"]]]], [["str", "'encoding'"], ["dict", []]]]]],
 "array-from-list-of-datetimes": ["returned", ["dict", [[["str", "'__type__'"], ["str", "'array'"]], [["str", "'dtype'"], ["str", "'datetime64[D]'"]], [["str", "'data'"], ["list", [["int", "0"], ["int", "4"]]]], [["str", "'encoding'"], ["dict", [[["str", "'reference'"], ["str", "'2020-01-01'"]], [["str", "'units'"], ["str", "'D'"]]]]]]]],
 "array-from-list-of-timedeltas": ["returned", ["dict", [[["str", "'__type__'"], ["str", "'array'"]], [["str", "'dtype'"], ["str", "'timedelta64[s]'"]], [["str", "'data'"], ["list", [["int", "1"], ["int", "5"]]]], [["str", "'encoding'"], ["dict", [[["str", "'units'"], ["str", "'s'"]]]]]]]],
 "array-from-memoryview": ["returned", ["dict", [[["str", "'__type__'"], ["str", "'array'"]], [["str", "'dtype'"], ["str", "'uint8'"]], [["str", "'data'"], ["list", [["int", "97"], ["int", "98"], ["int", "99"]]]], [["str", "'encoding'"], ["dict", []]]]]],
 "array-from-nested-list": ["returned", ["dict", [[["str", "'__type__'"], ["str", "'array'"]], [["str", "'dtype'"], ["str", "'float64'"]], [["str", "'data'"], ["list", [["list", [["float", "1.5"], ["float", "2.0"]]], ["list", [["float", "3.0"], ["float", "4.0"]]]]]], [["str", "'encoding'"], ["dict", []]]]]],
 "array-from-none": ["returned", ["dict", [[["str", "'__type__'"], ["str", "'array'"]], [["str", "'dtype'"], ["str", "'object'"]], [["str", "'data'"], ["NoneType", "None"]], [["str", "'encoding'"], ["dict", []]]]]],
 "array-from-np-datetime-scalar": ["raised", [["IndexError", "too many indices for array: array is 0-dimensional, but 1 were indexed"]]],
 "array-from-np-timedelta-scalar": ["returned", ["dict", [[["str", "'__type__'"], ["str", "'array'"]], [["str", "'dtype'"], ["str", "'timedelta64[m]'"]], [["str", "'data'"], ["int", "5"]], [["str", "'encoding'"], ["dict", [[["str", "'units'"], ["str", "'m'"]]]]]]]],
 "array-from-opaque": ["returned", ["dict", [[["str", "'__type__'"], ["str", "'array'"]], [["str", "'dtype'"], ["str", "'object'"]], [["str", "'data'"], ["other", "Opaque", "Opaque()"]], [["str", "'encoding'"], ["dict", []]]]]],
 "array-from-ragged": ["raised", [["ValueError", "setting an array element with a sequence. The requested array has an inhomogeneous shape after 1 dimensions. The detected shape was (2,) + inhomogeneous part."]]],
 "array-from-range": ["returned", ["dict", [[["str", "'__type__'"], ["str", "'array'"]], [["str", "'dtype'"], ["str", "'int64'"]], [["str", "'data'"], ["list", [["int", "0"], ["int", "1"], ["int", "2"]]]], [["str", "'encoding'"], ["dict", []]]]]],
 "array-from-scalar": ["returned", ["dict", [[["str", "'__type__'"], ["str", "'array'"]], [["str", "'dtype'"], ["str", "'int64'"]], [["str", "'data'"], ["int", "7"]], [["str", "'encoding'"], ["dict", []]]]]],
 "array-from-str-scalar": ["returned", ["dict", [[["str", "'__type__'"], ["str", "'array'"]], [["str", "'dtype'"], ["str", "'<U3'"]], [["str", "'data'"], ["str", "'abc'"]], [["str", "'encoding'"], ["dict", []]]]]],
 "array-from-tuple": ["returned", ["dict", [[["str", "'__type__'"], ["str", "'array'"]], [["str", "'dtype'"], ["str", "'int64'"]], [["str", "'data'"], ["list", [["int", "1"], ["int", "2"]]]], [["str", "'encoding'"], ["dict", []]]]]],
 "array-int32": ["returned", ["dict", [[["str", "'__type__'"], ["str", "'array'"]], [["str", "'dtype'"], ["str", "'int32'"]], [["str", "'data'"], ["list", [["int", "0"], ["int", "1"], ["int", "2"]]]], [["str", "'encoding'"], ["dict", []]]]]],
 "array-object": ["returned", ["dict", [[["str", "'__type__'"], ["str", "'array'"]], [["str", "'dtype'"], ["str", "'object'"]], [["str", "'data'"], ["list", [["int", "1"], ["str", "'a'"], ["NoneType", "None"], ["tuple", [["int", "1"], ["int", "2"]]]]]], [["str", "'encoding'"], ["dict", []]]]]],
 "array-str": ["returned", ["dict", [[["str", "'__type__'"], ["str", "'array'"]], [["str", "'dtype'"], ["str", "'<U2'"]], [["str", "'data'"], ["list", [["str", "'a'"], ["str", "'bc'"]]]], [["str", "'encoding'"], ["dict", []]]]]],
 "array-timedelta-0d": ["returned", ["dict", [[["str", "'__type__'"], ["str", "'array'"]], [["str", "'dtype'"], ["str", "'timedelta64[h]'"]], [["str", "'data'"], ["int", "3"]], [["str", "'encoding'"], ["dict", [[["str", "'units'"], ["str", "'h'"]]]]]]]],
 "array-timedelta-10ms": ["returned", ["dict", [[["str", "'__type__'"], ["str", "'array'"]], [["str", "'dtype'"], ["str", "'timedelta64[10ms]'"]], [["str", "'data'"], ["list", [["int", "0"], ["int", "1"], ["int", "2"]]]], [["str", "'encoding'"], ["dict", [[["str", "'units'"], ["str", "'ms'"]]]]]]]],
 "array-timedelta-s": ["returned", ["dict", [[["str", "'__type__'"], ["str", "'array'"]], [["str", "'dtype'"], ["str", "'timedelta64[s]'"]], [["str", "'data'"], ["list", [["int", "0"], ["int", "1"], ["int", "2"]]]], [["str", "'encoding'"], ["dict", [[["str", "'units'"], ["str", "'s'"]]]]]]]],
 "array-uint8": ["returned", ["dict", [[["str", "'__type__'"], ["str", "'array'"]], [["str", "'dtype'"], ["str", "'uint8'"]], [["str", "'data'"], ["list", [["int", "0"], ["int", "255"]]]], [["str", "'encoding'"], ["dict", []]]]]],
 "array-void": ["returned", ["dict", [[["str", "'__type__'"], ["str", "'array'"]], [["str", "'dtype'"], ["str", "\"[('a', '<i4'), ('b', '<f8')]\""]], [["str", "'data'"], ["list", [["tuple", [["int", "1"], ["float", "2.0"]]]]]], [["str", "'encoding'"], ["dict", []]]]]],
 "backend-complex": ["returned", ["dict", [[["str", "'__type__'"], ["str", "'backend_array'"]], [["str", "'root'"], ["str", "'/a/b'"]], [["str", "'url'"], ["str", "'IMG-HH'"]], [["str", "'shape'"], ["tuple", [["int", "3"], ["int", "5"]]]], [["str", "'dtype'"], ["str", "'complex64'"]], [["str", "'byte_ranges'"], ["list", [["tuple", [["int", "5"], ["int", "10"]]], ["tuple", [["int", "15"], ["int", "20"]]], ["tuple", [["int", "25"], ["int", "30"]]]]]], [["str", "'type_code'"], ["str", "'C*8'"]]]]],
 "backend-empty": ["returned", ["dict", [[["str", "'__type__'"], ["str", "'backend_array'"]], [["str", "'root'"], ["str", "'/path/to'"]], [["str", "'url'"], ["str", "'file'"]], [["str", "'shape'"], ["tuple", [["int", "0"], ["int", "3"]]]], [["str", "'dtype'"], ["str", "'int16'"]], [["str", "'byte_ranges'"], ["list", []]], [["str", "'type_code'"], ["str", "'IU2'"]]]]],
 "backend-fs-without-path": ["raised", [["AttributeError", "'MemoryFileSystem' object has no attribute 'path'"]]],
 "backend-int16": ["returned", ["dict", [[["str", "'__type__'"], ["str", "'backend_array'"]], [["str", "'root'"], ["str", "'/path/to'"]], [["str", "'url'"], ["str", "'file'"]], [["str", "'shape'"], ["tuple", [["int", "4"], ["int", "3"]]]], [["str", "'dtype'"], ["str", "'int16'"]], [["str", "'byte_ranges'"], ["list", [["tuple", [["int", "5"], ["int", "10"]]], ["tuple", [["int", "15"], ["int", "20"]]], ["tuple", [["int", "25"], ["int", "30"]]], ["tuple", [["int", "35"], ["int", "40"]]]]]], [["str", "'type_code'"], ["str", "'IU2'"]]]]],
 "backend-np-dtype": ["returned", ["dict", [[["str", "'__type__'"], ["str", "'backend_array'"]], [["str", "'root'"], ["str", "'/'"]], [["str", "'url'"], ["str", "'x/y'"]], [["str", "'shape'"], ["tuple", [["int", "2"], ["int", "2"]]]], [["str", "'dtype'"], ["str", "'>u2'"]], [["str", "'byte_ranges'"], ["list", [["tuple", [["int", "5"], ["int", "10"]]], ["tuple", [["int", "15"], ["int", "20"]]]]]], [["str", "'type_code'"], ["str", "'IU2'"]]]]],
 "datetime-0d": ["raised", [["IndexError", "too many indices for array: array is 0-dimensional, but 1 were indexed"]]],
 "datetime-10ms": ["returned", ["tuple", [["list", [["int", "0"], ["int", "8646000"], ["int", "-6100"]]], ["dict", [[["str", "'reference'"], ["str", "'2019-01-01T00:01:00.000'"]], [["str", "'units'"], ["str", "'10ms'"]]]]]]],
 "datetime-15m": ["returned", ["tuple", [["list", [["int", "0"], ["int", "96"], ["int", "-1"]]], ["dict", [[["str", "'reference'"], ["str", "'2019-01-01T00:00'"]], [["str", "'units'"], ["str", "'15m'"]]]]]]],
 "datetime-25s": ["returned", ["tuple", [["list", [["int", "0"], ["int", "3458"], ["int", "-3"]]], ["dict", [[["str", "'reference'"], ["str", "'2019-01-01T00:00:50'"]], [["str", "'units'"], ["str", "'25s'"]]]]]]],
 "datetime-2D": ["returned", ["tuple", [["list", [["int", "0"], ["int", "1"], ["int", "0"]]], ["dict", [[["str", "'reference'"], ["str", "'2018-12-31'"]], [["str", "'units'"], ["str", "'2D'"]]]]]]],
 "datetime-2d": ["returned", ["tuple", [["list", [["list", [["int", "0"], ["int", "0"]]], ["list", [["int", "2"], ["int", "2"]]]]], ["dict", [[["str", "'reference'"], ["str", "\"['2020-01-01' '2020-01-02']\""]], [["str", "'units'"], ["str", "'D'"]]]]]]],
 "datetime-D": ["returned", ["tuple", [["list", [["int", "0"], ["int", "1"], ["int", "-1"]]], ["dict", [[["str", "'reference'"], ["str", "'2019-01-01'"]], [["str", "'units'"], ["str", "'D'"]]]]]]],
 "datetime-M": ["returned", ["tuple", [["list", [["int", "0"], ["int", "0"], ["int", "-1"]]], ["dict", [[["str", "'reference'"], ["str", "'2019-01'"]], [["str", "'units'"], ["str", "'M'"]]]]]]],
 "datetime-Y": ["returned", ["tuple", [["list", [["int", "0"], ["int", "0"], ["int", "-1"]]], ["dict", [[["str", "'reference'"], ["str", "'2019'"]], [["str", "'units'"], ["str", "'Y'"]]]]]]],
 "datetime-empty": ["raised", [["IndexError", "index 0 is out of bounds for axis 0 with size 0"]]],
 "datetime-generic": ["returned", ["tuple", [["list", [["int", "-9223372036854775808"]]], ["dict", [[["str", "'reference'"], ["str", "'NaT'"]], [["str", "'units'"], ["str", "'generic'"]]]]]]],
 "datetime-h": ["returned", ["tuple", [["list", [["int", "0"], ["int", "24"], ["int", "-1"]]], ["dict", [[["str", "'reference'"], ["str", "'2019-01-01T00'"]], [["str", "'units'"], ["str", "'h'"]]]]]]],
 "datetime-m": ["returned", ["tuple", [["list", [["int", "0"], ["int", "1441"], ["int", "-2"]]], ["dict", [[["str", "'reference'"], ["str", "'2019-01-01T00:01'"]], [["str", "'units'"], ["str", "'m'"]]]]]]],
 "datetime-ms": ["returned", ["tuple", [["list", [["int", "0"], ["int", "86460000"], ["int", "-61000"]]], ["dict", [[["str", "'reference'"], ["str", "'2019-01-01T00:01:00.000'"]], [["str", "'units'"], ["str", "'ms'"]]]]]]],
 "datetime-nat-first": ["returned", ["tuple", [["list", [["int", "-9223372036854775808"], ["int", "-9223372036854775808"]]], ["dict", [[["str", "'reference'"], ["str", "'NaT'"]], [["str", "'units'"], ["str", "'s'"]]]]]]],
 "datetime-nat-later": ["returned", ["tuple", [["list", [["int", "0"], ["int", "-9223372036854775808"]]], ["dict", [[["str", "'reference'"], ["str", "'2020-01-01T00:00:00'"]], [["str", "'units'"], ["str", "'s'"]]]]]]],
 "datetime-ns": ["returned", ["tuple", [["list", [["int", "0"], ["int", "86460000000000"], ["int", "-61000000000"]]], ["dict", [[["str", "'reference'"], ["str", "'2019-01-01T00:01:00.000000000'"]], [["str", "'units'"], ["str", "'ns'"]]]]]]],
 "datetime-on-int": ["raised", [["TypeError", "cannot get datetime metadata from non-datetime type"]]],
 "datetime-on-list": ["raised", [["AttributeError", "'list' object has no attribute 'dtype'"]]],
 "datetime-on-timedelta": ["returned", ["tuple", [["list", [["int", "0"], ["int", "2"]]], ["dict", [[["str", "'reference'"], ["str", "'20 seconds'"]], [["str", "'units'"], ["str", "'5s'"]]]]]]],
 "datetime-s": ["returned", ["tuple", [["list", [["int", "0"], ["int", "86460"], ["int", "-61"]]], ["dict", [[["str", "'reference'"], ["str", "'2019-01-01T00:01:00'"]], [["str", "'units'"], ["str", "'s'"]]]]]]],
 "datetime-single": ["returned", ["tuple", [["list", [["int", "0"]]], ["dict", [[["str", "'reference'"], ["str", "'2019-01-01T00:00:00.000000000'"]], [["str", "'units'"], ["str", "'ns'"]]]]]]],
 "datetime-us": ["returned", ["tuple", [["list", [["int", "0"], ["int", "86460000000"], ["int", "-61000000"]]], ["dict", [[["str", "'reference'"], ["str", "'2019-01-01T00:01:00.000000'"]], [["str", "'units'"], ["str", "'us'"]]]]]]],
 "key-order": ["returned", ["list", [["list", [["str", "'__type__'"], ["str", "'root'"], ["str", "'url'"], ["str", "'shape'"], ["str", "'dtype'"], ["str", "'byte_ranges'"], ["str", "'type_code'"]]], ["list", [["str", "'__type__'"], ["str", "'dtype'"], ["str", "'data'"], ["str", "'encoding'"]]], ["list", [["str", "'reference'"], ["str", "'units'"]]]]]],
 "timedelta-0d": ["returned", ["tuple", [["int", "5"], ["dict", [[["str", "'units'"], ["str", "'ms'"]]]]]]],
 "timedelta-10ms": ["returned", ["tuple", [["list", [["int", "0"], ["int", "10"], ["int", "-20"], ["int", "30"]]], ["dict", [[["str", "'units'"], ["str", "'ms'"]]]]]]],
 "timedelta-25s": ["returned", ["tuple", [["list", [["int", "0"], ["int", "10"], ["int", "-20"], ["int", "30"]]], ["dict", [[["str", "'units'"], ["str", "'s'"]]]]]]],
 "timedelta-2d": ["returned", ["tuple", [["list", [["list", [["int", "0"], ["int", "1"], ["int", "2"]]], ["list", [["int", "3"], ["int", "4"], ["int", "5"]]]]], ["dict", [[["str", "'units'"], ["str", "'us'"]]]]]]],
 "timedelta-3D": ["returned", ["tuple", [["list", [["int", "0"], ["int", "10"], ["int", "-20"], ["int", "30"]]], ["dict", [[["str", "'units'"], ["str", "'D'"]]]]]]],
 "timedelta-D": ["returned", ["tuple", [["list", [["int", "0"], ["int", "10"], ["int", "-20"], ["int", "30"]]], ["dict", [[["str", "'units'"], ["str", "'D'"]]]]]]],
 "timedelta-empty": ["returned", ["tuple", [["list", []], ["dict", [[["str", "'units'"], ["str", "'s'"]]]]]]],
 "timedelta-generic": ["returned", ["tuple", [["list", [["int", "1"], ["int", "2"]]], ["dict", [[["str", "'units'"], ["str", "'generic'"]]]]]]],
 "timedelta-h": ["returned", ["tuple", [["list", [["int", "0"], ["int", "10"], ["int", "-20"], ["int", "30"]]], ["dict", [[["str", "'units'"], ["str", "'h'"]]]]]]],
 "timedelta-m": ["returned", ["tuple", [["list", [["int", "0"], ["int", "10"], ["int", "-20"], ["int", "30"]]], ["dict", [[["str", "'units'"], ["str", "'m'"]]]]]]],
 "timedelta-ms": ["returned", ["tuple", [["list", [["int", "0"], ["int", "10"], ["int", "-20"], ["int", "30"]]], ["dict", [[["str", "'units'"], ["str", "'ms'"]]]]]]],
 "timedelta-nat": ["returned", ["tuple", [["list", [["int", "1"], ["int", "-9223372036854775808"], ["int", "3"]]], ["dict", [[["str", "'units'"], ["str", "'s'"]]]]]]],
 "timedelta-ns": ["returned", ["tuple", [["list", [["int", "0"], ["int", "10"], ["int", "-20"], ["int", "30"]]], ["dict", [[["str", "'units'"], ["str", "'ns'"]]]]]]],
 "timedelta-on-datetime": ["returned", ["tuple", [["list", [["int", "2608"]]], ["dict", [[["str", "'units'"], ["str", "'D'"]]]]]]],
 "timedelta-on-int": ["raised", [["TypeError", "cannot get datetime metadata from non-datetime type"]]],
 "timedelta-on-list": ["raised", [["AttributeError", "'list' object has no attribute 'dtype'"]]],
 "timedelta-s": ["returned", ["tuple", [["list", [["int", "0"], ["int", "10"], ["int", "-20"], ["int", "30"]]], ["dict", [[["str", "'units'"], ["str", "'s'"]]]]]]],
 "timedelta-us": ["returned", ["tuple", [["list", [["int", "0"], ["int", "10"], ["int", "-20"], ["int", "30"]]], ["dict", [[["str", "'units'"], ["str", "'us'"]]]]]]]
}
'''


def test_equivalence():
    main(cases, EXPECTED)


if __name__ == "__main__":
    main(cases, EXPECTED)
