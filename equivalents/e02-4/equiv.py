"""Equivalence check for refactoring 4 (ceos_alos2/sar_image/__init__.py).

Run as:  cd <worktree> && PYTHONPATH=<worktree> python _eq/4/equiv.py
Passes on clean HEAD and with patch.diff applied; the expected values were
recorded from the unchanged code.
"""

import copy
import hashlib
import pathlib
import struct
import tempfile
import uuid

import numpy as np
from fsspec.implementations.memory import MemoryFileSystem
from fsspec.mapping import FSMap

from ceos_alos2 import sar_image
from ceos_alos2.array import Array
from ceos_alos2.hierarchy import Group, Variable
from ceos_alos2.sar_image.caching import path as cache_path

IMAGE = "IMG-HH-ALOS2225333100-180726-WWDR1.1__D-B3"
IMAGE_NO_SCAN = "IMG-HV-ALOS2290760600-191011-WWDR1.5RUA"
RECORD_SIZE = 200
N_RECORDS = 5


def digest(obj):
    text = obj if isinstance(obj, str) else repr(obj)
    return hashlib.sha256(text.encode()).hexdigest()


def outcome(func, *args, **kwargs):
    try:
        return ("ok", func(*args, **kwargs))
    except Exception as e:  # noqa: BLE001
        return ("raised", type(e).__name__)


# ------------------------------------------------------- filename_to_groupname
FILENAMES = {
    # the two cases of the test-suite
    "IMG-HH-ALOS2225333100-180726-WWDR1.1__D-B3": "HH_scan3",
    "IMG-HV-ALOS2290760600-191011-WWDR1.5RUA": "HV",
    # all polarizations, with and without scan info, both processing methods
    "IMG-VV-ALOS2225333100-180726-WWDR1.1__D-F1": "VV_scan1",
    "IMG-VH-ALOS2225333100-180726-WWDR1.1__D-B0": "VH_scan0",
    "IMG-HH-ALOS2290760600-191011-FBDR1.5RUA": "HH",
    "IMG-HV-ALOS2290760600-191011-UBSL3.1GUD-F9": "HV_scan9",
    # no polarization (leader / volume / trailer files), with and without scan info
    "LED-ALOS2290760600-191011-WWDR1.5RUA": "",
    "VOL-ALOS2290760600-191011-WWDR1.5RUA": "",
    "TRL-ALOS2225333100-180726-WWDR1.1__D": "",
    "LED-ALOS2225333100-180726-WWDR1.1__D-B3": "scan3",
    "IMG-ALOS2225333100-180726-WWDR1.1__D-F5": "scan5",
}
INVALID_FILENAMES = {
    "": "ValueError",
    "image.bin": "ValueError",
    "IMG-HH-ALOS2225333100-180726-WWDR1.1__D-B33": "ValueError",  # two digit scan number
    "IMG-HX-ALOS2225333100-180726-WWDR1.1__D-B3": "ValueError",  # bad polarization
    "IMG-HH-ALOS2225333100-180726-XXXR1.1__D-B3": "ValueError",  # unknown observation mode
    "IMG-HH-ALOS2225333100-181326-WWDR1.1__D-B3": "ValueError",  # month 13
    "dir/IMG-HH-ALOS2225333100-180726-WWDR1.1__D-B3": "ValueError",
    "IMG-HH-ALOS2225333100-180726-WWDR1.1__D-B3\n": "ValueError",
    None: "TypeError",
    5: "TypeError",
    b"IMG-HH-ALOS2225333100-180726-WWDR1.1__D-B3": "TypeError",
}


def check_filename_to_groupname():
    for fname, expected in FILENAMES.items():
        actual = sar_image.filename_to_groupname(fname)
        assert actual == expected and type(actual) is str, (fname, actual)

    for fname, expected in INVALID_FILENAMES.items():
        actual = outcome(sar_image.filename_to_groupname, fname)
        assert actual == ("raised", expected), (fname, actual)


# ------------------------------------------------------------------ open_image
def make_descriptor(n_records, record_size):
    buf = bytearray(b" " * 720)
    buf[0:12] = struct.pack(">IBBBBI", 1, 50, 192, 18, 18, 720)
    buf[180:186] = f"{n_records:6d}".encode()
    buf[186:192] = f"{record_size:6d}".encode()
    buf[236:244] = f"{n_records:8d}".encode()
    buf[248:256] = f"{4:8d}".encode()
    buf[268:272] = b"BSQ "
    buf[400:428] = b"UNSIGNED INTEGER*2".ljust(28)
    buf[428:432] = b"IU2 "
    buf[440:448] = b"   65535"
    return bytes(buf)


def make_record(k, record_size):
    buf = bytearray((i * 31 + k * 17 + 5) % 251 for i in range(record_size))
    buf[0:12] = struct.pack(">IBBBBI", k + 2, 50, 11, 18, 20, record_size)
    buf[12:16] = struct.pack(">I", k + 1)
    buf[36:48] = struct.pack(">III", 2020, 100 + k, 1000 * k + 5)
    # constant values for the fields that are deduplicated into group attributes
    buf[16:20] = struct.pack(">I", 1)  # record index
    buf[32:36] = struct.pack(">I", 0)  # sensor parameters update flag
    buf[48:56] = struct.pack(">HHHH", 1, 0, 0, 0)  # channel id / code, polarizations
    buf[60:64] = struct.pack(">I", 3)  # scan id
    buf[128:132] = struct.pack(">I", 1)  # geographic reference parameter update flag
    return bytes(buf)


def make_image(n_records=N_RECORDS, record_size=RECORD_SIZE):
    return make_descriptor(n_records, record_size) + b"".join(
        make_record(k, record_size) for k in range(n_records)
    )


class LoggingFile:
    def __init__(self, f, path, log):
        self._f = f
        self._path = path
        self._log = log

    def __enter__(self):
        self._log.append(("enter", self._path))
        return self

    def __exit__(self, *exc_info):
        self._log.append(("exit", self._path, getattr(exc_info[0], "__name__", None)))
        return self._f.__exit__(*exc_info)

    def read(self, size=-1):
        pos = self._f.tell()
        data = self._f.read(size)
        self._log.append(("read", pos, size, len(data)))
        return data

    def __getattr__(self, name):
        def method(*args, **kwargs):
            self._log.append((name, *args))
            return getattr(self._f, name)(*args, **kwargs)

        return method


class LoggingMemoryFileSystem(MemoryFileSystem):
    """in-memory file system recording the calls made by the library"""

    cachable = False

    def __init__(self, *args, **kwargs):
        super().__init__(*args, **kwargs)
        self.log = []
        self._nested = False

    def _logged(self, entry, method, *args, **kwargs):
        # only record the calls coming from outside, not the ones the memory file
        # system makes on itself while serving them
        if self._nested:
            return method(*args, **kwargs)

        self.log.append(entry)
        self._nested = True
        try:
            return method(*args, **kwargs)
        finally:
            self._nested = False

    def open(self, path, mode="rb", **kwargs):
        f = self._logged(("open", path, mode), super().open, path, mode=mode, **kwargs)
        return LoggingFile(f, path, self.log)

    def isfile(self, path):
        return self._logged(("isfile", path), super().isfile, path)

    def cat(self, path, **kwargs):
        return self._logged(("cat", path), super().cat, path, **kwargs)


def make_mapper(files):
    root = f"/equiv4-{uuid.uuid4().hex}"
    fs = LoggingMemoryFileSystem()
    for name, content in files.items():
        fs.pipe_file(f"{root}/{name}", content)
    fs.log.clear()
    return FSMap(root, fs), root


def summarize(group):
    """plain-python summary of a group, including everything derived from the file"""
    assert type(group) is Group
    variables = {}
    for name, var in group.data.items():
        assert type(var) is Variable
        if isinstance(var.data, Array):
            arr = var.data
            data = {
                "url": arr.url,
                "byte_ranges": arr.byte_ranges,
                "shape": arr.shape,
                "dtype": arr.dtype,
                "type_code": arr.type_code,
                "records_per_chunk": arr.records_per_chunk,
                "chunk_offsets": arr.chunk_offsets,
            }
        else:
            values = np.asarray(var.data)
            if values.dtype.kind == "M":
                data = (str(values.dtype), values.astype("int64").tolist())
            else:
                data = (str(values.dtype), values.tolist())
        variables[name] = (var.dims, data, var.attrs)
    return {"path": group.path, "url": group.url, "attrs": group.attrs, "variables": variables}


def reads(root, name, sizes):
    path = f"{root}/{name}"
    log = [("open", path, "rb"), ("enter", path)]
    pos = 0
    for size in sizes:
        log.append(("read", pos, size, size))
        pos += size
    return log


def check_open_image_uncached():
    for rpc, sizes in EXPECTED_READ_SIZES.items():
        mapper, root = make_mapper({IMAGE: make_image()})
        group = sar_image.open_image(mapper, IMAGE, use_cache=False, records_per_chunk=rpc)
        assert mapper.fs.log == reads(root, IMAGE, sizes) + [("exit", f"{root}/{IMAGE}", None)], (
            rpc,
            mapper.fs.log,
        )
        actual = summarize(group)
        expected = expected_summary(rpc)
        assert actual == expected, (rpc, actual)
        assert list(actual["variables"]) == list(expected["variables"])
        assert list(actual["attrs"]) == list(expected["attrs"])
        # the lazy array reads through a file system rooted at the mapper's root
        arr = group["data"].data
        assert type(arr.fs).__name__ == "DirFileSystem"
        assert arr.fs.path == root and arr.fs.fs is mapper.fs

    # other file name: different group name, same content
    mapper, root = make_mapper({IMAGE_NO_SCAN: make_image()})
    group = sar_image.open_image(mapper, IMAGE_NO_SCAN, use_cache=False, records_per_chunk=2)
    expected = expected_summary(2)
    expected["path"] = "HV"
    expected["variables"]["data"][1]["url"] = IMAGE_NO_SCAN
    assert summarize(group) == expected


def check_open_image_errors():
    path = f"/{IMAGE}"

    # default records_per_chunk (None): fails in `read_metadata` after reading the descriptor
    mapper, root = make_mapper({IMAGE: make_image()})
    assert outcome(sar_image.open_image, mapper, IMAGE, use_cache=False) == ("raised", "TypeError")
    assert mapper.fs.log == reads(root, IMAGE, [720]) + [("exit", root + path, "TypeError")]

    # missing file
    mapper, root = make_mapper({})
    assert outcome(
        sar_image.open_image, mapper, IMAGE, use_cache=False, records_per_chunk=2
    ) == ("raised", "FileNotFoundError")
    assert mapper.fs.log == [("open", root + path, "rb")]

    # truncated file
    mapper, root = make_mapper({IMAGE: make_image()[:-150]})
    assert outcome(
        sar_image.open_image, mapper, IMAGE, use_cache=False, records_per_chunk=2
    ) == ("raised", "ValueError")
    assert mapper.fs.log == [
        ("open", root + path, "rb"),
        ("enter", root + path),
        ("read", 0, 720, 720),
        ("read", 720, 400, 400),
        ("read", 1120, 400, 400),
        ("read", 1520, 200, 50),
        ("exit", root + path, "ValueError"),
    ], mapper.fs.log

    # unknown pixel type: fails in `transform_metadata`, i.e. before the file is closed
    content = bytearray(make_image())
    content[428:432] = b"F*4 "
    mapper, root = make_mapper({IMAGE: bytes(content)})
    assert outcome(
        sar_image.open_image, mapper, IMAGE, use_cache=False, records_per_chunk=5
    ) == ("raised", "ValueError")
    assert mapper.fs.log == reads(root, IMAGE, [720, 1000]) + [
        ("exit", root + path, "ValueError")
    ]

    # name that cannot be decoded: everything is read first, the name is decoded last,
    # and no cache is created
    mapper, root = make_mapper({"image.bin": make_image()})
    assert outcome(
        sar_image.open_image,
        mapper,
        "image.bin",
        use_cache=False,
        create_cache=True,
        records_per_chunk=5,
    ) == ("raised", "ValueError")
    assert mapper.fs.log == reads(root, "image.bin", [720, 1000]) + [
        ("exit", f"{root}/image.bin", None)
    ]
    assert not list(cache_path.cache_root.rglob("image.bin.index"))


def check_open_image_caching():
    path = f"/{IMAGE}"
    expected = expected_summary(2)

    # no cache anywhere: the CachingError is swallowed and the file is read
    mapper, root = make_mapper({IMAGE: make_image()})
    local = cache_path.local_cache_location(root, IMAGE)
    assert not local.exists()
    group = sar_image.open_image(mapper, IMAGE, records_per_chunk=2)
    assert mapper.fs.log == (
        [("isfile", f"{root}/{IMAGE}.index")]
        + reads(root, IMAGE, [720, 400, 400, 200])
        + [("exit", root + path, None)]
    ), mapper.fs.log
    assert summarize(group) == expected
    assert not local.exists()  # create_cache defaults to False

    # broken remote cache: CachingError from the decoder, falls back to the file as well
    mapper, root = make_mapper({IMAGE: make_image(), f"{IMAGE}.index": b"{not json"})
    group = sar_image.open_image(mapper, IMAGE, use_cache=True, records_per_chunk=2)
    assert mapper.fs.log[:2] == [("isfile", f"{root}/{IMAGE}.index"), ("cat", f"{root}/{IMAGE}.index")]
    assert mapper.fs.log[2:] == reads(root, IMAGE, [720, 400, 400, 200]) + [
        ("exit", root + path, None)
    ], mapper.fs.log
    assert summarize(group) == expected

    # any other error while reading the cache propagates, the image is not opened
    mapper, root = make_mapper({IMAGE: make_image(), f"{IMAGE}.index": b"5"})
    assert outcome(sar_image.open_image, mapper, IMAGE, records_per_chunk=2) == (
        "raised",
        "AttributeError",
    )
    assert mapper.fs.log == [("isfile", f"{root}/{IMAGE}.index"), ("cat", f"{root}/{IMAGE}.index")]

    # use_cache=False does not even look for a cache
    mapper, root = make_mapper({IMAGE: make_image(), f"{IMAGE}.index": b"5"})
    group = sar_image.open_image(mapper, IMAGE, use_cache=False, records_per_chunk=2)
    assert mapper.fs.log == reads(root, IMAGE, [720, 400, 400, 200]) + [("exit", root + path, None)]

    # create the cache, then read it back without touching the image
    mapper, root = make_mapper({IMAGE: make_image()})
    local = cache_path.local_cache_location(root, IMAGE)
    group = sar_image.open_image(mapper, IMAGE, create_cache=True, records_per_chunk=2)
    assert summarize(group) == expected
    assert local.is_file()
    encoded = local.read_text().replace(root, "<root>")
    assert digest(encoded) == EXPECTED_CACHE_DIGEST, digest(encoded)
    assert "<root>" in encoded

    mapper.fs.log.clear()
    cached = sar_image.open_image(mapper, IMAGE, records_per_chunk=2)
    assert mapper.fs.log == []
    assert type(cached) is Group and cached.path == "HH_scan3"
    cached_summary = summarize(cached)
    assert cached_summary["attrs"] == expected["attrs"]
    assert cached_summary["variables"]["data"] == expected["variables"]["data"]
    assert list(cached_summary["variables"]) == list(expected["variables"])

    # a broken local cache: CachingError, the remote one is not consulted, file is read
    local.write_text("{")
    group = sar_image.open_image(mapper, IMAGE, records_per_chunk=2)
    assert mapper.fs.log == reads(root, IMAGE, [720, 400, 400, 200]) + [("exit", root + path, None)]
    assert summarize(group) == expected
    assert local.read_text() == "{"


EXPECTED_READ_SIZES = {
    1: [720, 200, 200, 200, 200, 200],
    2: [720, 400, 400, 200],
    5: [720, 1000],
    4096: [720, 1000],
}
EXPECTED_CACHE_DIGEST = '1d3cd6234724713a3e393cbbce32963fbafe035ff8321eb79d0554ac3988311a'
# records_per_chunk -> (normalized records_per_chunk, chunk_offsets) of the lazy array
EXPECTED_CHUNKING = {1: (1,
     {0: {'offset': 912, 'size': 8},
      1: {'offset': 1112, 'size': 8},
      2: {'offset': 1312, 'size': 8},
      3: {'offset': 1512, 'size': 8},
      4: {'offset': 1712, 'size': 8}}),
 2: (2,
     {0: {'offset': 912, 'size': 208},
      1: {'offset': 1312, 'size': 208},
      2: {'offset': 1712, 'size': 8}}),
 5: (5, {0: {'offset': 912, 'size': 808}}),
 4096: (5, {0: {'offset': 912, 'size': 808}})}
# summary of the group for records_per_chunk=2
EXPECTED_SUMMARY = {'path': 'HH_scan3',
 'url': None,
 'attrs': {'sar_image_data_record_index': 1,
           'sensor_parameters_update_flag': 0,
           'sar_channel_id': 'single_polarization',
           'sar_channel_code': 'L',
           'transmitted_pulse_polarization': 'horizontal',
           'received_pulse_polarization': 'horizontal',
           'scan_id': 3,
           'geographic_reference_parameter_update_flag': 1,
           'interleaving_id': 'BSQ',
           'valid_range': [0, 65535],
           'coordinates': ['rows',
                           'sensor_acquisition_date',
                           'prf',
                           'slant_range_to_first_pixel',
                           'slant_range_to_mid_pixel',
                           'slant_range_to_last_pixel',
                           'doppler_centroid_value_at_first_pixel',
                           'doppler_centroid_value_at_mid_pixel',
                           'doppler_centroid_value_at_last_pixel',
                           'azimuth_fm_rate_of_first_pixel',
                           'azimuth_fm_rate_of_mid_pixel',
                           'azimuth_fm_rate_of_last_pixel',
                           'look_angle_of_nadir',
                           'azimuth_squint_angle',
                           'latitude_of_first_pixel',
                           'latitude_of_center_pixel',
                           'latitude_of_last_pixel',
                           'longitude_of_first_pixel',
                           'longitude_of_center_pixel',
                           'longitude_of_last_pixel',
                           'northing_of_first_pixel',
                           'northing_of_last_pixel',
                           'easting_of_first_pixel',
                           'easting_of_last_pixel',
                           'line_heading']},
 'variables': {'rows': (['rows'], ('int64', [1, 2, 3, 4, 5]), {}),
               'sensor_acquisition_date': (['rows'],
                                           ('datetime64[ns]',
                                            [1586390400005000000,
                                             1586476801005000000,
                                             1586563202005000000,
                                             1586649603005000000,
                                             1586736004005000000]),
                                           {}),
               'prf': (['rows'],
                       ('int64', [3943640653, 18890590, 305221743, 591552896, 877884049]),
                       {'units': 'mHz'}),
               'slant_range_to_first_pixel': (['rows'],
                                              ('int64',
                                               [3893111626,
                                                4179442779,
                                                254692716,
                                                541023869,
                                                827355022]),
                                              {'units': 'm'}),
               'slant_range_to_mid_pixel': (['rows'],
                                            ('int64',
                                             [1770563526,
                                              2056894679,
                                              2343225832,
                                              2629556985,
                                              2915887887]),
                                            {'units': 'm'}),
               'slant_range_to_last_pixel': (['rows'],
                                             ('int64',
                                              [3842582599,
                                               4128913752,
                                               204163689,
                                               490494842,
                                               776825995]),
                                             {'units': 'm'}),
               'doppler_centroid_value_at_first_pixel': (['rows'],
                                                         ('float64',
                                                          [1720034.499,
                                                           2006365.652,
                                                           2292696.805,
                                                           2579027.958,
                                                           2865358.86]),
                                                         {'units': 'Hz'}),
               'doppler_centroid_value_at_mid_pixel': (['rows'],
                                                       ('float64',
                                                        [3792053.572,
                                                         4078384.725,
                                                         153634.662,
                                                         439965.815,
                                                         726296.968]),
                                                       {'units': 'Hz'}),
               'doppler_centroid_value_at_last_pixel': (['rows'],
                                                        ('float64',
                                                         [1669505.472,
                                                          1955836.625,
                                                          2242167.778,
                                                          2528498.931,
                                                          2814829.833]),
                                                        {'units': 'Hz'}),
               'azimuth_fm_rate_of_first_pixel': (['rows'],
                                                  ('int64',
                                                   [3741524545,
                                                    4027855698,
                                                    103105635,
                                                    389436788,
                                                    675767941]),
                                                  {'units': 'Hz/ms'}),
               'azimuth_fm_rate_of_mid_pixel': (['rows'],
                                                ('int64',
                                                 [1618976445,
                                                  1905307598,
                                                  2191638751,
                                                  2477969904,
                                                  2764300806]),
                                                {'units': 'Hz/ms'}),
               'azimuth_fm_rate_of_last_pixel': (['rows'],
                                                 ('int64',
                                                  [3690995518,
                                                   3977326671,
                                                   52576608,
                                                   338907761,
                                                   625238914]),
                                                 {'units': 'Hz/ms'}),
               'look_angle_of_nadir': (['rows'],
                                       ('float64',
                                        [1568.447418,
                                         1854.7785709999998,
                                         2141.109724,
                                         2427.440877,
                                         2713.7717789999997]),
                                       {'units': 'deg'}),
               'azimuth_squint_angle': (['rows'],
                                        ('float64',
                                         [3656.9160269999998,
                                          3926.7976439999998,
                                          2.047581,
                                          288.378734,
                                          574.709887]),
                                        {'units': 'deg'}),
               'latitude_of_first_pixel': (['rows'],
                                           ('float64',
                                            [1366.33131,
                                             1652.662463,
                                             1938.993616,
                                             2225.324769,
                                             2511.655922]),
                                           {'units': 'deg'}),
               'latitude_of_center_pixel': (['rows'],
                                            ('float64',
                                             [3454.799919,
                                              3724.681536,
                                              4011.0126889999997,
                                              86.262626,
                                              372.593779]),
                                            {'units': 'deg'}),
               'latitude_of_last_pixel': (['rows'],
                                          ('float64',
                                           [1315.802283,
                                            1602.1334359999998,
                                            1888.464589,
                                            2174.795742,
                                            2461.126895]),
                                          {'units': 'deg'}),
               'longitude_of_first_pixel': (['rows'],
                                            ('float64',
                                             [3404.270892,
                                              3690.6020449999996,
                                              3960.4836619999996,
                                              35.733599,
                                              322.064752]),
                                            {'units': 'deg'}),
               'longitude_of_center_pixel': (['rows'],
                                             ('float64',
                                              [1265.273256,
                                               1551.604409,
                                               1837.935562,
                                               2124.2667149999997,
                                               2410.597868]),
                                             {'units': 'deg'}),
               'longitude_of_last_pixel': (['rows'],
                                           ('float64',
                                            [3353.741865,
                                             3640.073018,
                                             3909.9546349999996,
                                             4196.285788,
                                             271.535725]),
                                           {'units': 'deg'}),
               'northing_of_first_pixel': (['rows'],
                                           ('int64',
                                            [1214744229,
                                             1501075382,
                                             1787406535,
                                             2073737688,
                                             2360068841]),
                                           {'units': 'm'}),
               'northing_of_last_pixel': (['rows'],
                                          ('int64',
                                           [1164215202,
                                            1450546355,
                                            1736877508,
                                            2023208661,
                                            2309539814]),
                                          {'units': 'm'}),
               'easting_of_first_pixel': (['rows'],
                                          ('int64',
                                           [3252683811,
                                            3539014964,
                                            3808896581,
                                            4095227734,
                                            170477671]),
                                          {'units': 'm'}),
               'easting_of_last_pixel': (['rows'],
                                         ('int64',
                                          [3202154784,
                                           3488485937,
                                           3758367554,
                                           4044698707,
                                           119948644]),
                                         {'units': 'm'}),
               'line_heading': (['rows'],
                                ('float64',
                                 [1063.157148,
                                  1349.4883009999999,
                                  1635.819454,
                                  1922.1506069999998,
                                  2208.48176]),
                                {'units': 'deg'}),
               'data': (['rows', 'columns'],
                        {'url': 'IMG-HH-ALOS2225333100-180726-WWDR1.1__D-B3',
                         'byte_ranges': [(912, 920),
                                         (1112, 1120),
                                         (1312, 1320),
                                         (1512, 1520),
                                         (1712, 1720)],
                         'shape': (5, 4),
                         'dtype': 'uint16',
                         'type_code': 'IU2',
                         'records_per_chunk': 2,
                         'chunk_offsets': {0: {'offset': 912, 'size': 208},
                                           1: {'offset': 1312, 'size': 208},
                                           2: {'offset': 1712, 'size': 8}}},
                        {})}}


def expected_summary(rpc):
    expected = copy.deepcopy(EXPECTED_SUMMARY)
    array = expected["variables"]["data"][1]
    array["records_per_chunk"], array["chunk_offsets"] = copy.deepcopy(EXPECTED_CHUNKING[rpc])
    return expected

if __name__ == "__main__":
    check_filename_to_groupname()
    with tempfile.TemporaryDirectory() as tmp:
        # keep the local cache files out of the user's cache directory
        cache_path.cache_root = pathlib.Path(tmp)
        check_open_image_uncached()
        check_open_image_errors()
        check_open_image_caching()
    print("equiv 4: OK")
