"""Equivalence check for refactoring 4 (ceos_alos2/sar_image/processed_data.py).

Run as ``python equiv.py`` or through pytest.  The expected values were recorded
from the unchanged code (HEAD) and must be reproduced with and without the patch.
"""

import hashlib
import io as stdlib_io
import struct

import construct

from ceos_alos2.sar_image import io, processed_data
from ceos_alos2.utils import to_dict

record = processed_data.processed_data_record
HEADER_SIZE = 192
MODULE_NAMES = [
    "Bytes",
    "Computed",
    "DatetimeYdms",
    "Factor",
    "Int32ub",
    "Metadata",
    "Seek",
    "StripNullBytes",
    "Struct",
    "Tell",
    "processed_data_record",
    "pulse_polarization",
    "record_preamble",
    "sar_channel_code",
    "sar_channel_id",
    "this",
]
DATE_OFFSET = 36


def outcome(func, *args, **kwargs):
    try:
        value = func(*args, **kwargs)
    except Exception as e:  # noqa: BLE001
        return f"raised {type(e).__module__}.{type(e).__qualname__}: {e}"
    return f"{type(value).__name__} {value!r}"


def describe(con, path="record"):
    """flatten a construct tree into (path, type, parameters) rows"""
    parameters = {}
    for attr in ("attrs", "factor", "length", "fmtstr", "encmapping", "flagbuildnone"):
        if attr in vars(con):
            value = vars(con)[attr]
            if attr == "encmapping":
                value = [(str(k), v) for k, v in value.items()]
            parameters[attr] = value
    for attr in ("func", "at", "count"):
        if attr in vars(con):
            parameters[attr] = str(vars(con)[attr])
    rows = [(path, type(con).__name__, repr(parameters))]
    if isinstance(con, construct.Renamed):
        rows = []
        path = f"{path}.{con.name}"
        rows.extend(describe(con.subcon, path))
    elif hasattr(con, "subcons"):
        for sub in con.subcons:
            rows.extend(describe(sub, path))
    elif hasattr(con, "subcon"):
        rows.extend(describe(con.subcon, path + "<"))
    return rows


class Lcg:
    """tiny deterministic byte source (independent of the stdlib implementation)"""

    def __init__(self, seed):
        self.state = seed & 0xFFFFFFFF

    def next(self):
        self.state = (1664525 * self.state + 1013904223) & 0xFFFFFFFF
        return self.state >> 8

    def bytes(self, n):
        return bytes(self.next() & 0xFF for _ in range(n))


def make_record(seed, record_length, *, date=(2015, 123, 4567890), small_enums=True, fill=None):
    rng = Lcg(seed)
    if fill is None:
        header = bytearray(rng.bytes(HEADER_SIZE))
    else:
        header = bytearray([fill]) * HEADER_SIZE
    header[0:4] = struct.pack(">I", seed % 100000)
    header[4:8] = bytes([50, 11, 18, 20])
    header[8:12] = struct.pack(">I", record_length)
    if date is not None:
        header[DATE_OFFSET : DATE_OFFSET + 12] = struct.pack(">III", *date)
    if small_enums:
        # channel id / channel code / tx / rx polarization: sometimes known codes
        header[48:56] = struct.pack(
            ">HHHH", (1, 2, 4, 3)[seed % 4], seed % 7, seed % 3, (seed // 3) % 3
        )
    body = rng.bytes(min(max(record_length - HEADER_SIZE, 0), 1024))
    return bytes(header) + body


def parse_one(data):
    return to_dict(record.parse(data))


def parse_many(data, n):
    return to_dict(record[n].parse(data))


def digest(obj):
    return hashlib.sha256(repr(obj).encode()).hexdigest()


def observe():
    observed = []

    # structure of the record definition
    rows = describe(record)
    observed.append(("structure", rows))
    observed.append(("field names", [sub.name for sub in record.subcons]))
    observed.append(("sizeof", outcome(record.sizeof)))
    # names other modules may import from here (imports of the module itself excluded:
    # a new import statement is not a behaviour change)
    observed.append(("module names", [n for n in MODULE_NAMES if hasattr(processed_data, n)]))
    observed.append(("__all__", getattr(processed_data, "__all__", None)))

    # a few fully spelled out records
    observed.append(("zeros", outcome(parse_one, make_record(1, 192, date=(1, 1, 0), fill=0))))
    ones = make_record(2, 400, date=(9999, 365, 1), fill=255)
    observed.append(("ones", outcome(parse_one, ones)))
    observed.append(("random-1", outcome(parse_one, make_record(3, 1000))))
    observed.append(("random-2", outcome(parse_one, make_record(4, 200, small_enums=False))))

    # record length variants: shorter than the header, zero, larger than the buffer
    for record_length in [0, 1, 12, 191, 192, 193, 500, 10**6, 2**32 - 1]:
        data = make_record(10 + record_length % 97, record_length)[:700]
        result = outcome(lambda: parse_one(data)["data"])
        observed.append(("record_length", record_length, len(data), result))

    # invalid dates: the error has to come from the date field
    for date in [(0, 1, 0), (10000, 1, 0), (2015, 2**32 - 1, 0), (0, 2**32 - 1, 5), None]:
        data = make_record(77, 300, date=date)
        result = outcome(lambda: parse_one(data)["sensor_acquisition_date"])
        observed.append(("bad date", date, result))

    # truncated input: the path of the failing field is part of the message
    data = make_record(5, 256)
    for size in list(range(0, 200, 1)):
        observed.append(("truncated", size, outcome(parse_one, data[:size])))

    # parsing from a stream which does not start at the record
    for offset in [0, 1, 720, 12345]:
        stream = stdlib_io.BytesIO(bytes(offset) + make_record(6, 300) + b"tail")
        stream.seek(offset)

        def parse():
            result = record.parse_stream(stream)
            return (result.record_start, to_dict(result.data), stream.tell())

        observed.append(("stream offset", offset, outcome(parse)))

    # several records in a row, each with its own length
    lengths = [192, 200, 256, 1000, 192, 333]
    data = b"".join(make_record(20 + i, n) for i, n in enumerate(lengths))
    for n in range(0, 8):
        observed.append(
            (
                "array",
                n,
                outcome(
                    lambda: [
                        (r["record_start"], r["sar_image_data_line_number"], r["data"])
                        for r in parse_many(data, n)
                    ]
                ),
            )
        )

    # through the chunk parser (record type 11 selects this record)
    chunk = b"".join(make_record(40 + i, 300) for i in range(5))
    for element_size in [300, 150, 100, 299, 1500]:
        observed.append(
            (
                "parse_chunk",
                element_size,
                outcome(lambda: digest(to_dict(io.parse_chunk(chunk, element_size)))),
            )
        )

    # bulk: digest of many pseudo random records
    bulk = []
    for seed in range(100, 400):
        date = (1990 + seed % 60, 1 + seed % 366, seed * 977)
        data = make_record(seed, 192 + seed % 50, date=date)
        bulk.append(outcome(parse_one, data))
    observed.append(("bulk first", bulk[0]))
    observed.append(("bulk digest", digest(bulk)))

    # every Metadata field hands out its own attrs dict, stable between parses
    first = record.parse(make_record(7, 192))
    second = record.parse(make_record(8, 192))
    names = [k for k, v in first.items() if isinstance(v, tuple)]
    observed.append(("metadata fields", names))
    observed.append(("distinct attrs", len({id(first[k][1]) for k in names})))
    observed.append(("stable attrs", all(first[k][1] is second[k][1] for k in names)))
    observed.append(("attrs", [first[k][1] for k in names]))
    observed.append(("value types", [type(first[k][0]).__name__ for k in names]))

    # building is not supported
    observed.append(("build", outcome(record.build, dict(first))))
    observed.append(("construct", construct.__version__))

    return observed


EXPECTED = [('structure',
  [('record', 'Struct', "{'flagbuildnone': False}"),
   ('record.record_start', 'Tell', "{'flagbuildnone': True}"),
   ('record.preamble', 'Struct', "{'flagbuildnone': False}"),
   ('record.preamble.record_sequence_number',
    'FormatField',
    "{'length': 4, 'fmtstr': '>L', 'flagbuildnone': False}"),
   ('record.preamble.first_record_subtype',
    'FormatField',
    "{'length': 1, 'fmtstr': '>B', 'flagbuildnone': False}"),
   ('record.preamble.record_type',
    'FormatField',
    "{'length': 1, 'fmtstr': '>B', 'flagbuildnone': False}"),
   ('record.preamble.second_record_subtype',
    'FormatField',
    "{'length': 1, 'fmtstr': '>B', 'flagbuildnone': False}"),
   ('record.preamble.third_record_subtype',
    'FormatField',
    "{'length': 1, 'fmtstr': '>B', 'flagbuildnone': False}"),
   ('record.preamble.record_length',
    'FormatField',
    "{'length': 4, 'fmtstr': '>L', 'flagbuildnone': False}"),
   ('record.sar_image_data_line_number',
    'FormatField',
    "{'length': 4, 'fmtstr': '>L', 'flagbuildnone': False}"),
   ('record.sar_image_data_record_index',
    'FormatField',
    "{'length': 4, 'fmtstr': '>L', 'flagbuildnone': False}"),
   ('record.actual_count_of_left_fill_pixels',
    'FormatField',
    "{'length': 4, 'fmtstr': '>L', 'flagbuildnone': False}"),
   ('record.actual_count_of_data_pixels',
    'FormatField',
    "{'length': 4, 'fmtstr': '>L', 'flagbuildnone': False}"),
   ('record.actual_count_of_right_fill_pixels',
    'FormatField',
    "{'length': 4, 'fmtstr': '>L', 'flagbuildnone': False}"),
   ('record.sensor_parameters_update_flag',
    'FormatField',
    "{'length': 4, 'fmtstr': '>L', 'flagbuildnone': False}"),
   ('record.sensor_acquisition_date', 'DatetimeYdms', "{'flagbuildnone': False}"),
   ('record.sensor_acquisition_date<', 'Struct', "{'flagbuildnone': False}"),
   ('record.sensor_acquisition_date<.year',
    'FormatField',
    "{'length': 4, 'fmtstr': '>L', 'flagbuildnone': False}"),
   ('record.sensor_acquisition_date<.day_of_year',
    'FormatField',
    "{'length': 4, 'fmtstr': '>L', 'flagbuildnone': False}"),
   ('record.sensor_acquisition_date<.milliseconds',
    'FormatField',
    "{'length': 4, 'fmtstr': '>L', 'flagbuildnone': False}"),
   ('record.sar_channel_id',
    'Enum',
    "{'encmapping': [('single_polarization', 1), ('dual_polarization', 2), ('full_polarization', "
    "4)], 'flagbuildnone': False}"),
   ('record.sar_channel_id<',
    'FormatField',
    "{'length': 2, 'fmtstr': '>H', 'flagbuildnone': False}"),
   ('record.sar_channel_code',
    'Enum',
    "{'encmapping': [('L', 0), ('S', 1), ('C', 2), ('X', 3), ('KU', 4), ('KA', 5)], "
    "'flagbuildnone': False}"),
   ('record.sar_channel_code<',
    'FormatField',
    "{'length': 2, 'fmtstr': '>H', 'flagbuildnone': False}"),
   ('record.transmitted_pulse_polarization',
    'Enum',
    "{'encmapping': [('horizontal', 0), ('vertical', 1)], 'flagbuildnone': False}"),
   ('record.transmitted_pulse_polarization<',
    'FormatField',
    "{'length': 2, 'fmtstr': '>H', 'flagbuildnone': False}"),
   ('record.received_pulse_polarization',
    'Enum',
    "{'encmapping': [('horizontal', 0), ('vertical', 1)], 'flagbuildnone': False}"),
   ('record.received_pulse_polarization<',
    'FormatField',
    "{'length': 2, 'fmtstr': '>H', 'flagbuildnone': False}"),
   ('record.prf', 'Metadata', "{'attrs': {'units': 'mHz'}, 'flagbuildnone': False}"),
   ('record.prf<', 'FormatField', "{'length': 4, 'fmtstr': '>L', 'flagbuildnone': False}"),
   ('record.scan_id', 'FormatField', "{'length': 4, 'fmtstr': '>L', 'flagbuildnone': False}"),
   ('record.slant_range_to_first_pixel',
    'Metadata',
    "{'attrs': {'units': 'm'}, 'flagbuildnone': False}"),
   ('record.slant_range_to_first_pixel<',
    'FormatField',
    "{'length': 4, 'fmtstr': '>L', 'flagbuildnone': False}"),
   ('record.slant_range_to_mid_pixel',
    'Metadata',
    "{'attrs': {'units': 'm'}, 'flagbuildnone': False}"),
   ('record.slant_range_to_mid_pixel<',
    'FormatField',
    "{'length': 4, 'fmtstr': '>L', 'flagbuildnone': False}"),
   ('record.slant_range_to_last_pixel',
    'Metadata',
    "{'attrs': {'units': 'm'}, 'flagbuildnone': False}"),
   ('record.slant_range_to_last_pixel<',
    'FormatField',
    "{'length': 4, 'fmtstr': '>L', 'flagbuildnone': False}"),
   ('record.doppler_centroid_value_at_first_pixel',
    'Metadata',
    "{'attrs': {'units': 'Hz'}, 'flagbuildnone': False}"),
   ('record.doppler_centroid_value_at_first_pixel<',
    'Factor',
    "{'factor': 0.001, 'flagbuildnone': False}"),
   ('record.doppler_centroid_value_at_first_pixel<<',
    'FormatField',
    "{'length': 4, 'fmtstr': '>L', 'flagbuildnone': False}"),
   ('record.doppler_centroid_value_at_mid_pixel',
    'Metadata',
    "{'attrs': {'units': 'Hz'}, 'flagbuildnone': False}"),
   ('record.doppler_centroid_value_at_mid_pixel<',
    'Factor',
    "{'factor': 0.001, 'flagbuildnone': False}"),
   ('record.doppler_centroid_value_at_mid_pixel<<',
    'FormatField',
    "{'length': 4, 'fmtstr': '>L', 'flagbuildnone': False}"),
   ('record.doppler_centroid_value_at_last_pixel',
    'Metadata',
    "{'attrs': {'units': 'Hz'}, 'flagbuildnone': False}"),
   ('record.doppler_centroid_value_at_last_pixel<',
    'Factor',
    "{'factor': 0.001, 'flagbuildnone': False}"),
   ('record.doppler_centroid_value_at_last_pixel<<',
    'FormatField',
    "{'length': 4, 'fmtstr': '>L', 'flagbuildnone': False}"),
   ('record.azimuth_fm_rate_of_first_pixel',
    'Metadata',
    "{'attrs': {'units': 'Hz/ms'}, 'flagbuildnone': False}"),
   ('record.azimuth_fm_rate_of_first_pixel<',
    'FormatField',
    "{'length': 4, 'fmtstr': '>L', 'flagbuildnone': False}"),
   ('record.azimuth_fm_rate_of_mid_pixel',
    'Metadata',
    "{'attrs': {'units': 'Hz/ms'}, 'flagbuildnone': False}"),
   ('record.azimuth_fm_rate_of_mid_pixel<',
    'FormatField',
    "{'length': 4, 'fmtstr': '>L', 'flagbuildnone': False}"),
   ('record.azimuth_fm_rate_of_last_pixel',
    'Metadata',
    "{'attrs': {'units': 'Hz/ms'}, 'flagbuildnone': False}"),
   ('record.azimuth_fm_rate_of_last_pixel<',
    'FormatField',
    "{'length': 4, 'fmtstr': '>L', 'flagbuildnone': False}"),
   ('record.look_angle_of_nadir',
    'Metadata',
    "{'attrs': {'units': 'deg'}, 'flagbuildnone': False}"),
   ('record.look_angle_of_nadir<', 'Factor', "{'factor': 1e-06, 'flagbuildnone': False}"),
   ('record.look_angle_of_nadir<<',
    'FormatField',
    "{'length': 4, 'fmtstr': '>L', 'flagbuildnone': False}"),
   ('record.azimuth_squint_angle',
    'Metadata',
    "{'attrs': {'units': 'deg'}, 'flagbuildnone': False}"),
   ('record.azimuth_squint_angle<', 'Factor', "{'factor': 1e-06, 'flagbuildnone': False}"),
   ('record.azimuth_squint_angle<<',
    'FormatField',
    "{'length': 4, 'fmtstr': '>L', 'flagbuildnone': False}"),
   ('record.blanks1', 'StripNullBytes', "{'flagbuildnone': False}"),
   ('record.blanks1<', 'Bytes', "{'length': 20, 'flagbuildnone': False}"),
   ('record.geographic_reference_parameter_update_flag',
    'FormatField',
    "{'length': 4, 'fmtstr': '>L', 'flagbuildnone': False}"),
   ('record.latitude_of_first_pixel',
    'Metadata',
    "{'attrs': {'units': 'deg'}, 'flagbuildnone': False}"),
   ('record.latitude_of_first_pixel<', 'Factor', "{'factor': 1e-06, 'flagbuildnone': False}"),
   ('record.latitude_of_first_pixel<<',
    'FormatField',
    "{'length': 4, 'fmtstr': '>L', 'flagbuildnone': False}"),
   ('record.latitude_of_center_pixel',
    'Metadata',
    "{'attrs': {'units': 'deg'}, 'flagbuildnone': False}"),
   ('record.latitude_of_center_pixel<', 'Factor', "{'factor': 1e-06, 'flagbuildnone': False}"),
   ('record.latitude_of_center_pixel<<',
    'FormatField',
    "{'length': 4, 'fmtstr': '>L', 'flagbuildnone': False}"),
   ('record.latitude_of_last_pixel',
    'Metadata',
    "{'attrs': {'units': 'deg'}, 'flagbuildnone': False}"),
   ('record.latitude_of_last_pixel<', 'Factor', "{'factor': 1e-06, 'flagbuildnone': False}"),
   ('record.latitude_of_last_pixel<<',
    'FormatField',
    "{'length': 4, 'fmtstr': '>L', 'flagbuildnone': False}"),
   ('record.longitude_of_first_pixel',
    'Metadata',
    "{'attrs': {'units': 'deg'}, 'flagbuildnone': False}"),
   ('record.longitude_of_first_pixel<', 'Factor', "{'factor': 1e-06, 'flagbuildnone': False}"),
   ('record.longitude_of_first_pixel<<',
    'FormatField',
    "{'length': 4, 'fmtstr': '>L', 'flagbuildnone': False}"),
   ('record.longitude_of_center_pixel',
    'Metadata',
    "{'attrs': {'units': 'deg'}, 'flagbuildnone': False}"),
   ('record.longitude_of_center_pixel<', 'Factor', "{'factor': 1e-06, 'flagbuildnone': False}"),
   ('record.longitude_of_center_pixel<<',
    'FormatField',
    "{'length': 4, 'fmtstr': '>L', 'flagbuildnone': False}"),
   ('record.longitude_of_last_pixel',
    'Metadata',
    "{'attrs': {'units': 'deg'}, 'flagbuildnone': False}"),
   ('record.longitude_of_last_pixel<', 'Factor', "{'factor': 1e-06, 'flagbuildnone': False}"),
   ('record.longitude_of_last_pixel<<',
    'FormatField',
    "{'length': 4, 'fmtstr': '>L', 'flagbuildnone': False}"),
   ('record.northing_of_first_pixel',
    'Metadata',
    "{'attrs': {'units': 'm'}, 'flagbuildnone': False}"),
   ('record.northing_of_first_pixel<',
    'FormatField',
    "{'length': 4, 'fmtstr': '>L', 'flagbuildnone': False}"),
   ('record.blanks2', 'StripNullBytes', "{'flagbuildnone': False}"),
   ('record.blanks2<', 'Bytes', "{'length': 4, 'flagbuildnone': False}"),
   ('record.northing_of_last_pixel',
    'Metadata',
    "{'attrs': {'units': 'm'}, 'flagbuildnone': False}"),
   ('record.northing_of_last_pixel<',
    'FormatField',
    "{'length': 4, 'fmtstr': '>L', 'flagbuildnone': False}"),
   ('record.easting_of_first_pixel',
    'Metadata',
    "{'attrs': {'units': 'm'}, 'flagbuildnone': False}"),
   ('record.easting_of_first_pixel<',
    'FormatField',
    "{'length': 4, 'fmtstr': '>L', 'flagbuildnone': False}"),
   ('record.blanks3', 'StripNullBytes', "{'flagbuildnone': False}"),
   ('record.blanks3<', 'Bytes', "{'length': 4, 'flagbuildnone': False}"),
   ('record.easting_of_last_pixel',
    'Metadata',
    "{'attrs': {'units': 'm'}, 'flagbuildnone': False}"),
   ('record.easting_of_last_pixel<',
    'FormatField',
    "{'length': 4, 'fmtstr': '>L', 'flagbuildnone': False}"),
   ('record.line_heading', 'Metadata', "{'attrs': {'units': 'deg'}, 'flagbuildnone': False}"),
   ('record.line_heading<', 'Factor', "{'factor': 1e-06, 'flagbuildnone': False}"),
   ('record.line_heading<<',
    'FormatField',
    "{'length': 4, 'fmtstr': '>L', 'flagbuildnone': False}"),
   ('record.blanks4', 'StripNullBytes', "{'flagbuildnone': False}"),
   ('record.blanks4<', 'Bytes', "{'length': 8, 'flagbuildnone': False}"),
   ('record.data', 'Struct', "{'flagbuildnone': True}"),
   ('record.data.start', 'Tell', "{'flagbuildnone': True}"),
   ('record.data.size',
    'Computed',
    '{\'flagbuildnone\': True, \'func\': "(this[\'_\'][\'preamble\'][\'record_length\'] - '
    '(this[\'start\'] - this[\'_\'][\'record_start\']))"}'),
   ('record.data.stop',
    'Seek',
    '{\'flagbuildnone\': True, \'at\': "(this[\'_\'][\'record_start\'] + '
    'this[\'_\'][\'preamble\'][\'record_length\'])"}')]),
 ('field names',
  ['record_start',
   'preamble',
   'sar_image_data_line_number',
   'sar_image_data_record_index',
   'actual_count_of_left_fill_pixels',
   'actual_count_of_data_pixels',
   'actual_count_of_right_fill_pixels',
   'sensor_parameters_update_flag',
   'sensor_acquisition_date',
   'sar_channel_id',
   'sar_channel_code',
   'transmitted_pulse_polarization',
   'received_pulse_polarization',
   'prf',
   'scan_id',
   'slant_range_to_first_pixel',
   'slant_range_to_mid_pixel',
   'slant_range_to_last_pixel',
   'doppler_centroid_value_at_first_pixel',
   'doppler_centroid_value_at_mid_pixel',
   'doppler_centroid_value_at_last_pixel',
   'azimuth_fm_rate_of_first_pixel',
   'azimuth_fm_rate_of_mid_pixel',
   'azimuth_fm_rate_of_last_pixel',
   'look_angle_of_nadir',
   'azimuth_squint_angle',
   'blanks1',
   'geographic_reference_parameter_update_flag',
   'latitude_of_first_pixel',
   'latitude_of_center_pixel',
   'latitude_of_last_pixel',
   'longitude_of_first_pixel',
   'longitude_of_center_pixel',
   'longitude_of_last_pixel',
   'northing_of_first_pixel',
   'blanks2',
   'northing_of_last_pixel',
   'easting_of_first_pixel',
   'blanks3',
   'easting_of_last_pixel',
   'line_heading',
   'blanks4',
   'data']),
 ('sizeof',
  'raised construct.core.SizeofError: Error in path (sizeof) -> data -> stop\n'
  'Seek only moves the stream, size is not meaningful'),
 ('module names',
  ['Bytes',
   'Computed',
   'DatetimeYdms',
   'Factor',
   'Int32ub',
   'Metadata',
   'Seek',
   'StripNullBytes',
   'Struct',
   'Tell',
   'processed_data_record',
   'pulse_polarization',
   'record_preamble',
   'sar_channel_code',
   'sar_channel_id',
   'this']),
 ('__all__', None),
 ('zeros',
  "dict {'record_start': 0, 'preamble': {'record_sequence_number': 1, 'first_record_subtype': 50, "
  "'record_type': 11, 'second_record_subtype': 18, 'third_record_subtype': 20, 'record_length': "
  "192}, 'sar_image_data_line_number': 0, 'sar_image_data_record_index': 0, "
  "'actual_count_of_left_fill_pixels': 0, 'actual_count_of_data_pixels': 0, "
  "'actual_count_of_right_fill_pixels': 0, 'sensor_parameters_update_flag': 0, "
  "'sensor_acquisition_date': datetime.datetime(1, 1, 1, 0, 0), 'sar_channel_id': "
  "'dual_polarization', 'sar_channel_code': 'S', 'transmitted_pulse_polarization': 'vertical', "
  "'received_pulse_polarization': 'horizontal', 'prf': (0, {'units': 'mHz'}), 'scan_id': 0, "
  "'slant_range_to_first_pixel': (0, {'units': 'm'}), 'slant_range_to_mid_pixel': (0, {'units': "
  "'m'}), 'slant_range_to_last_pixel': (0, {'units': 'm'}), "
  "'doppler_centroid_value_at_first_pixel': (0.0, {'units': 'Hz'}), "
  "'doppler_centroid_value_at_mid_pixel': (0.0, {'units': 'Hz'}), "
  "'doppler_centroid_value_at_last_pixel': (0.0, {'units': 'Hz'}), "
  "'azimuth_fm_rate_of_first_pixel': (0, {'units': 'Hz/ms'}), 'azimuth_fm_rate_of_mid_pixel': (0, "
  "{'units': 'Hz/ms'}), 'azimuth_fm_rate_of_last_pixel': (0, {'units': 'Hz/ms'}), "
  "'look_angle_of_nadir': (0.0, {'units': 'deg'}), 'azimuth_squint_angle': (0.0, {'units': "
  "'deg'}), 'blanks1': b'', 'geographic_reference_parameter_update_flag': 0, "
  "'latitude_of_first_pixel': (0.0, {'units': 'deg'}), 'latitude_of_center_pixel': (0.0, {'units': "
  "'deg'}), 'latitude_of_last_pixel': (0.0, {'units': 'deg'}), 'longitude_of_first_pixel': (0.0, "
  "{'units': 'deg'}), 'longitude_of_center_pixel': (0.0, {'units': 'deg'}), "
  "'longitude_of_last_pixel': (0.0, {'units': 'deg'}), 'northing_of_first_pixel': (0, {'units': "
  "'m'}), 'blanks2': b'', 'northing_of_last_pixel': (0, {'units': 'm'}), 'easting_of_first_pixel': "
  "(0, {'units': 'm'}), 'blanks3': b'', 'easting_of_last_pixel': (0, {'units': 'm'}), "
  "'line_heading': (0.0, {'units': 'deg'}), 'blanks4': b'', 'data': {'start': 192, 'size': 0, "
  "'stop': 192}}"),
 ('ones',
  "dict {'record_start': 0, 'preamble': {'record_sequence_number': 2, 'first_record_subtype': 50, "
  "'record_type': 11, 'second_record_subtype': 18, 'third_record_subtype': 20, 'record_length': "
  "400}, 'sar_image_data_line_number': 4294967295, 'sar_image_data_record_index': 4294967295, "
  "'actual_count_of_left_fill_pixels': 4294967295, 'actual_count_of_data_pixels': 4294967295, "
  "'actual_count_of_right_fill_pixels': 4294967295, 'sensor_parameters_update_flag': 4294967295, "
  "'sensor_acquisition_date': datetime.datetime(9999, 12, 31, 0, 0, 0, 1000), 'sar_channel_id': "
  "'full_polarization', 'sar_channel_code': 'C', 'transmitted_pulse_polarization': 2, "
  "'received_pulse_polarization': 'horizontal', 'prf': (4294967295, {'units': 'mHz'}), 'scan_id': "
  "4294967295, 'slant_range_to_first_pixel': (4294967295, {'units': 'm'}), "
  "'slant_range_to_mid_pixel': (4294967295, {'units': 'm'}), 'slant_range_to_last_pixel': "
  "(4294967295, {'units': 'm'}), 'doppler_centroid_value_at_first_pixel': (4294967.295, {'units': "
  "'Hz'}), 'doppler_centroid_value_at_mid_pixel': (4294967.295, {'units': 'Hz'}), "
  "'doppler_centroid_value_at_last_pixel': (4294967.295, {'units': 'Hz'}), "
  "'azimuth_fm_rate_of_first_pixel': (4294967295, {'units': 'Hz/ms'}), "
  "'azimuth_fm_rate_of_mid_pixel': (4294967295, {'units': 'Hz/ms'}), "
  "'azimuth_fm_rate_of_last_pixel': (4294967295, {'units': 'Hz/ms'}), 'look_angle_of_nadir': "
  "(4294.9672949999995, {'units': 'deg'}), 'azimuth_squint_angle': (4294.9672949999995, {'units': "
  "'deg'}), 'blanks1': "
  "b'\\xff\\xff\\xff\\xff\\xff\\xff\\xff\\xff\\xff\\xff\\xff\\xff\\xff\\xff\\xff\\xff\\xff\\xff\\xff\\xff', "
  "'geographic_reference_parameter_update_flag': 4294967295, 'latitude_of_first_pixel': "
  "(4294.9672949999995, {'units': 'deg'}), 'latitude_of_center_pixel': (4294.9672949999995, "
  "{'units': 'deg'}), 'latitude_of_last_pixel': (4294.9672949999995, {'units': 'deg'}), "
  "'longitude_of_first_pixel': (4294.9672949999995, {'units': 'deg'}), "
  "'longitude_of_center_pixel': (4294.9672949999995, {'units': 'deg'}), 'longitude_of_last_pixel': "
  "(4294.9672949999995, {'units': 'deg'}), 'northing_of_first_pixel': (4294967295, {'units': "
  "'m'}), 'blanks2': b'\\xff\\xff\\xff\\xff', 'northing_of_last_pixel': (4294967295, {'units': "
  "'m'}), 'easting_of_first_pixel': (4294967295, {'units': 'm'}), 'blanks3': "
  "b'\\xff\\xff\\xff\\xff', 'easting_of_last_pixel': (4294967295, {'units': 'm'}), 'line_heading': "
  "(4294.9672949999995, {'units': 'deg'}), 'blanks4': b'\\xff\\xff\\xff\\xff\\xff\\xff\\xff\\xff', "
  "'data': {'start': 192, 'size': 208, 'stop': 400}}"),
 ('random-1',
  "dict {'record_start': 0, 'preamble': {'record_sequence_number': 3, 'first_record_subtype': 50, "
  "'record_type': 11, 'second_record_subtype': 18, 'third_record_subtype': 20, 'record_length': "
  "1000}, 'sar_image_data_line_number': 2716609473, 'sar_image_data_record_index': 1399985363, "
  "'actual_count_of_left_fill_pixels': 551287619, 'actual_count_of_data_pixels': 489296818, "
  "'actual_count_of_right_fill_pixels': 2644758534, 'sensor_parameters_update_flag': 902489954, "
  "'sensor_acquisition_date': datetime.datetime(2015, 5, 3, 1, 16, 7, 890000), 'sar_channel_id': "
  "3, 'sar_channel_code': 'X', 'transmitted_pulse_polarization': 'horizontal', "
  "'received_pulse_polarization': 'vertical', 'prf': (2304876694, {'units': 'mHz'}), 'scan_id': "
  "4089239324, 'slant_range_to_first_pixel': (350554058, {'units': 'm'}), "
  "'slant_range_to_mid_pixel': (3248497924, {'units': 'm'}), 'slant_range_to_last_pixel': "
  "(233989230, {'units': 'm'}), 'doppler_centroid_value_at_first_pixel': (1277049.0690000001, "
  "{'units': 'Hz'}), 'doppler_centroid_value_at_mid_pixel': (313022.116, {'units': 'Hz'}), "
  "'doppler_centroid_value_at_last_pixel': (878031.095, {'units': 'Hz'}), "
  "'azimuth_fm_rate_of_first_pixel': (3290987658, {'units': 'Hz/ms'}), "
  "'azimuth_fm_rate_of_mid_pixel': (426061378, {'units': 'Hz/ms'}), "
  "'azimuth_fm_rate_of_last_pixel': (3297802306, {'units': 'Hz/ms'}), 'look_angle_of_nadir': "
  "(2590.9209419999997, {'units': 'deg'}), 'azimuth_squint_angle': (2952.915434, {'units': "
  "'deg'}), 'blanks1': "
  "b'Y\\x8f\\xb7\\x1b*\\x9cn\\xa4\\xf5\\xea\\x03\\xe9\\xd0\\x7f\\xa9\\x8e\\x0e\\x9e\\xd4x', "
  "'geographic_reference_parameter_update_flag': 1154169290, 'latitude_of_first_pixel': "
  "(1154.20644, {'units': 'deg'}), 'latitude_of_center_pixel': (614.514038, {'units': 'deg'}), "
  "'latitude_of_last_pixel': (932.218457, {'units': 'deg'}), 'longitude_of_first_pixel': "
  "(287.299508, {'units': 'deg'}), 'longitude_of_center_pixel': (2265.949931, {'units': 'deg'}), "
  "'longitude_of_last_pixel': (2892.375714, {'units': 'deg'}), 'northing_of_first_pixel': "
  "(3563572158, {'units': 'm'}), 'blanks2': b'\\x93\\x96Ib', 'northing_of_last_pixel': "
  "(3199768050, {'units': 'm'}), 'easting_of_first_pixel': (1758519827, {'units': 'm'}), "
  '\'blanks3\': b\'\\xe5"\\xa4\\xa7\', \'easting_of_last_pixel\': (3375534292, {\'units\': '
  "'m'}), 'line_heading': (3921.975549, {'units': 'deg'}), 'blanks4': "
  "b'W\\xdd\\xf2\\xc7i\\xc0\\x11\\x14', 'data': {'start': 192, 'size': 808, 'stop': 1000}}"),
 ('random-2',
  "dict {'record_start': 0, 'preamble': {'record_sequence_number': 4, 'first_record_subtype': 50, "
  "'record_type': 11, 'second_record_subtype': 18, 'third_record_subtype': 20, 'record_length': "
  "200}, 'sar_image_data_line_number': 876530117, 'sar_image_data_record_index': 1889343715, "
  "'actual_count_of_left_fill_pixels': 879254223, 'actual_count_of_data_pixels': 3836908220, "
  "'actual_count_of_right_fill_pixels': 634323998, 'sensor_parameters_update_flag': 3646108842, "
  "'sensor_acquisition_date': datetime.datetime(2015, 5, 3, 1, 16, 7, 890000), 'sar_channel_id': "
  "50877, 'sar_channel_code': 29508, 'transmitted_pulse_polarization': 56497, "
  "'received_pulse_polarization': 55274, 'prf': (4274344241, {'units': 'mHz'}), 'scan_id': "
  "3511428493, 'slant_range_to_first_pixel': (937154482, {'units': 'm'}), "
  "'slant_range_to_mid_pixel': (1447308437, {'units': 'm'}), 'slant_range_to_last_pixel': "
  "(2442995305, {'units': 'm'}), 'doppler_centroid_value_at_first_pixel': (2369325.986, {'units': "
  "'Hz'}), 'doppler_centroid_value_at_mid_pixel': (749494.261, {'units': 'Hz'}), "
  "'doppler_centroid_value_at_last_pixel': (2496390.228, {'units': 'Hz'}), "
  "'azimuth_fm_rate_of_first_pixel': (682205429, {'units': 'Hz/ms'}), "
  "'azimuth_fm_rate_of_mid_pixel': (2375734859, {'units': 'Hz/ms'}), "
  "'azimuth_fm_rate_of_last_pixel': (2771520011, {'units': 'Hz/ms'}), 'look_angle_of_nadir': "
  "(2521.170216, {'units': 'deg'}), 'azimuth_squint_angle': (3286.875606, {'units': 'deg'}), "
  "'blanks1': b'\\xd1o\\x84\\x89\\xa3l\\xda\\xf5\\\\\\xb5\\x81\\x0fc\\\\\\x7f\\nY\\xb8\\x17Z', "
  "'geographic_reference_parameter_update_flag': 609930675, 'latitude_of_first_pixel': "
  "(3860.29313, {'units': 'deg'}), 'latitude_of_center_pixel': (100.98420999999999, {'units': "
  "'deg'}), 'latitude_of_last_pixel': (628.395711, {'units': 'deg'}), 'longitude_of_first_pixel': "
  "(704.439622, {'units': 'deg'}), 'longitude_of_center_pixel': (896.445977, {'units': 'deg'}), "
  "'longitude_of_last_pixel': (2917.19947, {'units': 'deg'}), 'northing_of_first_pixel': "
  "(900065465, {'units': 'm'}), 'blanks2': b'\\xb2Q \\xac', 'northing_of_last_pixel': (1203329853, "
  "{'units': 'm'}), 'easting_of_first_pixel': (1492163743, {'units': 'm'}), 'blanks3': "
  'b"\\x89J\'F", \'easting_of_last_pixel\': (3210445030, {\'units\': \'m\'}), \'line_heading\': '
  "(502.81969999999995, {'units': 'deg'}), 'blanks4': b'\\x074\\xed#!cIg', 'data': {'start': 192, "
  "'size': 8, 'stop': 200}}"),
 ('record_length', 0, 192, "dict {'start': 192, 'size': -192, 'stop': 0}"),
 ('record_length', 1, 192, "dict {'start': 192, 'size': -191, 'stop': 1}"),
 ('record_length', 12, 192, "dict {'start': 192, 'size': -180, 'stop': 12}"),
 ('record_length', 191, 192, "dict {'start': 192, 'size': -1, 'stop': 191}"),
 ('record_length', 192, 192, "dict {'start': 192, 'size': 0, 'stop': 192}"),
 ('record_length', 193, 193, "dict {'start': 192, 'size': 1, 'stop': 193}"),
 ('record_length', 500, 500, "dict {'start': 192, 'size': 308, 'stop': 500}"),
 ('record_length', 1000000, 700, "dict {'start': 192, 'size': 999808, 'stop': 1000000}"),
 ('record_length', 4294967295, 700, "dict {'start': 192, 'size': 4294967103, 'stop': 4294967295}"),
 ('bad date', (0, 1, 0), 'raised builtins.ValueError: year 0 is out of range'),
 ('bad date', (10000, 1, 0), 'raised builtins.ValueError: year 10000 is out of range'),
 ('bad date',
  (2015, 4294967295, 0),
  'raised builtins.OverflowError: Python int too large to convert to C int'),
 ('bad date', (0, 4294967295, 5), 'raised builtins.ValueError: year 0 is out of range'),
 ('bad date', None, 'raised builtins.OverflowError: signed integer is greater than maximum'),
 ('truncated',
  0,
  'raised construct.core.StreamError: Error in path (parsing) -> preamble -> '
  'record_sequence_number\n'
  'stream read less than specified amount, expected 4, found 0'),
 ('truncated',
  1,
  'raised construct.core.StreamError: Error in path (parsing) -> preamble -> '
  'record_sequence_number\n'
  'stream read less than specified amount, expected 4, found 1'),
 ('truncated',
  2,
  'raised construct.core.StreamError: Error in path (parsing) -> preamble -> '
  'record_sequence_number\n'
  'stream read less than specified amount, expected 4, found 2'),
 ('truncated',
  3,
  'raised construct.core.StreamError: Error in path (parsing) -> preamble -> '
  'record_sequence_number\n'
  'stream read less than specified amount, expected 4, found 3'),
 ('truncated',
  4,
  'raised construct.core.StreamError: Error in path (parsing) -> preamble -> first_record_subtype\n'
  'stream read less than specified amount, expected 1, found 0'),
 ('truncated',
  5,
  'raised construct.core.StreamError: Error in path (parsing) -> preamble -> record_type\n'
  'stream read less than specified amount, expected 1, found 0'),
 ('truncated',
  6,
  'raised construct.core.StreamError: Error in path (parsing) -> preamble -> '
  'second_record_subtype\n'
  'stream read less than specified amount, expected 1, found 0'),
 ('truncated',
  7,
  'raised construct.core.StreamError: Error in path (parsing) -> preamble -> third_record_subtype\n'
  'stream read less than specified amount, expected 1, found 0'),
 ('truncated',
  8,
  'raised construct.core.StreamError: Error in path (parsing) -> preamble -> record_length\n'
  'stream read less than specified amount, expected 4, found 0'),
 ('truncated',
  9,
  'raised construct.core.StreamError: Error in path (parsing) -> preamble -> record_length\n'
  'stream read less than specified amount, expected 4, found 1'),
 ('truncated',
  10,
  'raised construct.core.StreamError: Error in path (parsing) -> preamble -> record_length\n'
  'stream read less than specified amount, expected 4, found 2'),
 ('truncated',
  11,
  'raised construct.core.StreamError: Error in path (parsing) -> preamble -> record_length\n'
  'stream read less than specified amount, expected 4, found 3'),
 ('truncated',
  12,
  'raised construct.core.StreamError: Error in path (parsing) -> sar_image_data_line_number\n'
  'stream read less than specified amount, expected 4, found 0'),
 ('truncated',
  13,
  'raised construct.core.StreamError: Error in path (parsing) -> sar_image_data_line_number\n'
  'stream read less than specified amount, expected 4, found 1'),
 ('truncated',
  14,
  'raised construct.core.StreamError: Error in path (parsing) -> sar_image_data_line_number\n'
  'stream read less than specified amount, expected 4, found 2'),
 ('truncated',
  15,
  'raised construct.core.StreamError: Error in path (parsing) -> sar_image_data_line_number\n'
  'stream read less than specified amount, expected 4, found 3'),
 ('truncated',
  16,
  'raised construct.core.StreamError: Error in path (parsing) -> sar_image_data_record_index\n'
  'stream read less than specified amount, expected 4, found 0'),
 ('truncated',
  17,
  'raised construct.core.StreamError: Error in path (parsing) -> sar_image_data_record_index\n'
  'stream read less than specified amount, expected 4, found 1'),
 ('truncated',
  18,
  'raised construct.core.StreamError: Error in path (parsing) -> sar_image_data_record_index\n'
  'stream read less than specified amount, expected 4, found 2'),
 ('truncated',
  19,
  'raised construct.core.StreamError: Error in path (parsing) -> sar_image_data_record_index\n'
  'stream read less than specified amount, expected 4, found 3'),
 ('truncated',
  20,
  'raised construct.core.StreamError: Error in path (parsing) -> actual_count_of_left_fill_pixels\n'
  'stream read less than specified amount, expected 4, found 0'),
 ('truncated',
  21,
  'raised construct.core.StreamError: Error in path (parsing) -> actual_count_of_left_fill_pixels\n'
  'stream read less than specified amount, expected 4, found 1'),
 ('truncated',
  22,
  'raised construct.core.StreamError: Error in path (parsing) -> actual_count_of_left_fill_pixels\n'
  'stream read less than specified amount, expected 4, found 2'),
 ('truncated',
  23,
  'raised construct.core.StreamError: Error in path (parsing) -> actual_count_of_left_fill_pixels\n'
  'stream read less than specified amount, expected 4, found 3'),
 ('truncated',
  24,
  'raised construct.core.StreamError: Error in path (parsing) -> actual_count_of_data_pixels\n'
  'stream read less than specified amount, expected 4, found 0'),
 ('truncated',
  25,
  'raised construct.core.StreamError: Error in path (parsing) -> actual_count_of_data_pixels\n'
  'stream read less than specified amount, expected 4, found 1'),
 ('truncated',
  26,
  'raised construct.core.StreamError: Error in path (parsing) -> actual_count_of_data_pixels\n'
  'stream read less than specified amount, expected 4, found 2'),
 ('truncated',
  27,
  'raised construct.core.StreamError: Error in path (parsing) -> actual_count_of_data_pixels\n'
  'stream read less than specified amount, expected 4, found 3'),
 ('truncated',
  28,
  'raised construct.core.StreamError: Error in path (parsing) -> '
  'actual_count_of_right_fill_pixels\n'
  'stream read less than specified amount, expected 4, found 0'),
 ('truncated',
  29,
  'raised construct.core.StreamError: Error in path (parsing) -> '
  'actual_count_of_right_fill_pixels\n'
  'stream read less than specified amount, expected 4, found 1'),
 ('truncated',
  30,
  'raised construct.core.StreamError: Error in path (parsing) -> '
  'actual_count_of_right_fill_pixels\n'
  'stream read less than specified amount, expected 4, found 2'),
 ('truncated',
  31,
  'raised construct.core.StreamError: Error in path (parsing) -> '
  'actual_count_of_right_fill_pixels\n'
  'stream read less than specified amount, expected 4, found 3'),
 ('truncated',
  32,
  'raised construct.core.StreamError: Error in path (parsing) -> sensor_parameters_update_flag\n'
  'stream read less than specified amount, expected 4, found 0'),
 ('truncated',
  33,
  'raised construct.core.StreamError: Error in path (parsing) -> sensor_parameters_update_flag\n'
  'stream read less than specified amount, expected 4, found 1'),
 ('truncated',
  34,
  'raised construct.core.StreamError: Error in path (parsing) -> sensor_parameters_update_flag\n'
  'stream read less than specified amount, expected 4, found 2'),
 ('truncated',
  35,
  'raised construct.core.StreamError: Error in path (parsing) -> sensor_parameters_update_flag\n'
  'stream read less than specified amount, expected 4, found 3'),
 ('truncated',
  36,
  'raised construct.core.StreamError: Error in path (parsing) -> sensor_acquisition_date -> year\n'
  'stream read less than specified amount, expected 4, found 0'),
 ('truncated',
  37,
  'raised construct.core.StreamError: Error in path (parsing) -> sensor_acquisition_date -> year\n'
  'stream read less than specified amount, expected 4, found 1'),
 ('truncated',
  38,
  'raised construct.core.StreamError: Error in path (parsing) -> sensor_acquisition_date -> year\n'
  'stream read less than specified amount, expected 4, found 2'),
 ('truncated',
  39,
  'raised construct.core.StreamError: Error in path (parsing) -> sensor_acquisition_date -> year\n'
  'stream read less than specified amount, expected 4, found 3'),
 ('truncated',
  40,
  'raised construct.core.StreamError: Error in path (parsing) -> sensor_acquisition_date -> '
  'day_of_year\n'
  'stream read less than specified amount, expected 4, found 0'),
 ('truncated',
  41,
  'raised construct.core.StreamError: Error in path (parsing) -> sensor_acquisition_date -> '
  'day_of_year\n'
  'stream read less than specified amount, expected 4, found 1'),
 ('truncated',
  42,
  'raised construct.core.StreamError: Error in path (parsing) -> sensor_acquisition_date -> '
  'day_of_year\n'
  'stream read less than specified amount, expected 4, found 2'),
 ('truncated',
  43,
  'raised construct.core.StreamError: Error in path (parsing) -> sensor_acquisition_date -> '
  'day_of_year\n'
  'stream read less than specified amount, expected 4, found 3'),
 ('truncated',
  44,
  'raised construct.core.StreamError: Error in path (parsing) -> sensor_acquisition_date -> '
  'milliseconds\n'
  'stream read less than specified amount, expected 4, found 0'),
 ('truncated',
  45,
  'raised construct.core.StreamError: Error in path (parsing) -> sensor_acquisition_date -> '
  'milliseconds\n'
  'stream read less than specified amount, expected 4, found 1'),
 ('truncated',
  46,
  'raised construct.core.StreamError: Error in path (parsing) -> sensor_acquisition_date -> '
  'milliseconds\n'
  'stream read less than specified amount, expected 4, found 2'),
 ('truncated',
  47,
  'raised construct.core.StreamError: Error in path (parsing) -> sensor_acquisition_date -> '
  'milliseconds\n'
  'stream read less than specified amount, expected 4, found 3'),
 ('truncated',
  48,
  'raised construct.core.StreamError: Error in path (parsing) -> sar_channel_id\n'
  'stream read less than specified amount, expected 2, found 0'),
 ('truncated',
  49,
  'raised construct.core.StreamError: Error in path (parsing) -> sar_channel_id\n'
  'stream read less than specified amount, expected 2, found 1'),
 ('truncated',
  50,
  'raised construct.core.StreamError: Error in path (parsing) -> sar_channel_code\n'
  'stream read less than specified amount, expected 2, found 0'),
 ('truncated',
  51,
  'raised construct.core.StreamError: Error in path (parsing) -> sar_channel_code\n'
  'stream read less than specified amount, expected 2, found 1'),
 ('truncated',
  52,
  'raised construct.core.StreamError: Error in path (parsing) -> transmitted_pulse_polarization\n'
  'stream read less than specified amount, expected 2, found 0'),
 ('truncated',
  53,
  'raised construct.core.StreamError: Error in path (parsing) -> transmitted_pulse_polarization\n'
  'stream read less than specified amount, expected 2, found 1'),
 ('truncated',
  54,
  'raised construct.core.StreamError: Error in path (parsing) -> received_pulse_polarization\n'
  'stream read less than specified amount, expected 2, found 0'),
 ('truncated',
  55,
  'raised construct.core.StreamError: Error in path (parsing) -> received_pulse_polarization\n'
  'stream read less than specified amount, expected 2, found 1'),
 ('truncated',
  56,
  'raised construct.core.StreamError: Error in path (parsing) -> prf\n'
  'stream read less than specified amount, expected 4, found 0'),
 ('truncated',
  57,
  'raised construct.core.StreamError: Error in path (parsing) -> prf\n'
  'stream read less than specified amount, expected 4, found 1'),
 ('truncated',
  58,
  'raised construct.core.StreamError: Error in path (parsing) -> prf\n'
  'stream read less than specified amount, expected 4, found 2'),
 ('truncated',
  59,
  'raised construct.core.StreamError: Error in path (parsing) -> prf\n'
  'stream read less than specified amount, expected 4, found 3'),
 ('truncated',
  60,
  'raised construct.core.StreamError: Error in path (parsing) -> scan_id\n'
  'stream read less than specified amount, expected 4, found 0'),
 ('truncated',
  61,
  'raised construct.core.StreamError: Error in path (parsing) -> scan_id\n'
  'stream read less than specified amount, expected 4, found 1'),
 ('truncated',
  62,
  'raised construct.core.StreamError: Error in path (parsing) -> scan_id\n'
  'stream read less than specified amount, expected 4, found 2'),
 ('truncated',
  63,
  'raised construct.core.StreamError: Error in path (parsing) -> scan_id\n'
  'stream read less than specified amount, expected 4, found 3'),
 ('truncated',
  64,
  'raised construct.core.StreamError: Error in path (parsing) -> slant_range_to_first_pixel\n'
  'stream read less than specified amount, expected 4, found 0'),
 ('truncated',
  65,
  'raised construct.core.StreamError: Error in path (parsing) -> slant_range_to_first_pixel\n'
  'stream read less than specified amount, expected 4, found 1'),
 ('truncated',
  66,
  'raised construct.core.StreamError: Error in path (parsing) -> slant_range_to_first_pixel\n'
  'stream read less than specified amount, expected 4, found 2'),
 ('truncated',
  67,
  'raised construct.core.StreamError: Error in path (parsing) -> slant_range_to_first_pixel\n'
  'stream read less than specified amount, expected 4, found 3'),
 ('truncated',
  68,
  'raised construct.core.StreamError: Error in path (parsing) -> slant_range_to_mid_pixel\n'
  'stream read less than specified amount, expected 4, found 0'),
 ('truncated',
  69,
  'raised construct.core.StreamError: Error in path (parsing) -> slant_range_to_mid_pixel\n'
  'stream read less than specified amount, expected 4, found 1'),
 ('truncated',
  70,
  'raised construct.core.StreamError: Error in path (parsing) -> slant_range_to_mid_pixel\n'
  'stream read less than specified amount, expected 4, found 2'),
 ('truncated',
  71,
  'raised construct.core.StreamError: Error in path (parsing) -> slant_range_to_mid_pixel\n'
  'stream read less than specified amount, expected 4, found 3'),
 ('truncated',
  72,
  'raised construct.core.StreamError: Error in path (parsing) -> slant_range_to_last_pixel\n'
  'stream read less than specified amount, expected 4, found 0'),
 ('truncated',
  73,
  'raised construct.core.StreamError: Error in path (parsing) -> slant_range_to_last_pixel\n'
  'stream read less than specified amount, expected 4, found 1'),
 ('truncated',
  74,
  'raised construct.core.StreamError: Error in path (parsing) -> slant_range_to_last_pixel\n'
  'stream read less than specified amount, expected 4, found 2'),
 ('truncated',
  75,
  'raised construct.core.StreamError: Error in path (parsing) -> slant_range_to_last_pixel\n'
  'stream read less than specified amount, expected 4, found 3'),
 ('truncated',
  76,
  'raised construct.core.StreamError: Error in path (parsing) -> '
  'doppler_centroid_value_at_first_pixel\n'
  'stream read less than specified amount, expected 4, found 0'),
 ('truncated',
  77,
  'raised construct.core.StreamError: Error in path (parsing) -> '
  'doppler_centroid_value_at_first_pixel\n'
  'stream read less than specified amount, expected 4, found 1'),
 ('truncated',
  78,
  'raised construct.core.StreamError: Error in path (parsing) -> '
  'doppler_centroid_value_at_first_pixel\n'
  'stream read less than specified amount, expected 4, found 2'),
 ('truncated',
  79,
  'raised construct.core.StreamError: Error in path (parsing) -> '
  'doppler_centroid_value_at_first_pixel\n'
  'stream read less than specified amount, expected 4, found 3'),
 ('truncated',
  80,
  'raised construct.core.StreamError: Error in path (parsing) -> '
  'doppler_centroid_value_at_mid_pixel\n'
  'stream read less than specified amount, expected 4, found 0'),
 ('truncated',
  81,
  'raised construct.core.StreamError: Error in path (parsing) -> '
  'doppler_centroid_value_at_mid_pixel\n'
  'stream read less than specified amount, expected 4, found 1'),
 ('truncated',
  82,
  'raised construct.core.StreamError: Error in path (parsing) -> '
  'doppler_centroid_value_at_mid_pixel\n'
  'stream read less than specified amount, expected 4, found 2'),
 ('truncated',
  83,
  'raised construct.core.StreamError: Error in path (parsing) -> '
  'doppler_centroid_value_at_mid_pixel\n'
  'stream read less than specified amount, expected 4, found 3'),
 ('truncated',
  84,
  'raised construct.core.StreamError: Error in path (parsing) -> '
  'doppler_centroid_value_at_last_pixel\n'
  'stream read less than specified amount, expected 4, found 0'),
 ('truncated',
  85,
  'raised construct.core.StreamError: Error in path (parsing) -> '
  'doppler_centroid_value_at_last_pixel\n'
  'stream read less than specified amount, expected 4, found 1'),
 ('truncated',
  86,
  'raised construct.core.StreamError: Error in path (parsing) -> '
  'doppler_centroid_value_at_last_pixel\n'
  'stream read less than specified amount, expected 4, found 2'),
 ('truncated',
  87,
  'raised construct.core.StreamError: Error in path (parsing) -> '
  'doppler_centroid_value_at_last_pixel\n'
  'stream read less than specified amount, expected 4, found 3'),
 ('truncated',
  88,
  'raised construct.core.StreamError: Error in path (parsing) -> azimuth_fm_rate_of_first_pixel\n'
  'stream read less than specified amount, expected 4, found 0'),
 ('truncated',
  89,
  'raised construct.core.StreamError: Error in path (parsing) -> azimuth_fm_rate_of_first_pixel\n'
  'stream read less than specified amount, expected 4, found 1'),
 ('truncated',
  90,
  'raised construct.core.StreamError: Error in path (parsing) -> azimuth_fm_rate_of_first_pixel\n'
  'stream read less than specified amount, expected 4, found 2'),
 ('truncated',
  91,
  'raised construct.core.StreamError: Error in path (parsing) -> azimuth_fm_rate_of_first_pixel\n'
  'stream read less than specified amount, expected 4, found 3'),
 ('truncated',
  92,
  'raised construct.core.StreamError: Error in path (parsing) -> azimuth_fm_rate_of_mid_pixel\n'
  'stream read less than specified amount, expected 4, found 0'),
 ('truncated',
  93,
  'raised construct.core.StreamError: Error in path (parsing) -> azimuth_fm_rate_of_mid_pixel\n'
  'stream read less than specified amount, expected 4, found 1'),
 ('truncated',
  94,
  'raised construct.core.StreamError: Error in path (parsing) -> azimuth_fm_rate_of_mid_pixel\n'
  'stream read less than specified amount, expected 4, found 2'),
 ('truncated',
  95,
  'raised construct.core.StreamError: Error in path (parsing) -> azimuth_fm_rate_of_mid_pixel\n'
  'stream read less than specified amount, expected 4, found 3'),
 ('truncated',
  96,
  'raised construct.core.StreamError: Error in path (parsing) -> azimuth_fm_rate_of_last_pixel\n'
  'stream read less than specified amount, expected 4, found 0'),
 ('truncated',
  97,
  'raised construct.core.StreamError: Error in path (parsing) -> azimuth_fm_rate_of_last_pixel\n'
  'stream read less than specified amount, expected 4, found 1'),
 ('truncated',
  98,
  'raised construct.core.StreamError: Error in path (parsing) -> azimuth_fm_rate_of_last_pixel\n'
  'stream read less than specified amount, expected 4, found 2'),
 ('truncated',
  99,
  'raised construct.core.StreamError: Error in path (parsing) -> azimuth_fm_rate_of_last_pixel\n'
  'stream read less than specified amount, expected 4, found 3'),
 ('truncated',
  100,
  'raised construct.core.StreamError: Error in path (parsing) -> look_angle_of_nadir\n'
  'stream read less than specified amount, expected 4, found 0'),
 ('truncated',
  101,
  'raised construct.core.StreamError: Error in path (parsing) -> look_angle_of_nadir\n'
  'stream read less than specified amount, expected 4, found 1'),
 ('truncated',
  102,
  'raised construct.core.StreamError: Error in path (parsing) -> look_angle_of_nadir\n'
  'stream read less than specified amount, expected 4, found 2'),
 ('truncated',
  103,
  'raised construct.core.StreamError: Error in path (parsing) -> look_angle_of_nadir\n'
  'stream read less than specified amount, expected 4, found 3'),
 ('truncated',
  104,
  'raised construct.core.StreamError: Error in path (parsing) -> azimuth_squint_angle\n'
  'stream read less than specified amount, expected 4, found 0'),
 ('truncated',
  105,
  'raised construct.core.StreamError: Error in path (parsing) -> azimuth_squint_angle\n'
  'stream read less than specified amount, expected 4, found 1'),
 ('truncated',
  106,
  'raised construct.core.StreamError: Error in path (parsing) -> azimuth_squint_angle\n'
  'stream read less than specified amount, expected 4, found 2'),
 ('truncated',
  107,
  'raised construct.core.StreamError: Error in path (parsing) -> azimuth_squint_angle\n'
  'stream read less than specified amount, expected 4, found 3'),
 ('truncated',
  108,
  'raised construct.core.StreamError: Error in path (parsing) -> blanks1\n'
  'stream read less than specified amount, expected 20, found 0'),
 ('truncated',
  109,
  'raised construct.core.StreamError: Error in path (parsing) -> blanks1\n'
  'stream read less than specified amount, expected 20, found 1'),
 ('truncated',
  110,
  'raised construct.core.StreamError: Error in path (parsing) -> blanks1\n'
  'stream read less than specified amount, expected 20, found 2'),
 ('truncated',
  111,
  'raised construct.core.StreamError: Error in path (parsing) -> blanks1\n'
  'stream read less than specified amount, expected 20, found 3'),
 ('truncated',
  112,
  'raised construct.core.StreamError: Error in path (parsing) -> blanks1\n'
  'stream read less than specified amount, expected 20, found 4'),
 ('truncated',
  113,
  'raised construct.core.StreamError: Error in path (parsing) -> blanks1\n'
  'stream read less than specified amount, expected 20, found 5'),
 ('truncated',
  114,
  'raised construct.core.StreamError: Error in path (parsing) -> blanks1\n'
  'stream read less than specified amount, expected 20, found 6'),
 ('truncated',
  115,
  'raised construct.core.StreamError: Error in path (parsing) -> blanks1\n'
  'stream read less than specified amount, expected 20, found 7'),
 ('truncated',
  116,
  'raised construct.core.StreamError: Error in path (parsing) -> blanks1\n'
  'stream read less than specified amount, expected 20, found 8'),
 ('truncated',
  117,
  'raised construct.core.StreamError: Error in path (parsing) -> blanks1\n'
  'stream read less than specified amount, expected 20, found 9'),
 ('truncated',
  118,
  'raised construct.core.StreamError: Error in path (parsing) -> blanks1\n'
  'stream read less than specified amount, expected 20, found 10'),
 ('truncated',
  119,
  'raised construct.core.StreamError: Error in path (parsing) -> blanks1\n'
  'stream read less than specified amount, expected 20, found 11'),
 ('truncated',
  120,
  'raised construct.core.StreamError: Error in path (parsing) -> blanks1\n'
  'stream read less than specified amount, expected 20, found 12'),
 ('truncated',
  121,
  'raised construct.core.StreamError: Error in path (parsing) -> blanks1\n'
  'stream read less than specified amount, expected 20, found 13'),
 ('truncated',
  122,
  'raised construct.core.StreamError: Error in path (parsing) -> blanks1\n'
  'stream read less than specified amount, expected 20, found 14'),
 ('truncated',
  123,
  'raised construct.core.StreamError: Error in path (parsing) -> blanks1\n'
  'stream read less than specified amount, expected 20, found 15'),
 ('truncated',
  124,
  'raised construct.core.StreamError: Error in path (parsing) -> blanks1\n'
  'stream read less than specified amount, expected 20, found 16'),
 ('truncated',
  125,
  'raised construct.core.StreamError: Error in path (parsing) -> blanks1\n'
  'stream read less than specified amount, expected 20, found 17'),
 ('truncated',
  126,
  'raised construct.core.StreamError: Error in path (parsing) -> blanks1\n'
  'stream read less than specified amount, expected 20, found 18'),
 ('truncated',
  127,
  'raised construct.core.StreamError: Error in path (parsing) -> blanks1\n'
  'stream read less than specified amount, expected 20, found 19'),
 ('truncated',
  128,
  'raised construct.core.StreamError: Error in path (parsing) -> '
  'geographic_reference_parameter_update_flag\n'
  'stream read less than specified amount, expected 4, found 0'),
 ('truncated',
  129,
  'raised construct.core.StreamError: Error in path (parsing) -> '
  'geographic_reference_parameter_update_flag\n'
  'stream read less than specified amount, expected 4, found 1'),
 ('truncated',
  130,
  'raised construct.core.StreamError: Error in path (parsing) -> '
  'geographic_reference_parameter_update_flag\n'
  'stream read less than specified amount, expected 4, found 2'),
 ('truncated',
  131,
  'raised construct.core.StreamError: Error in path (parsing) -> '
  'geographic_reference_parameter_update_flag\n'
  'stream read less than specified amount, expected 4, found 3'),
 ('truncated',
  132,
  'raised construct.core.StreamError: Error in path (parsing) -> latitude_of_first_pixel\n'
  'stream read less than specified amount, expected 4, found 0'),
 ('truncated',
  133,
  'raised construct.core.StreamError: Error in path (parsing) -> latitude_of_first_pixel\n'
  'stream read less than specified amount, expected 4, found 1'),
 ('truncated',
  134,
  'raised construct.core.StreamError: Error in path (parsing) -> latitude_of_first_pixel\n'
  'stream read less than specified amount, expected 4, found 2'),
 ('truncated',
  135,
  'raised construct.core.StreamError: Error in path (parsing) -> latitude_of_first_pixel\n'
  'stream read less than specified amount, expected 4, found 3'),
 ('truncated',
  136,
  'raised construct.core.StreamError: Error in path (parsing) -> latitude_of_center_pixel\n'
  'stream read less than specified amount, expected 4, found 0'),
 ('truncated',
  137,
  'raised construct.core.StreamError: Error in path (parsing) -> latitude_of_center_pixel\n'
  'stream read less than specified amount, expected 4, found 1'),
 ('truncated',
  138,
  'raised construct.core.StreamError: Error in path (parsing) -> latitude_of_center_pixel\n'
  'stream read less than specified amount, expected 4, found 2'),
 ('truncated',
  139,
  'raised construct.core.StreamError: Error in path (parsing) -> latitude_of_center_pixel\n'
  'stream read less than specified amount, expected 4, found 3'),
 ('truncated',
  140,
  'raised construct.core.StreamError: Error in path (parsing) -> latitude_of_last_pixel\n'
  'stream read less than specified amount, expected 4, found 0'),
 ('truncated',
  141,
  'raised construct.core.StreamError: Error in path (parsing) -> latitude_of_last_pixel\n'
  'stream read less than specified amount, expected 4, found 1'),
 ('truncated',
  142,
  'raised construct.core.StreamError: Error in path (parsing) -> latitude_of_last_pixel\n'
  'stream read less than specified amount, expected 4, found 2'),
 ('truncated',
  143,
  'raised construct.core.StreamError: Error in path (parsing) -> latitude_of_last_pixel\n'
  'stream read less than specified amount, expected 4, found 3'),
 ('truncated',
  144,
  'raised construct.core.StreamError: Error in path (parsing) -> longitude_of_first_pixel\n'
  'stream read less than specified amount, expected 4, found 0'),
 ('truncated',
  145,
  'raised construct.core.StreamError: Error in path (parsing) -> longitude_of_first_pixel\n'
  'stream read less than specified amount, expected 4, found 1'),
 ('truncated',
  146,
  'raised construct.core.StreamError: Error in path (parsing) -> longitude_of_first_pixel\n'
  'stream read less than specified amount, expected 4, found 2'),
 ('truncated',
  147,
  'raised construct.core.StreamError: Error in path (parsing) -> longitude_of_first_pixel\n'
  'stream read less than specified amount, expected 4, found 3'),
 ('truncated',
  148,
  'raised construct.core.StreamError: Error in path (parsing) -> longitude_of_center_pixel\n'
  'stream read less than specified amount, expected 4, found 0'),
 ('truncated',
  149,
  'raised construct.core.StreamError: Error in path (parsing) -> longitude_of_center_pixel\n'
  'stream read less than specified amount, expected 4, found 1'),
 ('truncated',
  150,
  'raised construct.core.StreamError: Error in path (parsing) -> longitude_of_center_pixel\n'
  'stream read less than specified amount, expected 4, found 2'),
 ('truncated',
  151,
  'raised construct.core.StreamError: Error in path (parsing) -> longitude_of_center_pixel\n'
  'stream read less than specified amount, expected 4, found 3'),
 ('truncated',
  152,
  'raised construct.core.StreamError: Error in path (parsing) -> longitude_of_last_pixel\n'
  'stream read less than specified amount, expected 4, found 0'),
 ('truncated',
  153,
  'raised construct.core.StreamError: Error in path (parsing) -> longitude_of_last_pixel\n'
  'stream read less than specified amount, expected 4, found 1'),
 ('truncated',
  154,
  'raised construct.core.StreamError: Error in path (parsing) -> longitude_of_last_pixel\n'
  'stream read less than specified amount, expected 4, found 2'),
 ('truncated',
  155,
  'raised construct.core.StreamError: Error in path (parsing) -> longitude_of_last_pixel\n'
  'stream read less than specified amount, expected 4, found 3'),
 ('truncated',
  156,
  'raised construct.core.StreamError: Error in path (parsing) -> northing_of_first_pixel\n'
  'stream read less than specified amount, expected 4, found 0'),
 ('truncated',
  157,
  'raised construct.core.StreamError: Error in path (parsing) -> northing_of_first_pixel\n'
  'stream read less than specified amount, expected 4, found 1'),
 ('truncated',
  158,
  'raised construct.core.StreamError: Error in path (parsing) -> northing_of_first_pixel\n'
  'stream read less than specified amount, expected 4, found 2'),
 ('truncated',
  159,
  'raised construct.core.StreamError: Error in path (parsing) -> northing_of_first_pixel\n'
  'stream read less than specified amount, expected 4, found 3'),
 ('truncated',
  160,
  'raised construct.core.StreamError: Error in path (parsing) -> blanks2\n'
  'stream read less than specified amount, expected 4, found 0'),
 ('truncated',
  161,
  'raised construct.core.StreamError: Error in path (parsing) -> blanks2\n'
  'stream read less than specified amount, expected 4, found 1'),
 ('truncated',
  162,
  'raised construct.core.StreamError: Error in path (parsing) -> blanks2\n'
  'stream read less than specified amount, expected 4, found 2'),
 ('truncated',
  163,
  'raised construct.core.StreamError: Error in path (parsing) -> blanks2\n'
  'stream read less than specified amount, expected 4, found 3'),
 ('truncated',
  164,
  'raised construct.core.StreamError: Error in path (parsing) -> northing_of_last_pixel\n'
  'stream read less than specified amount, expected 4, found 0'),
 ('truncated',
  165,
  'raised construct.core.StreamError: Error in path (parsing) -> northing_of_last_pixel\n'
  'stream read less than specified amount, expected 4, found 1'),
 ('truncated',
  166,
  'raised construct.core.StreamError: Error in path (parsing) -> northing_of_last_pixel\n'
  'stream read less than specified amount, expected 4, found 2'),
 ('truncated',
  167,
  'raised construct.core.StreamError: Error in path (parsing) -> northing_of_last_pixel\n'
  'stream read less than specified amount, expected 4, found 3'),
 ('truncated',
  168,
  'raised construct.core.StreamError: Error in path (parsing) -> easting_of_first_pixel\n'
  'stream read less than specified amount, expected 4, found 0'),
 ('truncated',
  169,
  'raised construct.core.StreamError: Error in path (parsing) -> easting_of_first_pixel\n'
  'stream read less than specified amount, expected 4, found 1'),
 ('truncated',
  170,
  'raised construct.core.StreamError: Error in path (parsing) -> easting_of_first_pixel\n'
  'stream read less than specified amount, expected 4, found 2'),
 ('truncated',
  171,
  'raised construct.core.StreamError: Error in path (parsing) -> easting_of_first_pixel\n'
  'stream read less than specified amount, expected 4, found 3'),
 ('truncated',
  172,
  'raised construct.core.StreamError: Error in path (parsing) -> blanks3\n'
  'stream read less than specified amount, expected 4, found 0'),
 ('truncated',
  173,
  'raised construct.core.StreamError: Error in path (parsing) -> blanks3\n'
  'stream read less than specified amount, expected 4, found 1'),
 ('truncated',
  174,
  'raised construct.core.StreamError: Error in path (parsing) -> blanks3\n'
  'stream read less than specified amount, expected 4, found 2'),
 ('truncated',
  175,
  'raised construct.core.StreamError: Error in path (parsing) -> blanks3\n'
  'stream read less than specified amount, expected 4, found 3'),
 ('truncated',
  176,
  'raised construct.core.StreamError: Error in path (parsing) -> easting_of_last_pixel\n'
  'stream read less than specified amount, expected 4, found 0'),
 ('truncated',
  177,
  'raised construct.core.StreamError: Error in path (parsing) -> easting_of_last_pixel\n'
  'stream read less than specified amount, expected 4, found 1'),
 ('truncated',
  178,
  'raised construct.core.StreamError: Error in path (parsing) -> easting_of_last_pixel\n'
  'stream read less than specified amount, expected 4, found 2'),
 ('truncated',
  179,
  'raised construct.core.StreamError: Error in path (parsing) -> easting_of_last_pixel\n'
  'stream read less than specified amount, expected 4, found 3'),
 ('truncated',
  180,
  'raised construct.core.StreamError: Error in path (parsing) -> line_heading\n'
  'stream read less than specified amount, expected 4, found 0'),
 ('truncated',
  181,
  'raised construct.core.StreamError: Error in path (parsing) -> line_heading\n'
  'stream read less than specified amount, expected 4, found 1'),
 ('truncated',
  182,
  'raised construct.core.StreamError: Error in path (parsing) -> line_heading\n'
  'stream read less than specified amount, expected 4, found 2'),
 ('truncated',
  183,
  'raised construct.core.StreamError: Error in path (parsing) -> line_heading\n'
  'stream read less than specified amount, expected 4, found 3'),
 ('truncated',
  184,
  'raised construct.core.StreamError: Error in path (parsing) -> blanks4\n'
  'stream read less than specified amount, expected 8, found 0'),
 ('truncated',
  185,
  'raised construct.core.StreamError: Error in path (parsing) -> blanks4\n'
  'stream read less than specified amount, expected 8, found 1'),
 ('truncated',
  186,
  'raised construct.core.StreamError: Error in path (parsing) -> blanks4\n'
  'stream read less than specified amount, expected 8, found 2'),
 ('truncated',
  187,
  'raised construct.core.StreamError: Error in path (parsing) -> blanks4\n'
  'stream read less than specified amount, expected 8, found 3'),
 ('truncated',
  188,
  'raised construct.core.StreamError: Error in path (parsing) -> blanks4\n'
  'stream read less than specified amount, expected 8, found 4'),
 ('truncated',
  189,
  'raised construct.core.StreamError: Error in path (parsing) -> blanks4\n'
  'stream read less than specified amount, expected 8, found 5'),
 ('truncated',
  190,
  'raised construct.core.StreamError: Error in path (parsing) -> blanks4\n'
  'stream read less than specified amount, expected 8, found 6'),
 ('truncated',
  191,
  'raised construct.core.StreamError: Error in path (parsing) -> blanks4\n'
  'stream read less than specified amount, expected 8, found 7'),
 ('truncated',
  192,
  "dict {'record_start': 0, 'preamble': {'record_sequence_number': 5, 'first_record_subtype': 50, "
  "'record_type': 11, 'second_record_subtype': 18, 'third_record_subtype': 20, 'record_length': "
  "256}, 'sar_image_data_line_number': 3364906953, 'sar_image_data_record_index': 2378702067, "
  "'actual_count_of_left_fill_pixels': 1224063067, 'actual_count_of_data_pixels': 2872709318, "
  "'actual_count_of_right_fill_pixels': 2902144823, 'sensor_parameters_update_flag': 2128380402, "
  "'sensor_acquisition_date': datetime.datetime(2015, 5, 3, 1, 16, 7, 890000), 'sar_channel_id': "
  "'dual_polarization', 'sar_channel_code': 'KA', 'transmitted_pulse_polarization': 2, "
  "'received_pulse_polarization': 'vertical', 'prf': (1948910283, {'units': 'mHz'}), 'scan_id': "
  "2933748478, 'slant_range_to_first_pixel': (1523623835, {'units': 'm'}), "
  "'slant_range_to_mid_pixel': (3974640166, {'units': 'm'}), 'slant_range_to_last_pixel': "
  "(373876836, {'units': 'm'}), 'doppler_centroid_value_at_first_pixel': (3461668.4390000002, "
  "{'units': 'Hz'}), 'doppler_centroid_value_at_mid_pixel': (1202743.109, {'units': 'Hz'}), "
  "'doppler_centroid_value_at_last_pixel': (4114684.082, {'units': 'Hz'}), "
  "'azimuth_fm_rate_of_first_pixel': (2351612768, {'units': 'Hz/ms'}), "
  "'azimuth_fm_rate_of_mid_pixel': (30375509, {'units': 'Hz/ms'}), "
  "'azimuth_fm_rate_of_last_pixel': (2278857940, {'units': 'Hz/ms'}), 'look_angle_of_nadir': "
  "(2451.4852809999998, {'units': 'deg'}), 'azimuth_squint_angle': (3620.770497, {'units': "
  "'deg'}), 'blanks1': b'HNR\\xf6\\x1b<EF\\xc4\\x7f\\xff5\\xf5:U\\x85\\xa4\\xd1Z<', "
  "'geographic_reference_parameter_update_flag': 82338461, 'latitude_of_first_pixel': "
  "(2305.032492, {'units': 'deg'}), 'latitude_of_center_pixel': (3882.355886, {'units': 'deg'}), "
  "'latitude_of_last_pixel': (324.57271, {'units': 'deg'}), 'longitude_of_first_pixel': "
  "(1088.02556, {'units': 'deg'}), 'longitude_of_center_pixel': (3805.132616, {'units': 'deg'}), "
  "'longitude_of_last_pixel': (2925.18073, {'units': 'deg'}), 'northing_of_first_pixel': "
  "(2531460531, {'units': 'm'}), 'blanks2': b'\\xd0\\r\\xf7\\xf6', 'northing_of_last_pixel': "
  "(3485081991, {'units': 'm'}), 'easting_of_first_pixel': (1209029931, {'units': 'm'}), "
  "'blanks3': b'.r\\xa9\\xe5', 'easting_of_last_pixel': (3045421305, {'units': 'm'}), "
  "'line_heading': (1361.7889069999999, {'units': 'deg'}), 'blanks4': "
  "b'\\xb6\\x8a\\xe8\\x80\\xd9\\x05\\x81\\xba', 'data': {'start': 192, 'size': 64, 'stop': 256}}"),
 ('truncated',
  193,
  "dict {'record_start': 0, 'preamble': {'record_sequence_number': 5, 'first_record_subtype': 50, "
  "'record_type': 11, 'second_record_subtype': 18, 'third_record_subtype': 20, 'record_length': "
  "256}, 'sar_image_data_line_number': 3364906953, 'sar_image_data_record_index': 2378702067, "
  "'actual_count_of_left_fill_pixels': 1224063067, 'actual_count_of_data_pixels': 2872709318, "
  "'actual_count_of_right_fill_pixels': 2902144823, 'sensor_parameters_update_flag': 2128380402, "
  "'sensor_acquisition_date': datetime.datetime(2015, 5, 3, 1, 16, 7, 890000), 'sar_channel_id': "
  "'dual_polarization', 'sar_channel_code': 'KA', 'transmitted_pulse_polarization': 2, "
  "'received_pulse_polarization': 'vertical', 'prf': (1948910283, {'units': 'mHz'}), 'scan_id': "
  "2933748478, 'slant_range_to_first_pixel': (1523623835, {'units': 'm'}), "
  "'slant_range_to_mid_pixel': (3974640166, {'units': 'm'}), 'slant_range_to_last_pixel': "
  "(373876836, {'units': 'm'}), 'doppler_centroid_value_at_first_pixel': (3461668.4390000002, "
  "{'units': 'Hz'}), 'doppler_centroid_value_at_mid_pixel': (1202743.109, {'units': 'Hz'}), "
  "'doppler_centroid_value_at_last_pixel': (4114684.082, {'units': 'Hz'}), "
  "'azimuth_fm_rate_of_first_pixel': (2351612768, {'units': 'Hz/ms'}), "
  "'azimuth_fm_rate_of_mid_pixel': (30375509, {'units': 'Hz/ms'}), "
  "'azimuth_fm_rate_of_last_pixel': (2278857940, {'units': 'Hz/ms'}), 'look_angle_of_nadir': "
  "(2451.4852809999998, {'units': 'deg'}), 'azimuth_squint_angle': (3620.770497, {'units': "
  "'deg'}), 'blanks1': b'HNR\\xf6\\x1b<EF\\xc4\\x7f\\xff5\\xf5:U\\x85\\xa4\\xd1Z<', "
  "'geographic_reference_parameter_update_flag': 82338461, 'latitude_of_first_pixel': "
  "(2305.032492, {'units': 'deg'}), 'latitude_of_center_pixel': (3882.355886, {'units': 'deg'}), "
  "'latitude_of_last_pixel': (324.57271, {'units': 'deg'}), 'longitude_of_first_pixel': "
  "(1088.02556, {'units': 'deg'}), 'longitude_of_center_pixel': (3805.132616, {'units': 'deg'}), "
  "'longitude_of_last_pixel': (2925.18073, {'units': 'deg'}), 'northing_of_first_pixel': "
  "(2531460531, {'units': 'm'}), 'blanks2': b'\\xd0\\r\\xf7\\xf6', 'northing_of_last_pixel': "
  "(3485081991, {'units': 'm'}), 'easting_of_first_pixel': (1209029931, {'units': 'm'}), "
  "'blanks3': b'.r\\xa9\\xe5', 'easting_of_last_pixel': (3045421305, {'units': 'm'}), "
  "'line_heading': (1361.7889069999999, {'units': 'deg'}), 'blanks4': "
  "b'\\xb6\\x8a\\xe8\\x80\\xd9\\x05\\x81\\xba', 'data': {'start': 192, 'size': 64, 'stop': 256}}"),
 ('truncated',
  194,
  "dict {'record_start': 0, 'preamble': {'record_sequence_number': 5, 'first_record_subtype': 50, "
  "'record_type': 11, 'second_record_subtype': 18, 'third_record_subtype': 20, 'record_length': "
  "256}, 'sar_image_data_line_number': 3364906953, 'sar_image_data_record_index': 2378702067, "
  "'actual_count_of_left_fill_pixels': 1224063067, 'actual_count_of_data_pixels': 2872709318, "
  "'actual_count_of_right_fill_pixels': 2902144823, 'sensor_parameters_update_flag': 2128380402, "
  "'sensor_acquisition_date': datetime.datetime(2015, 5, 3, 1, 16, 7, 890000), 'sar_channel_id': "
  "'dual_polarization', 'sar_channel_code': 'KA', 'transmitted_pulse_polarization': 2, "
  "'received_pulse_polarization': 'vertical', 'prf': (1948910283, {'units': 'mHz'}), 'scan_id': "
  "2933748478, 'slant_range_to_first_pixel': (1523623835, {'units': 'm'}), "
  "'slant_range_to_mid_pixel': (3974640166, {'units': 'm'}), 'slant_range_to_last_pixel': "
  "(373876836, {'units': 'm'}), 'doppler_centroid_value_at_first_pixel': (3461668.4390000002, "
  "{'units': 'Hz'}), 'doppler_centroid_value_at_mid_pixel': (1202743.109, {'units': 'Hz'}), "
  "'doppler_centroid_value_at_last_pixel': (4114684.082, {'units': 'Hz'}), "
  "'azimuth_fm_rate_of_first_pixel': (2351612768, {'units': 'Hz/ms'}), "
  "'azimuth_fm_rate_of_mid_pixel': (30375509, {'units': 'Hz/ms'}), "
  "'azimuth_fm_rate_of_last_pixel': (2278857940, {'units': 'Hz/ms'}), 'look_angle_of_nadir': "
  "(2451.4852809999998, {'units': 'deg'}), 'azimuth_squint_angle': (3620.770497, {'units': "
  "'deg'}), 'blanks1': b'HNR\\xf6\\x1b<EF\\xc4\\x7f\\xff5\\xf5:U\\x85\\xa4\\xd1Z<', "
  "'geographic_reference_parameter_update_flag': 82338461, 'latitude_of_first_pixel': "
  "(2305.032492, {'units': 'deg'}), 'latitude_of_center_pixel': (3882.355886, {'units': 'deg'}), "
  "'latitude_of_last_pixel': (324.57271, {'units': 'deg'}), 'longitude_of_first_pixel': "
  "(1088.02556, {'units': 'deg'}), 'longitude_of_center_pixel': (3805.132616, {'units': 'deg'}), "
  "'longitude_of_last_pixel': (2925.18073, {'units': 'deg'}), 'northing_of_first_pixel': "
  "(2531460531, {'units': 'm'}), 'blanks2': b'\\xd0\\r\\xf7\\xf6', 'northing_of_last_pixel': "
  "(3485081991, {'units': 'm'}), 'easting_of_first_pixel': (1209029931, {'units': 'm'}), "
  "'blanks3': b'.r\\xa9\\xe5', 'easting_of_last_pixel': (3045421305, {'units': 'm'}), "
  "'line_heading': (1361.7889069999999, {'units': 'deg'}), 'blanks4': "
  "b'\\xb6\\x8a\\xe8\\x80\\xd9\\x05\\x81\\xba', 'data': {'start': 192, 'size': 64, 'stop': 256}}"),
 ('truncated',
  195,
  "dict {'record_start': 0, 'preamble': {'record_sequence_number': 5, 'first_record_subtype': 50, "
  "'record_type': 11, 'second_record_subtype': 18, 'third_record_subtype': 20, 'record_length': "
  "256}, 'sar_image_data_line_number': 3364906953, 'sar_image_data_record_index': 2378702067, "
  "'actual_count_of_left_fill_pixels': 1224063067, 'actual_count_of_data_pixels': 2872709318, "
  "'actual_count_of_right_fill_pixels': 2902144823, 'sensor_parameters_update_flag': 2128380402, "
  "'sensor_acquisition_date': datetime.datetime(2015, 5, 3, 1, 16, 7, 890000), 'sar_channel_id': "
  "'dual_polarization', 'sar_channel_code': 'KA', 'transmitted_pulse_polarization': 2, "
  "'received_pulse_polarization': 'vertical', 'prf': (1948910283, {'units': 'mHz'}), 'scan_id': "
  "2933748478, 'slant_range_to_first_pixel': (1523623835, {'units': 'm'}), "
  "'slant_range_to_mid_pixel': (3974640166, {'units': 'm'}), 'slant_range_to_last_pixel': "
  "(373876836, {'units': 'm'}), 'doppler_centroid_value_at_first_pixel': (3461668.4390000002, "
  "{'units': 'Hz'}), 'doppler_centroid_value_at_mid_pixel': (1202743.109, {'units': 'Hz'}), "
  "'doppler_centroid_value_at_last_pixel': (4114684.082, {'units': 'Hz'}), "
  "'azimuth_fm_rate_of_first_pixel': (2351612768, {'units': 'Hz/ms'}), "
  "'azimuth_fm_rate_of_mid_pixel': (30375509, {'units': 'Hz/ms'}), "
  "'azimuth_fm_rate_of_last_pixel': (2278857940, {'units': 'Hz/ms'}), 'look_angle_of_nadir': "
  "(2451.4852809999998, {'units': 'deg'}), 'azimuth_squint_angle': (3620.770497, {'units': "
  "'deg'}), 'blanks1': b'HNR\\xf6\\x1b<EF\\xc4\\x7f\\xff5\\xf5:U\\x85\\xa4\\xd1Z<', "
  "'geographic_reference_parameter_update_flag': 82338461, 'latitude_of_first_pixel': "
  "(2305.032492, {'units': 'deg'}), 'latitude_of_center_pixel': (3882.355886, {'units': 'deg'}), "
  "'latitude_of_last_pixel': (324.57271, {'units': 'deg'}), 'longitude_of_first_pixel': "
  "(1088.02556, {'units': 'deg'}), 'longitude_of_center_pixel': (3805.132616, {'units': 'deg'}), "
  "'longitude_of_last_pixel': (2925.18073, {'units': 'deg'}), 'northing_of_first_pixel': "
  "(2531460531, {'units': 'm'}), 'blanks2': b'\\xd0\\r\\xf7\\xf6', 'northing_of_last_pixel': "
  "(3485081991, {'units': 'm'}), 'easting_of_first_pixel': (1209029931, {'units': 'm'}), "
  "'blanks3': b'.r\\xa9\\xe5', 'easting_of_last_pixel': (3045421305, {'units': 'm'}), "
  "'line_heading': (1361.7889069999999, {'units': 'deg'}), 'blanks4': "
  "b'\\xb6\\x8a\\xe8\\x80\\xd9\\x05\\x81\\xba', 'data': {'start': 192, 'size': 64, 'stop': 256}}"),
 ('truncated',
  196,
  "dict {'record_start': 0, 'preamble': {'record_sequence_number': 5, 'first_record_subtype': 50, "
  "'record_type': 11, 'second_record_subtype': 18, 'third_record_subtype': 20, 'record_length': "
  "256}, 'sar_image_data_line_number': 3364906953, 'sar_image_data_record_index': 2378702067, "
  "'actual_count_of_left_fill_pixels': 1224063067, 'actual_count_of_data_pixels': 2872709318, "
  "'actual_count_of_right_fill_pixels': 2902144823, 'sensor_parameters_update_flag': 2128380402, "
  "'sensor_acquisition_date': datetime.datetime(2015, 5, 3, 1, 16, 7, 890000), 'sar_channel_id': "
  "'dual_polarization', 'sar_channel_code': 'KA', 'transmitted_pulse_polarization': 2, "
  "'received_pulse_polarization': 'vertical', 'prf': (1948910283, {'units': 'mHz'}), 'scan_id': "
  "2933748478, 'slant_range_to_first_pixel': (1523623835, {'units': 'm'}), "
  "'slant_range_to_mid_pixel': (3974640166, {'units': 'm'}), 'slant_range_to_last_pixel': "
  "(373876836, {'units': 'm'}), 'doppler_centroid_value_at_first_pixel': (3461668.4390000002, "
  "{'units': 'Hz'}), 'doppler_centroid_value_at_mid_pixel': (1202743.109, {'units': 'Hz'}), "
  "'doppler_centroid_value_at_last_pixel': (4114684.082, {'units': 'Hz'}), "
  "'azimuth_fm_rate_of_first_pixel': (2351612768, {'units': 'Hz/ms'}), "
  "'azimuth_fm_rate_of_mid_pixel': (30375509, {'units': 'Hz/ms'}), "
  "'azimuth_fm_rate_of_last_pixel': (2278857940, {'units': 'Hz/ms'}), 'look_angle_of_nadir': "
  "(2451.4852809999998, {'units': 'deg'}), 'azimuth_squint_angle': (3620.770497, {'units': "
  "'deg'}), 'blanks1': b'HNR\\xf6\\x1b<EF\\xc4\\x7f\\xff5\\xf5:U\\x85\\xa4\\xd1Z<', "
  "'geographic_reference_parameter_update_flag': 82338461, 'latitude_of_first_pixel': "
  "(2305.032492, {'units': 'deg'}), 'latitude_of_center_pixel': (3882.355886, {'units': 'deg'}), "
  "'latitude_of_last_pixel': (324.57271, {'units': 'deg'}), 'longitude_of_first_pixel': "
  "(1088.02556, {'units': 'deg'}), 'longitude_of_center_pixel': (3805.132616, {'units': 'deg'}), "
  "'longitude_of_last_pixel': (2925.18073, {'units': 'deg'}), 'northing_of_first_pixel': "
  "(2531460531, {'units': 'm'}), 'blanks2': b'\\xd0\\r\\xf7\\xf6', 'northing_of_last_pixel': "
  "(3485081991, {'units': 'm'}), 'easting_of_first_pixel': (1209029931, {'units': 'm'}), "
  "'blanks3': b'.r\\xa9\\xe5', 'easting_of_last_pixel': (3045421305, {'units': 'm'}), "
  "'line_heading': (1361.7889069999999, {'units': 'deg'}), 'blanks4': "
  "b'\\xb6\\x8a\\xe8\\x80\\xd9\\x05\\x81\\xba', 'data': {'start': 192, 'size': 64, 'stop': 256}}"),
 ('truncated',
  197,
  "dict {'record_start': 0, 'preamble': {'record_sequence_number': 5, 'first_record_subtype': 50, "
  "'record_type': 11, 'second_record_subtype': 18, 'third_record_subtype': 20, 'record_length': "
  "256}, 'sar_image_data_line_number': 3364906953, 'sar_image_data_record_index': 2378702067, "
  "'actual_count_of_left_fill_pixels': 1224063067, 'actual_count_of_data_pixels': 2872709318, "
  "'actual_count_of_right_fill_pixels': 2902144823, 'sensor_parameters_update_flag': 2128380402, "
  "'sensor_acquisition_date': datetime.datetime(2015, 5, 3, 1, 16, 7, 890000), 'sar_channel_id': "
  "'dual_polarization', 'sar_channel_code': 'KA', 'transmitted_pulse_polarization': 2, "
  "'received_pulse_polarization': 'vertical', 'prf': (1948910283, {'units': 'mHz'}), 'scan_id': "
  "2933748478, 'slant_range_to_first_pixel': (1523623835, {'units': 'm'}), "
  "'slant_range_to_mid_pixel': (3974640166, {'units': 'm'}), 'slant_range_to_last_pixel': "
  "(373876836, {'units': 'm'}), 'doppler_centroid_value_at_first_pixel': (3461668.4390000002, "
  "{'units': 'Hz'}), 'doppler_centroid_value_at_mid_pixel': (1202743.109, {'units': 'Hz'}), "
  "'doppler_centroid_value_at_last_pixel': (4114684.082, {'units': 'Hz'}), "
  "'azimuth_fm_rate_of_first_pixel': (2351612768, {'units': 'Hz/ms'}), "
  "'azimuth_fm_rate_of_mid_pixel': (30375509, {'units': 'Hz/ms'}), "
  "'azimuth_fm_rate_of_last_pixel': (2278857940, {'units': 'Hz/ms'}), 'look_angle_of_nadir': "
  "(2451.4852809999998, {'units': 'deg'}), 'azimuth_squint_angle': (3620.770497, {'units': "
  "'deg'}), 'blanks1': b'HNR\\xf6\\x1b<EF\\xc4\\x7f\\xff5\\xf5:U\\x85\\xa4\\xd1Z<', "
  "'geographic_reference_parameter_update_flag': 82338461, 'latitude_of_first_pixel': "
  "(2305.032492, {'units': 'deg'}), 'latitude_of_center_pixel': (3882.355886, {'units': 'deg'}), "
  "'latitude_of_last_pixel': (324.57271, {'units': 'deg'}), 'longitude_of_first_pixel': "
  "(1088.02556, {'units': 'deg'}), 'longitude_of_center_pixel': (3805.132616, {'units': 'deg'}), "
  "'longitude_of_last_pixel': (2925.18073, {'units': 'deg'}), 'northing_of_first_pixel': "
  "(2531460531, {'units': 'm'}), 'blanks2': b'\\xd0\\r\\xf7\\xf6', 'northing_of_last_pixel': "
  "(3485081991, {'units': 'm'}), 'easting_of_first_pixel': (1209029931, {'units': 'm'}), "
  "'blanks3': b'.r\\xa9\\xe5', 'easting_of_last_pixel': (3045421305, {'units': 'm'}), "
  "'line_heading': (1361.7889069999999, {'units': 'deg'}), 'blanks4': "
  "b'\\xb6\\x8a\\xe8\\x80\\xd9\\x05\\x81\\xba', 'data': {'start': 192, 'size': 64, 'stop': 256}}"),
 ('truncated',
  198,
  "dict {'record_start': 0, 'preamble': {'record_sequence_number': 5, 'first_record_subtype': 50, "
  "'record_type': 11, 'second_record_subtype': 18, 'third_record_subtype': 20, 'record_length': "
  "256}, 'sar_image_data_line_number': 3364906953, 'sar_image_data_record_index': 2378702067, "
  "'actual_count_of_left_fill_pixels': 1224063067, 'actual_count_of_data_pixels': 2872709318, "
  "'actual_count_of_right_fill_pixels': 2902144823, 'sensor_parameters_update_flag': 2128380402, "
  "'sensor_acquisition_date': datetime.datetime(2015, 5, 3, 1, 16, 7, 890000), 'sar_channel_id': "
  "'dual_polarization', 'sar_channel_code': 'KA', 'transmitted_pulse_polarization': 2, "
  "'received_pulse_polarization': 'vertical', 'prf': (1948910283, {'units': 'mHz'}), 'scan_id': "
  "2933748478, 'slant_range_to_first_pixel': (1523623835, {'units': 'm'}), "
  "'slant_range_to_mid_pixel': (3974640166, {'units': 'm'}), 'slant_range_to_last_pixel': "
  "(373876836, {'units': 'm'}), 'doppler_centroid_value_at_first_pixel': (3461668.4390000002, "
  "{'units': 'Hz'}), 'doppler_centroid_value_at_mid_pixel': (1202743.109, {'units': 'Hz'}), "
  "'doppler_centroid_value_at_last_pixel': (4114684.082, {'units': 'Hz'}), "
  "'azimuth_fm_rate_of_first_pixel': (2351612768, {'units': 'Hz/ms'}), "
  "'azimuth_fm_rate_of_mid_pixel': (30375509, {'units': 'Hz/ms'}), "
  "'azimuth_fm_rate_of_last_pixel': (2278857940, {'units': 'Hz/ms'}), 'look_angle_of_nadir': "
  "(2451.4852809999998, {'units': 'deg'}), 'azimuth_squint_angle': (3620.770497, {'units': "
  "'deg'}), 'blanks1': b'HNR\\xf6\\x1b<EF\\xc4\\x7f\\xff5\\xf5:U\\x85\\xa4\\xd1Z<', "
  "'geographic_reference_parameter_update_flag': 82338461, 'latitude_of_first_pixel': "
  "(2305.032492, {'units': 'deg'}), 'latitude_of_center_pixel': (3882.355886, {'units': 'deg'}), "
  "'latitude_of_last_pixel': (324.57271, {'units': 'deg'}), 'longitude_of_first_pixel': "
  "(1088.02556, {'units': 'deg'}), 'longitude_of_center_pixel': (3805.132616, {'units': 'deg'}), "
  "'longitude_of_last_pixel': (2925.18073, {'units': 'deg'}), 'northing_of_first_pixel': "
  "(2531460531, {'units': 'm'}), 'blanks2': b'\\xd0\\r\\xf7\\xf6', 'northing_of_last_pixel': "
  "(3485081991, {'units': 'm'}), 'easting_of_first_pixel': (1209029931, {'units': 'm'}), "
  "'blanks3': b'.r\\xa9\\xe5', 'easting_of_last_pixel': (3045421305, {'units': 'm'}), "
  "'line_heading': (1361.7889069999999, {'units': 'deg'}), 'blanks4': "
  "b'\\xb6\\x8a\\xe8\\x80\\xd9\\x05\\x81\\xba', 'data': {'start': 192, 'size': 64, 'stop': 256}}"),
 ('truncated',
  199,
  "dict {'record_start': 0, 'preamble': {'record_sequence_number': 5, 'first_record_subtype': 50, "
  "'record_type': 11, 'second_record_subtype': 18, 'third_record_subtype': 20, 'record_length': "
  "256}, 'sar_image_data_line_number': 3364906953, 'sar_image_data_record_index': 2378702067, "
  "'actual_count_of_left_fill_pixels': 1224063067, 'actual_count_of_data_pixels': 2872709318, "
  "'actual_count_of_right_fill_pixels': 2902144823, 'sensor_parameters_update_flag': 2128380402, "
  "'sensor_acquisition_date': datetime.datetime(2015, 5, 3, 1, 16, 7, 890000), 'sar_channel_id': "
  "'dual_polarization', 'sar_channel_code': 'KA', 'transmitted_pulse_polarization': 2, "
  "'received_pulse_polarization': 'vertical', 'prf': (1948910283, {'units': 'mHz'}), 'scan_id': "
  "2933748478, 'slant_range_to_first_pixel': (1523623835, {'units': 'm'}), "
  "'slant_range_to_mid_pixel': (3974640166, {'units': 'm'}), 'slant_range_to_last_pixel': "
  "(373876836, {'units': 'm'}), 'doppler_centroid_value_at_first_pixel': (3461668.4390000002, "
  "{'units': 'Hz'}), 'doppler_centroid_value_at_mid_pixel': (1202743.109, {'units': 'Hz'}), "
  "'doppler_centroid_value_at_last_pixel': (4114684.082, {'units': 'Hz'}), "
  "'azimuth_fm_rate_of_first_pixel': (2351612768, {'units': 'Hz/ms'}), "
  "'azimuth_fm_rate_of_mid_pixel': (30375509, {'units': 'Hz/ms'}), "
  "'azimuth_fm_rate_of_last_pixel': (2278857940, {'units': 'Hz/ms'}), 'look_angle_of_nadir': "
  "(2451.4852809999998, {'units': 'deg'}), 'azimuth_squint_angle': (3620.770497, {'units': "
  "'deg'}), 'blanks1': b'HNR\\xf6\\x1b<EF\\xc4\\x7f\\xff5\\xf5:U\\x85\\xa4\\xd1Z<', "
  "'geographic_reference_parameter_update_flag': 82338461, 'latitude_of_first_pixel': "
  "(2305.032492, {'units': 'deg'}), 'latitude_of_center_pixel': (3882.355886, {'units': 'deg'}), "
  "'latitude_of_last_pixel': (324.57271, {'units': 'deg'}), 'longitude_of_first_pixel': "
  "(1088.02556, {'units': 'deg'}), 'longitude_of_center_pixel': (3805.132616, {'units': 'deg'}), "
  "'longitude_of_last_pixel': (2925.18073, {'units': 'deg'}), 'northing_of_first_pixel': "
  "(2531460531, {'units': 'm'}), 'blanks2': b'\\xd0\\r\\xf7\\xf6', 'northing_of_last_pixel': "
  "(3485081991, {'units': 'm'}), 'easting_of_first_pixel': (1209029931, {'units': 'm'}), "
  "'blanks3': b'.r\\xa9\\xe5', 'easting_of_last_pixel': (3045421305, {'units': 'm'}), "
  "'line_heading': (1361.7889069999999, {'units': 'deg'}), 'blanks4': "
  "b'\\xb6\\x8a\\xe8\\x80\\xd9\\x05\\x81\\xba', 'data': {'start': 192, 'size': 64, 'stop': 256}}"),
 ('stream offset', 0, "tuple (0, {'start': 192, 'size': 108, 'stop': 300}, 300)"),
 ('stream offset', 1, "tuple (1, {'start': 193, 'size': 108, 'stop': 301}, 301)"),
 ('stream offset', 720, "tuple (720, {'start': 912, 'size': 108, 'stop': 1020}, 1020)"),
 ('stream offset', 12345, "tuple (12345, {'start': 12537, 'size': 108, 'stop': 12645}, 12645)"),
 ('array', 0, 'list []'),
 ('array', 1, "list [(0, 1952164105, {'start': 192, 'size': 0, 'stop': 192})]"),
 ('array',
  2,
  "list [(0, 1952164105, {'start': 192, 'size': 0, 'stop': 192}), (192, 145573645, {'start': 384, "
  "'size': 8, 'stop': 392})]"),
 ('array',
  3,
  "list [(0, 1952164105, {'start': 192, 'size': 0, 'stop': 192}), (192, 145573645, {'start': 384, "
  "'size': 8, 'stop': 392}), (392, 2634016017, {'start': 584, 'size': 64, 'stop': 648})]"),
 ('array',
  4,
  "list [(0, 1952164105, {'start': 192, 'size': 0, 'stop': 192}), (192, 145573645, {'start': 384, "
  "'size': 8, 'stop': 392}), (392, 2634016017, {'start': 584, 'size': 64, 'stop': 648}), (648, "
  "810648342, {'start': 840, 'size': 808, 'stop': 1648})]"),
 ('array',
  5,
  "list [(0, 1952164105, {'start': 192, 'size': 0, 'stop': 192}), (192, 145573645, {'start': 384, "
  "'size': 8, 'stop': 392}), (392, 2634016017, {'start': 584, 'size': 64, 'stop': 648}), (648, "
  "810648342, {'start': 840, 'size': 808, 'stop': 1648}), (1648, 3299025178, {'start': 1840, "
  "'size': 0, 'stop': 1840})]"),
 ('array',
  6,
  "list [(0, 1952164105, {'start': 192, 'size': 0, 'stop': 192}), (192, 145573645, {'start': 384, "
  "'size': 8, 'stop': 392}), (392, 2634016017, {'start': 584, 'size': 64, 'stop': 648}), (648, "
  "810648342, {'start': 840, 'size': 808, 'stop': 1648}), (1648, 3299025178, {'start': 1840, "
  "'size': 0, 'stop': 1840}), (1840, 1492500254, {'start': 2032, 'size': 141, 'stop': 2173})]"),
 ('array',
  7,
  'raised construct.core.StreamError: Error in path (parsing) -> preamble -> '
  'record_sequence_number\n'
  'stream read less than specified amount, expected 4, found 0'),
 ('parse_chunk', 300, "str '796d5d57e29fe061d810c65e347dabb495514b01cfcbb5f88f13b047b6868ea1'"),
 ('parse_chunk',
  150,
  'raised construct.core.StreamError: Error in path (parsing) -> preamble -> '
  'record_sequence_number\n'
  'stream read less than specified amount, expected 4, found 0'),
 ('parse_chunk',
  100,
  'raised construct.core.StreamError: Error in path (parsing) -> preamble -> '
  'record_sequence_number\n'
  'stream read less than specified amount, expected 4, found 0'),
 ('parse_chunk',
  299,
  'raised builtins.ValueError: sizes mismatch: chunksize is 1495 but got 1500 bytes'),
 ('parse_chunk', 1500, "str 'e2e2687a6f2e1dc49b643e3ba0b1a77939f40e0271ae3cf1456c9a8cd94aeef1'"),
 ('bulk first',
  "dict {'record_start': 0, 'preamble': {'record_sequence_number': 100, 'first_record_subtype': "
  "50, 'record_type': 11, 'second_record_subtype': 18, 'third_record_subtype': 20, "
  "'record_length': 192}, 'sar_image_data_line_number': 3018787677, 'sar_image_data_record_index': "
  "1840613586, 'actual_count_of_left_fill_pixels': 2403719283, 'actual_count_of_data_pixels': "
  "2109078902, 'actual_count_of_right_fill_pixels': 3679993167, 'sensor_parameters_update_flag': "
  "2395086000, 'sensor_acquisition_date': datetime.datetime(2030, 4, 11, 0, 1, 37, 700000), "
  "'sar_channel_id': 'single_polarization', 'sar_channel_code': 'C', "
  "'transmitted_pulse_polarization': 'vertical', 'received_pulse_polarization': 'horizontal', "
  "'prf': (125414683, {'units': 'mHz'}), 'scan_id': 4169551853, 'slant_range_to_first_pixel': "
  "(1559932905, {'units': 'm'}), 'slant_range_to_mid_pixel': (1504350465, {'units': 'm'}), "
  "'slant_range_to_last_pixel': (1386805867, {'units': 'm'}), "
  "'doppler_centroid_value_at_first_pixel': (3964284.3140000002, {'units': 'Hz'}), "
  "'doppler_centroid_value_at_mid_pixel': (153398.851, {'units': 'Hz'}), "
  "'doppler_centroid_value_at_last_pixel': (3473424.985, {'units': 'Hz'}), "
  "'azimuth_fm_rate_of_first_pixel': (2701978640, {'units': 'Hz/ms'}), "
  "'azimuth_fm_rate_of_mid_pixel': (612626652, {'units': 'Hz/ms'}), "
  "'azimuth_fm_rate_of_last_pixel': (973263473, {'units': 'Hz/ms'}), 'look_angle_of_nadir': "
  "(156.981188, {'units': 'deg'}), 'azimuth_squint_angle': (4104.42164, {'units': 'deg'}), "
  "'blanks1': b'\\xa00\\x96\\xb1\\xef\\x93\\x1at\\x07\\xa2\\xcfCKp\\xbbT`Q!\\x1a', "
  "'geographic_reference_parameter_update_flag': 685344074, 'latitude_of_first_pixel': "
  "(3386.748119, {'units': 'deg'}), 'latitude_of_center_pixel': (2792.3970449999997, {'units': "
  "'deg'}), 'latitude_of_last_pixel': (1692.831512, {'units': 'deg'}), 'longitude_of_first_pixel': "
  "(3872.5933959999998, {'units': 'deg'}), 'longitude_of_center_pixel': (1326.247038, {'units': "
  "'deg'}), 'longitude_of_last_pixel': (111.352553, {'units': 'deg'}), 'northing_of_first_pixel': "
  '(2901402281, {\'units\': \'m\'}), \'blanks2\': b"\'\\x81\\xc8r", \'northing_of_last_pixel\': '
  "(2569965881, {'units': 'm'}), 'easting_of_first_pixel': (1762345009, {'units': 'm'}), "
  "'blanks3': b'8k\\x19\\xce', 'easting_of_last_pixel': (3974340805, {'units': 'm'}), "
  "'line_heading': (2823.133448, {'units': 'deg'}), 'blanks4': "
  "b'\\xd0\\xa7\\t\\xcd\\x08\\\\3\\x88', 'data': {'start': 192, 'size': 0, 'stop': 192}}"),
 ('bulk digest', '1d3d1e644988f4d0c861d0ccfe80219ea4872707cff66193a676e6a1ae2251ec'),
 ('metadata fields',
  ['prf',
   'slant_range_to_first_pixel',
   'slant_range_to_mid_pixel',
   'slant_range_to_last_pixel',
   'doppler_centroid_value_at_first_pixel',
   'doppler_centroid_value_at_mid_pixel',
   'doppler_centroid_value_at_last_pixel',
   'azimuth_fm_rate_of_first_pixel',
   'azimuth_fm_rate_of_mid_pixel',
   'azimuth_fm_rate_of_last_pixel',
   'look_angle_of_nadir',
   'azimuth_squint_angle',
   'latitude_of_first_pixel',
   'latitude_of_center_pixel',
   'latitude_of_last_pixel',
   'longitude_of_first_pixel',
   'longitude_of_center_pixel',
   'longitude_of_last_pixel',
   'northing_of_first_pixel',
   'northing_of_last_pixel',
   'easting_of_first_pixel',
   'easting_of_last_pixel',
   'line_heading']),
 ('distinct attrs', 23),
 ('stable attrs', True),
 ('attrs',
  [{'units': 'mHz'},
   {'units': 'm'},
   {'units': 'm'},
   {'units': 'm'},
   {'units': 'Hz'},
   {'units': 'Hz'},
   {'units': 'Hz'},
   {'units': 'Hz/ms'},
   {'units': 'Hz/ms'},
   {'units': 'Hz/ms'},
   {'units': 'deg'},
   {'units': 'deg'},
   {'units': 'deg'},
   {'units': 'deg'},
   {'units': 'deg'},
   {'units': 'deg'},
   {'units': 'deg'},
   {'units': 'deg'},
   {'units': 'm'},
   {'units': 'm'},
   {'units': 'm'},
   {'units': 'm'},
   {'units': 'deg'}]),
 ('value types',
  ['int',
   'int',
   'int',
   'int',
   'float',
   'float',
   'float',
   'int',
   'int',
   'int',
   'float',
   'float',
   'float',
   'float',
   'float',
   'float',
   'float',
   'float',
   'int',
   'int',
   'int',
   'int',
   'float']),
 ('build', 'raised builtins.NotImplementedError: '),
 ('construct', '2.10.70')]


def test_equivalence():
    observed = observe()
    assert len(observed) == len(EXPECTED)
    for actual, expected in zip(observed, EXPECTED):
        assert actual == expected
    assert observed == EXPECTED


if __name__ == "__main__":
    test_equivalence()
    print(f"ok: {len(EXPECTED)} observations identical")
