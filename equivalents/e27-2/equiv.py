"""Equivalence check for refactoring 2 (``ceos_alos2.summary.parse_summary``).

Run as a script or with pytest; must pass with and without ``patch.diff``.
``EXPECTED`` at the bottom was recorded from the unchanged code (``python equiv.py --record``).
"""

import sys

import fsspec

from ceos_alos2 import summary

try:
    ExceptionGroup
except NameError:  # pragma: no cover
    from exceptiongroup import ExceptionGroup

CASES = {
    "empty": "",
    "single": 'Scs_SceneShift="0"',
    "two_sections": 'Scs_SceneShift="0"\nPds_ProductID="WWDR1.1__D"',
    "trailing_newline": 'Scs_SceneShift="0"\nPds_ProductID="WWDR1.1__D"\n',
    "crlf": 'Scs_SceneShift="0"\r\nPds_ProductID="WWDR1.1__D"\r\n',
    "other_separators": 'Odi_A="1"\x0bOdi_B="2"\x0cOdi_C="3"\x1cOdi_D="4" Odi_E="5"',
    "interleaved_sections": 'Aaa_x="1"\nBbb_y="2"\nAaa_z="3"\nCcc_w="4"\nBbb_v="5"\nAaa_u="6"',
    "duplicate_keyword": 'Aaa_x="1"\nAaa_y="2"\nAaa_x="3"',
    "duplicate_keyword_across": 'Aaa_x="1"\nBbb_x="2"\nAaa_y="3"\nAaa_x="4"\nBbb_x="5"',
    "case_collision": 'Pdi_a="1"\nOdi_q="0"\nPDI_b="2"\npdi_c="3"',
    "case_collision_reverse": 'pdi_c="3"\nOdi_q="0"\nPdi_a="1"',
    "empty_value": 'Ach_Check=""\nAch_Other=" "',
    "empty_keyword": 'Ach_=""',
    "value_with_quotes": 'Lbi_Title="a "quoted" word"',
    "value_with_equals": 'Lbi_Title="a=b"\nLbi_x_y_z="Img_k="v""',
    "keyword_with_equals": 'Lbi_a="b"="c"',
    "keyword_with_underscores": 'Pdi_NoOfPixels_0="100"\nPdi_NoOfLines_0="200"',
    "unicode": 'Lbi_Ünï="日本"',
    "non_ascii_section_rejected": 'Lbï_x="1"',
    "upper_lower_sections": 'ABC_k="1"\nabc_k="2"\nAbC_j="3"',
    "realistic": "\n".join(
        [
            'Odi_SiteDateTime="20190109 045518"',
            'Scs_SceneID="ALOS2225333200-180726"',
            'Scs_SceneShift="0"',
            'Pds_ProductID="WWDR1.1__D"',
            'Pds_ResamplingMethod="NN"',
            'Pds_UTM_ZoneNo=""',
            'Img_SceneCenterDateTime="20180726 15:45:21.000"',
            'Img_SceneLeftTopLatitude="-1.234"',
            'Pdi_CntOfL11ProductFileName="4"',
            'Pdi_L11ProductFileName01="VOL-ALOS2225333200-180726-WWDR1.1__D"',
            'Pdi_L11ProductFileName02="LED-ALOS2225333200-180726-WWDR1.1__D"',
            'Pdi_L11ProductFileName03="IMG-HH-ALOS2225333200-180726-WWDR1.1__D-F1"',
            'Pdi_L11ProductFileName04="TRL-ALOS2225333200-180726-WWDR1.1__D"',
            'Pdi_BitPixel="32"',
            'Pdi_NoOfPixels_0="1000"',
            'Pdi_NoOfLines_0="2000"',
            'Ach_TimeCheck=""',
            'Rad_PracticeResultCode="GOOD"',
            'Lbi_Satellite="ALOS2"',
            'Lbi_ProcessFacility="SCMO"',
        ]
    ),
    # failures
    "invalid_both": 'Scs_SceneShift"0"\nPdsProductID="WWDR1.1__D"',
    "invalid_middle": 'Scs_SceneShift="0"\nnot a line\nPds_ProductID="WWDR1.1__D"',
    "blank_line": 'Scs_SceneShift="0"\n\nPds_ProductID="WWDR1.1__D"',
    "only_newline": "\n",
    "whitespace": ' Scs_SceneShift="0"',
    "trailing_space": 'Scs_SceneShift="0" ',
    "short_section": 'Sc_SceneShift="0"',
    "long_section": 'Scsx_SceneShift="0"',
    "digit_section": 'S1s_SceneShift="0"',
    "single_quotes": "Scs_SceneShift='0'",
    "missing_quote": 'Scs_SceneShift="0',
    "lone_cr": 'Scs_A="1"\rScs_B="2"\r\rScs_C="3"',
    "many_invalid": "\n".join(["bad"] * 12 + ['Scs_A="1"'] + ["worse"] * 3),
    "line_100": "\n".join(['Scs_A="1"'] * 100 + ["bad"] + ['Scs_A="1"'] * 899 + ["bad"]),
}

# inputs that are not text at all: the failure has to come from the same place
ODD_INPUTS = {
    "bytes": b'Scs_SceneShift="0"',
    "none": None,
    "list": ['Scs_SceneShift="0"'],
    "int": 1,
}

# raw file contents for ``open_summary`` (decoded as utf-8 before parsing)
FILES = {
    "plain": b'Scs_SceneShift="3"\nAch_Check=""\n',
    "utf8": 'Lbi_Title="日本"'.encode(),
    "latin1": 'Lbi_Title="é"'.encode("latin-1"),
    "invalid": b"garbage\nmore garbage",
    "empty": b"",
}


def describe_exception(e):
    described = (type(e).__name__, e.args if not isinstance(e, ExceptionGroup) else e.message)
    if isinstance(e, ExceptionGroup):
        described += ([describe_exception(sub) for sub in e.exceptions],)
    described += (
        type(e.__cause__).__name__,
        type(e.__context__).__name__,
    )
    return described


def describe_value(value):
    if isinstance(value, dict):
        return (type(value).__name__, [(k, describe_value(v)) for k, v in value.items()])
    return (type(value).__name__, value)


def run(func, *args):
    try:
        result = func(*args)
    except BaseException as e:
        return ("raised", describe_exception(e))
    return ("returned", describe_value(result))


def describe_group(group):
    return (
        type(group).__name__,
        group.path,
        group.url,
        list(group.attrs.items()),
        [(name, describe_group(sub)) for name, sub in group.data.items()],
    )


def run_open(name, content):
    fs = fsspec.filesystem("memory")
    root = f"/eq2/{name}"
    fs.pipe(f"{root}/summary.txt", content)
    mapper = fsspec.get_mapper(f"memory://{root}")
    try:
        result = summary.open_summary(mapper, "summary.txt")
    except BaseException as e:
        return ("raised", describe_exception(e))
    return ("returned", describe_group(result))


def collect():
    results = {}
    for name, content in CASES.items():
        results[f"parse:{name}"] = run(summary.parse_summary, content)
    for name, content in ODD_INPUTS.items():
        results[f"odd:{name}"] = run(summary.parse_summary, content)
    for name, content in FILES.items():
        results[f"open:{name}"] = run_open(name, content)
    return results


def test_results_match_recording():
    results = collect()
    assert list(results) == list(EXPECTED)
    for name, actual in results.items():
        assert actual == EXPECTED[name], name


def test_result_is_independent_of_the_input_entries():
    # the returned mapping and its sections are fresh dicts on every call
    content = CASES["interleaved_sections"]
    first = summary.parse_summary(content)
    second = summary.parse_summary(content)
    assert first == second and first is not second
    assert all(first[k] is not second[k] for k in first)
    first["aaa"]["x"] = "changed"
    assert summary.parse_summary(content)["aaa"]["x"] == "1"


def test_errors_are_the_original_exceptions_with_rewritten_args():
    created = []
    original = summary.parse_line

    def recording_parse_line(line):
        try:
            return original(line)
        except ValueError as e:
            created.append(e)
            raise

    summary.parse_line = recording_parse_line
    try:
        try:
            summary.parse_summary('bad\nAaa_b="c"\nworse')
        except ExceptionGroup as group:
            assert len(group.exceptions) == 2
            assert all(a is b for a, b in zip(group.exceptions, created))
            assert [e.args for e in created] == [
                ("line 00: invalid line",),
                ("line 02: invalid line",),
            ]
        else:
            raise AssertionError("expected an ExceptionGroup")
    finally:
        summary.parse_line = original


def test_every_line_is_parsed_once_and_in_order_even_after_failures():
    seen = []
    original = summary.parse_line

    def recording_parse_line(line):
        seen.append(line)
        return original(line)

    summary.parse_line = recording_parse_line
    try:
        try:
            summary.parse_summary('bad\nAaa_b="c"\nworse\nAaa_d="e"')
        except ExceptionGroup:
            pass
    finally:
        summary.parse_line = original
    assert seen == ["bad", 'Aaa_b="c"', "worse", 'Aaa_d="e"']


def test_other_exceptions_are_not_collected():
    original = summary.parse_line
    error = KeyError("boom")

    def failing_parse_line(line):
        if line == "boom":
            raise error
        return original(line)

    summary.parse_line = failing_parse_line
    try:
        try:
            summary.parse_summary("bad\nboom\nbad")
        except KeyError as e:
            assert e is error
        else:
            raise AssertionError("expected a KeyError")
    finally:
        summary.parse_line = original


EXPECTED = {'parse:empty': ('returned', ('dict', [])),
 'parse:single': ('returned', ('dict', [('scs', ('dict', [('SceneShift', ('str', '0'))]))])),
 'parse:two_sections': ('returned',
                        ('dict',
                         [('scs', ('dict', [('SceneShift', ('str', '0'))])),
                          ('pds', ('dict', [('ProductID', ('str', 'WWDR1.1__D'))]))])),
 'parse:trailing_newline': ('returned',
                            ('dict',
                             [('scs', ('dict', [('SceneShift', ('str', '0'))])),
                              ('pds', ('dict', [('ProductID', ('str', 'WWDR1.1__D'))]))])),
 'parse:crlf': ('returned',
                ('dict',
                 [('scs', ('dict', [('SceneShift', ('str', '0'))])),
                  ('pds', ('dict', [('ProductID', ('str', 'WWDR1.1__D'))]))])),
 'parse:other_separators': ('returned',
                            ('dict',
                             [('odi',
                               ('dict',
                                [('A', ('str', '1')),
                                 ('B', ('str', '2')),
                                 ('C', ('str', '3')),
                                 ('D', ('str', '4')),
                                 ('E', ('str', '5'))]))])),
 'parse:interleaved_sections': ('returned',
                                ('dict',
                                 [('aaa',
                                   ('dict',
                                    [('x', ('str', '1')),
                                     ('z', ('str', '3')),
                                     ('u', ('str', '6'))])),
                                  ('bbb', ('dict', [('y', ('str', '2')), ('v', ('str', '5'))])),
                                  ('ccc', ('dict', [('w', ('str', '4'))]))])),
 'parse:duplicate_keyword': ('returned',
                             ('dict',
                              [('aaa', ('dict', [('x', ('str', '3')), ('y', ('str', '2'))]))])),
 'parse:duplicate_keyword_across': ('returned',
                                    ('dict',
                                     [('aaa', ('dict', [('x', ('str', '4')), ('y', ('str', '3'))])),
                                      ('bbb', ('dict', [('x', ('str', '5'))]))])),
 'parse:case_collision': ('returned',
                          ('dict',
                           [('pdi', ('dict', [('c', ('str', '3'))])),
                            ('odi', ('dict', [('q', ('str', '0'))]))])),
 'parse:case_collision_reverse': ('returned',
                                  ('dict',
                                   [('pdi', ('dict', [('a', ('str', '1'))])),
                                    ('odi', ('dict', [('q', ('str', '0'))]))])),
 'parse:empty_value': ('returned',
                       ('dict',
                        [('ach', ('dict', [('Check', ('str', '')), ('Other', ('str', ' '))]))])),
 'parse:empty_keyword': ('returned', ('dict', [('ach', ('dict', [('', ('str', ''))]))])),
 'parse:value_with_quotes': ('returned',
                             ('dict',
                              [('lbi', ('dict', [('Title', ('str', 'a "quoted" word'))]))])),
 'parse:value_with_equals': ('returned',
                             ('dict',
                              [('lbi',
                                ('dict',
                                 [('Title', ('str', 'a=b')), ('x_y_z', ('str', 'Img_k="v"'))]))])),
 'parse:keyword_with_equals': ('returned',
                               ('dict', [('lbi', ('dict', [('a', ('str', 'b"="c'))]))])),
 'parse:keyword_with_underscores': ('returned',
                                    ('dict',
                                     [('pdi',
                                       ('dict',
                                        [('NoOfPixels_0', ('str', '100')),
                                         ('NoOfLines_0', ('str', '200'))]))])),
 'parse:unicode': ('returned', ('dict', [('lbi', ('dict', [('Ünï', ('str', '日本'))]))])),
 'parse:non_ascii_section_rejected': ('raised',
                                      ('ExceptionGroup',
                                       'failed to parse the summary',
                                       [('ValueError',
                                         ('line 00: invalid line',),
                                         'NoneType',
                                         'NoneType')],
                                       'NoneType',
                                       'NoneType')),
 'parse:upper_lower_sections': ('returned', ('dict', [('abc', ('dict', [('j', ('str', '3'))]))])),
 'parse:realistic': ('returned',
                     ('dict',
                      [('odi', ('dict', [('SiteDateTime', ('str', '20190109 045518'))])),
                       ('scs',
                        ('dict',
                         [('SceneID', ('str', 'ALOS2225333200-180726')),
                          ('SceneShift', ('str', '0'))])),
                       ('pds',
                        ('dict',
                         [('ProductID', ('str', 'WWDR1.1__D')),
                          ('ResamplingMethod', ('str', 'NN')),
                          ('UTM_ZoneNo', ('str', ''))])),
                       ('img',
                        ('dict',
                         [('SceneCenterDateTime', ('str', '20180726 15:45:21.000')),
                          ('SceneLeftTopLatitude', ('str', '-1.234'))])),
                       ('pdi',
                        ('dict',
                         [('CntOfL11ProductFileName', ('str', '4')),
                          ('L11ProductFileName01', ('str', 'VOL-ALOS2225333200-180726-WWDR1.1__D')),
                          ('L11ProductFileName02', ('str', 'LED-ALOS2225333200-180726-WWDR1.1__D')),
                          ('L11ProductFileName03',
                           ('str', 'IMG-HH-ALOS2225333200-180726-WWDR1.1__D-F1')),
                          ('L11ProductFileName04', ('str', 'TRL-ALOS2225333200-180726-WWDR1.1__D')),
                          ('BitPixel', ('str', '32')),
                          ('NoOfPixels_0', ('str', '1000')),
                          ('NoOfLines_0', ('str', '2000'))])),
                       ('ach', ('dict', [('TimeCheck', ('str', ''))])),
                       ('rad', ('dict', [('PracticeResultCode', ('str', 'GOOD'))])),
                       ('lbi',
                        ('dict',
                         [('Satellite', ('str', 'ALOS2')),
                          ('ProcessFacility', ('str', 'SCMO'))]))])),
 'parse:invalid_both': ('raised',
                        ('ExceptionGroup',
                         'failed to parse the summary',
                         [('ValueError', ('line 00: invalid line',), 'NoneType', 'NoneType'),
                          ('ValueError', ('line 01: invalid line',), 'NoneType', 'NoneType')],
                         'NoneType',
                         'NoneType')),
 'parse:invalid_middle': ('raised',
                          ('ExceptionGroup',
                           'failed to parse the summary',
                           [('ValueError', ('line 01: invalid line',), 'NoneType', 'NoneType')],
                           'NoneType',
                           'NoneType')),
 'parse:blank_line': ('raised',
                      ('ExceptionGroup',
                       'failed to parse the summary',
                       [('ValueError', ('line 01: invalid line',), 'NoneType', 'NoneType')],
                       'NoneType',
                       'NoneType')),
 'parse:only_newline': ('raised',
                        ('ExceptionGroup',
                         'failed to parse the summary',
                         [('ValueError', ('line 00: invalid line',), 'NoneType', 'NoneType')],
                         'NoneType',
                         'NoneType')),
 'parse:whitespace': ('raised',
                      ('ExceptionGroup',
                       'failed to parse the summary',
                       [('ValueError', ('line 00: invalid line',), 'NoneType', 'NoneType')],
                       'NoneType',
                       'NoneType')),
 'parse:trailing_space': ('raised',
                          ('ExceptionGroup',
                           'failed to parse the summary',
                           [('ValueError', ('line 00: invalid line',), 'NoneType', 'NoneType')],
                           'NoneType',
                           'NoneType')),
 'parse:short_section': ('raised',
                         ('ExceptionGroup',
                          'failed to parse the summary',
                          [('ValueError', ('line 00: invalid line',), 'NoneType', 'NoneType')],
                          'NoneType',
                          'NoneType')),
 'parse:long_section': ('raised',
                        ('ExceptionGroup',
                         'failed to parse the summary',
                         [('ValueError', ('line 00: invalid line',), 'NoneType', 'NoneType')],
                         'NoneType',
                         'NoneType')),
 'parse:digit_section': ('raised',
                         ('ExceptionGroup',
                          'failed to parse the summary',
                          [('ValueError', ('line 00: invalid line',), 'NoneType', 'NoneType')],
                          'NoneType',
                          'NoneType')),
 'parse:single_quotes': ('raised',
                         ('ExceptionGroup',
                          'failed to parse the summary',
                          [('ValueError', ('line 00: invalid line',), 'NoneType', 'NoneType')],
                          'NoneType',
                          'NoneType')),
 'parse:missing_quote': ('raised',
                         ('ExceptionGroup',
                          'failed to parse the summary',
                          [('ValueError', ('line 00: invalid line',), 'NoneType', 'NoneType')],
                          'NoneType',
                          'NoneType')),
 'parse:lone_cr': ('raised',
                   ('ExceptionGroup',
                    'failed to parse the summary',
                    [('ValueError', ('line 02: invalid line',), 'NoneType', 'NoneType')],
                    'NoneType',
                    'NoneType')),
 'parse:many_invalid': ('raised',
                        ('ExceptionGroup',
                         'failed to parse the summary',
                         [('ValueError', ('line 00: invalid line',), 'NoneType', 'NoneType'),
                          ('ValueError', ('line 01: invalid line',), 'NoneType', 'NoneType'),
                          ('ValueError', ('line 02: invalid line',), 'NoneType', 'NoneType'),
                          ('ValueError', ('line 03: invalid line',), 'NoneType', 'NoneType'),
                          ('ValueError', ('line 04: invalid line',), 'NoneType', 'NoneType'),
                          ('ValueError', ('line 05: invalid line',), 'NoneType', 'NoneType'),
                          ('ValueError', ('line 06: invalid line',), 'NoneType', 'NoneType'),
                          ('ValueError', ('line 07: invalid line',), 'NoneType', 'NoneType'),
                          ('ValueError', ('line 08: invalid line',), 'NoneType', 'NoneType'),
                          ('ValueError', ('line 09: invalid line',), 'NoneType', 'NoneType'),
                          ('ValueError', ('line 10: invalid line',), 'NoneType', 'NoneType'),
                          ('ValueError', ('line 11: invalid line',), 'NoneType', 'NoneType'),
                          ('ValueError', ('line 13: invalid line',), 'NoneType', 'NoneType'),
                          ('ValueError', ('line 14: invalid line',), 'NoneType', 'NoneType'),
                          ('ValueError', ('line 15: invalid line',), 'NoneType', 'NoneType')],
                         'NoneType',
                         'NoneType')),
 'parse:line_100': ('raised',
                    ('ExceptionGroup',
                     'failed to parse the summary',
                     [('ValueError', ('line 100: invalid line',), 'NoneType', 'NoneType'),
                      ('ValueError', ('line 1000: invalid line',), 'NoneType', 'NoneType')],
                     'NoneType',
                     'NoneType')),
 'odd:bytes': ('raised',
               ('TypeError',
                ('cannot use a string pattern on a bytes-like object',),
                'NoneType',
                'NoneType')),
 'odd:none': ('raised',
              ('AttributeError',
               ("'NoneType' object has no attribute 'splitlines'",),
               'NoneType',
               'NoneType')),
 'odd:list': ('raised',
              ('AttributeError',
               ("'list' object has no attribute 'splitlines'",),
               'NoneType',
               'NoneType')),
 'odd:int': ('raised',
             ('AttributeError',
              ("'int' object has no attribute 'splitlines'",),
              'NoneType',
              'NoneType')),
 'open:plain': ('returned',
                ('Group',
                 'summary',
                 None,
                 [],
                 [('scene_specification',
                   ('Group', 'summary/scene_specification', None, [('SceneShift', 3)], [])),
                  ('autocheck', ('Group', 'summary/autocheck', None, [('Check', 'N/A')], []))])),
 'open:utf8': ('returned',
               ('Group',
                'summary',
                None,
                [],
                [('label_information',
                  ('Group', 'summary/label_information', None, [('Title', '日本')], []))])),
 'open:latin1': ('raised',
                 ('UnicodeDecodeError',
                  ('utf-8', b'Lbi_Title="\xe9"', 11, 12, 'invalid continuation byte'),
                  'NoneType',
                  'NoneType')),
 'open:invalid': ('raised',
                  ('ExceptionGroup',
                   'failed to parse the summary',
                   [('ValueError', ('line 00: invalid line',), 'NoneType', 'NoneType'),
                    ('ValueError', ('line 01: invalid line',), 'NoneType', 'NoneType')],
                   'NoneType',
                   'NoneType')),
 'open:empty': ('returned', ('Group', 'summary', None, [], []))}


if __name__ == "__main__":
    if "--record" in sys.argv:
        import pprint

        print("EXPECTED = " + pprint.pformat(collect(), width=100, sort_dicts=False))
        raise SystemExit(0)

    tests = [obj for name, obj in sorted(globals().items()) if name.startswith("test_")]
    for test in tests:
        test()
        print("ok", test.__name__)
    print(f"{len(tests)} checks passed ({summary.__file__})")
