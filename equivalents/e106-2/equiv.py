"""Equivalence check for refactoring 2 (sar_image/processed_data.py, sar_image/enums.py).

Expected values were recorded from the unchanged code.
Run: PYTHONPATH=/tmp/wt13/e106 /venv/bin/python _eq/2/equiv.py
"""
import datetime
import hashlib
import io
import struct

import construct
from construct import Int8ub, Int16ub, Int32ub, Int64ub

from ceos_alos2.datatypes import Factor, Metadata
from ceos_alos2.sar_image import enums, processed_data, signal_data
from ceos_alos2.sar_image.processed_data import processed_data_record

EXPECTED_SIGNATURE = "9569c266e67e97926c41062f30c4fc56a1b2445734fa6f7200b60c13b97703ec"


def raises(exc_type, func, *args, message=None):
    try:
        func(*args)
    except Exception as e:  # noqa: BLE001
        assert type(e) is exc_type, (type(e), e)
        if message is not None:
            assert message in str(e), str(e)
        return e
    raise AssertionError(f"no exception, expected {exc_type}")


# --- public names still importable -------------------------------------------
for name in (
    "Bytes", "Computed", "Int32ub", "Seek", "Struct", "Tell", "this", "record_preamble",
    "DatetimeYdms", "Factor", "Metadata", "StripNullBytes", "pulse_polarization",
    "sar_channel_code", "sar_channel_id", "processed_data_record",
):
    assert hasattr(processed_data, name), name
for name in (
    "Adapter", "Enum", "Int8ub", "Int16ub", "Int32ub", "Int64ub", "Flag", "sar_channel_id",
    "sar_channel_code", "pulse_polarization", "chirp_type_designator",
    "platform_position_parameters_update",
):
    assert hasattr(enums, name), name


# --- structural signature of the record definition ----------------------------
def signature(c, out, depth=0):
    pad = "  " * depth
    kind = type(c).__name__
    extra = []
    if isinstance(c, construct.Renamed):
        extra.append(f"name={c.name!r}")
    if isinstance(c, construct.FormatField):
        extra.append(f"fmt={c.fmtstr!r}")
    if isinstance(c, construct.Bytes):
        extra.append(f"length={c.length!r}")
    if isinstance(c, Factor):
        extra.append(f"factor={c.factor!r}:{type(c.factor).__name__}")
    if isinstance(c, Metadata):
        extra.append(f"attrs={sorted(c.attrs.items())!r}")
    if isinstance(c, construct.Enum):
        extra.append(f"enum={sorted(c.encmapping.items())!r}")
    if isinstance(c, construct.Computed):
        extra.append(f"func={c.func!r}")
    if isinstance(c, construct.Seek):
        extra.append(f"at={c.at!r} whence={c.whence!r}")
    out.append(f"{pad}{kind} {' '.join(extra)}")
    if isinstance(c, construct.Struct):
        for sub in c.subcons:
            signature(sub, out, depth + 1)
    elif hasattr(c, "subcon"):
        signature(c.subcon, out, depth + 1)


lines = []
signature(processed_data_record, lines)
digest = hashlib.sha256("\n".join(lines).encode()).hexdigest()
assert "0x" not in "\n".join(lines), "unstable repr"
assert digest == EXPECTED_SIGNATURE, digest
assert len(processed_data_record.subcons) == 43


# every Metadata / Factor wrapper is its own object with its own attrs dict
def collect(c, kind, acc):
    if isinstance(c, kind):
        acc.append(c)
    if isinstance(c, construct.Struct):
        for sub in c.subcons:
            collect(sub, kind, acc)
    elif hasattr(c, "subcon"):
        collect(c.subcon, kind, acc)
    return acc


metas = collect(processed_data_record, Metadata, [])
factors = collect(processed_data_record, Factor, [])
assert len(metas) == 23, len(metas)
assert len(factors) == 12, len(factors)
assert len({id(m) for m in metas}) == 23
assert len({id(m.attrs) for m in metas}) == 23
assert len({id(f) for f in factors}) == 12
assert all(f.subcon is Int32ub for f in factors)
assert sorted({f.factor for f in factors}) == [1e-6, 1e-3]
assert all(type(f.factor) is float for f in factors)

# --- parse synthetic records --------------------------------------------------
FIXED = 192  # bytes before the pixel data


def make_record(seq, values, n_data, date=(2020, 100, 1234)):
    length = FIXED + n_data
    pre = struct.pack(">IBBBBI", seq, 50, 11, 18, 20, length)
    body = struct.pack(">6I", *values[:6])
    body += struct.pack(">3I", *date)
    body += struct.pack(">4H", 2, 0, 1, 0)
    body += struct.pack(">13I", *values[6:19])
    body += b"\x00" * 18 + b"ab"
    body += struct.pack(">8I", *values[19:27])
    body += b"\x00cd\x00"
    body += struct.pack(">2I", *values[27:29])
    body += b"\x00\x00\x00\x00"
    body += struct.pack(">2I", *values[29:31])
    body += b"\x00" * 8
    rec = pre + body
    assert len(rec) == FIXED, len(rec)
    return rec + bytes(range(n_data % 256)) * 0 + b"\x07" * n_data


def plain(v):
    if isinstance(v, construct.Container):
        return {k: plain(x) for k, x in v.items() if k != "_io"}
    if isinstance(v, construct.EnumIntegerString):
        return ("enum", str(v), int(v))
    if isinstance(v, tuple):
        return tuple(plain(x) for x in v)
    return v


values_a = [1, 1, 0, 25, 0, 1] + list(range(1000, 1013)) + [1, 35123456, 35223456, 35323456, 139000001, 139500000, 140000001, 4294967295] + [7, 8] + [123456789, 0]
values_b = [0] * 31
values_c = [4294967295] * 31

EXPECTED = [{'record_start': 0,
  'preamble': {'record_sequence_number': 1,
               'first_record_subtype': 50,
               'record_type': 11,
               'second_record_subtype': 18,
               'third_record_subtype': 20,
               'record_length': 217},
  'sar_image_data_line_number': 1,
  'sar_image_data_record_index': 1,
  'actual_count_of_left_fill_pixels': 0,
  'actual_count_of_data_pixels': 25,
  'actual_count_of_right_fill_pixels': 0,
  'sensor_parameters_update_flag': 1,
  'sensor_acquisition_date': datetime.datetime(2020, 4, 9, 0, 0, 1, 234000),
  'sar_channel_id': ('enum', 'dual_polarization', 2),
  'sar_channel_code': ('enum', 'L', 0),
  'transmitted_pulse_polarization': ('enum', 'vertical', 1),
  'received_pulse_polarization': ('enum', 'horizontal', 0),
  'prf': (1000, {'units': 'mHz'}),
  'scan_id': 1001,
  'slant_range_to_first_pixel': (1002, {'units': 'm'}),
  'slant_range_to_mid_pixel': (1003, {'units': 'm'}),
  'slant_range_to_last_pixel': (1004, {'units': 'm'}),
  'doppler_centroid_value_at_first_pixel': (1.0050000000000001, {'units': 'Hz'}),
  'doppler_centroid_value_at_mid_pixel': (1.006, {'units': 'Hz'}),
  'doppler_centroid_value_at_last_pixel': (1.0070000000000001, {'units': 'Hz'}),
  'azimuth_fm_rate_of_first_pixel': (1008, {'units': 'Hz/ms'}),
  'azimuth_fm_rate_of_mid_pixel': (1009, {'units': 'Hz/ms'}),
  'azimuth_fm_rate_of_last_pixel': (1010, {'units': 'Hz/ms'}),
  'look_angle_of_nadir': (0.001011, {'units': 'deg'}),
  'azimuth_squint_angle': (0.0010119999999999999, {'units': 'deg'}),
  'blanks1': b'ab',
  'geographic_reference_parameter_update_flag': 1,
  'latitude_of_first_pixel': (35.123456, {'units': 'deg'}),
  'latitude_of_center_pixel': (35.223456, {'units': 'deg'}),
  'latitude_of_last_pixel': (35.323456, {'units': 'deg'}),
  'longitude_of_first_pixel': (139.000001, {'units': 'deg'}),
  'longitude_of_center_pixel': (139.5, {'units': 'deg'}),
  'longitude_of_last_pixel': (140.000001, {'units': 'deg'}),
  'northing_of_first_pixel': (4294967295, {'units': 'm'}),
  'blanks2': b'cd',
  'northing_of_last_pixel': (7, {'units': 'm'}),
  'easting_of_first_pixel': (8, {'units': 'm'}),
  'blanks3': b'',
  'easting_of_last_pixel': (123456789, {'units': 'm'}),
  'line_heading': (0.0, {'units': 'deg'}),
  'blanks4': b'',
  'data': {'start': 192, 'size': 25, 'stop': 217}},
 {'record_start': 217,
  'preamble': {'record_sequence_number': 2,
               'first_record_subtype': 50,
               'record_type': 11,
               'second_record_subtype': 18,
               'third_record_subtype': 20,
               'record_length': 192},
  'sar_image_data_line_number': 0,
  'sar_image_data_record_index': 0,
  'actual_count_of_left_fill_pixels': 0,
  'actual_count_of_data_pixels': 0,
  'actual_count_of_right_fill_pixels': 0,
  'sensor_parameters_update_flag': 0,
  'sensor_acquisition_date': datetime.datetime(2016, 12, 31, 23, 59, 59, 999000),
  'sar_channel_id': ('enum', 'dual_polarization', 2),
  'sar_channel_code': ('enum', 'L', 0),
  'transmitted_pulse_polarization': ('enum', 'vertical', 1),
  'received_pulse_polarization': ('enum', 'horizontal', 0),
  'prf': (0, {'units': 'mHz'}),
  'scan_id': 0,
  'slant_range_to_first_pixel': (0, {'units': 'm'}),
  'slant_range_to_mid_pixel': (0, {'units': 'm'}),
  'slant_range_to_last_pixel': (0, {'units': 'm'}),
  'doppler_centroid_value_at_first_pixel': (0.0, {'units': 'Hz'}),
  'doppler_centroid_value_at_mid_pixel': (0.0, {'units': 'Hz'}),
  'doppler_centroid_value_at_last_pixel': (0.0, {'units': 'Hz'}),
  'azimuth_fm_rate_of_first_pixel': (0, {'units': 'Hz/ms'}),
  'azimuth_fm_rate_of_mid_pixel': (0, {'units': 'Hz/ms'}),
  'azimuth_fm_rate_of_last_pixel': (0, {'units': 'Hz/ms'}),
  'look_angle_of_nadir': (0.0, {'units': 'deg'}),
  'azimuth_squint_angle': (0.0, {'units': 'deg'}),
  'blanks1': b'ab',
  'geographic_reference_parameter_update_flag': 0,
  'latitude_of_first_pixel': (0.0, {'units': 'deg'}),
  'latitude_of_center_pixel': (0.0, {'units': 'deg'}),
  'latitude_of_last_pixel': (0.0, {'units': 'deg'}),
  'longitude_of_first_pixel': (0.0, {'units': 'deg'}),
  'longitude_of_center_pixel': (0.0, {'units': 'deg'}),
  'longitude_of_last_pixel': (0.0, {'units': 'deg'}),
  'northing_of_first_pixel': (0, {'units': 'm'}),
  'blanks2': b'cd',
  'northing_of_last_pixel': (0, {'units': 'm'}),
  'easting_of_first_pixel': (0, {'units': 'm'}),
  'blanks3': b'',
  'easting_of_last_pixel': (0, {'units': 'm'}),
  'line_heading': (0.0, {'units': 'deg'}),
  'blanks4': b'',
  'data': {'start': 409, 'size': 0, 'stop': 409}},
 {'record_start': 409,
  'preamble': {'record_sequence_number': 3,
               'first_record_subtype': 50,
               'record_type': 11,
               'second_record_subtype': 18,
               'third_record_subtype': 20,
               'record_length': 195},
  'sar_image_data_line_number': 4294967295,
  'sar_image_data_record_index': 4294967295,
  'actual_count_of_left_fill_pixels': 4294967295,
  'actual_count_of_data_pixels': 4294967295,
  'actual_count_of_right_fill_pixels': 4294967295,
  'sensor_parameters_update_flag': 4294967295,
  'sensor_acquisition_date': datetime.datetime(1, 1, 1, 0, 0),
  'sar_channel_id': ('enum', 'dual_polarization', 2),
  'sar_channel_code': ('enum', 'L', 0),
  'transmitted_pulse_polarization': ('enum', 'vertical', 1),
  'received_pulse_polarization': ('enum', 'horizontal', 0),
  'prf': (4294967295, {'units': 'mHz'}),
  'scan_id': 4294967295,
  'slant_range_to_first_pixel': (4294967295, {'units': 'm'}),
  'slant_range_to_mid_pixel': (4294967295, {'units': 'm'}),
  'slant_range_to_last_pixel': (4294967295, {'units': 'm'}),
  'doppler_centroid_value_at_first_pixel': (4294967.295, {'units': 'Hz'}),
  'doppler_centroid_value_at_mid_pixel': (4294967.295, {'units': 'Hz'}),
  'doppler_centroid_value_at_last_pixel': (4294967.295, {'units': 'Hz'}),
  'azimuth_fm_rate_of_first_pixel': (4294967295, {'units': 'Hz/ms'}),
  'azimuth_fm_rate_of_mid_pixel': (4294967295, {'units': 'Hz/ms'}),
  'azimuth_fm_rate_of_last_pixel': (4294967295, {'units': 'Hz/ms'}),
  'look_angle_of_nadir': (4294.9672949999995, {'units': 'deg'}),
  'azimuth_squint_angle': (4294.9672949999995, {'units': 'deg'}),
  'blanks1': b'ab',
  'geographic_reference_parameter_update_flag': 4294967295,
  'latitude_of_first_pixel': (4294.9672949999995, {'units': 'deg'}),
  'latitude_of_center_pixel': (4294.9672949999995, {'units': 'deg'}),
  'latitude_of_last_pixel': (4294.9672949999995, {'units': 'deg'}),
  'longitude_of_first_pixel': (4294.9672949999995, {'units': 'deg'}),
  'longitude_of_center_pixel': (4294.9672949999995, {'units': 'deg'}),
  'longitude_of_last_pixel': (4294.9672949999995, {'units': 'deg'}),
  'northing_of_first_pixel': (4294967295, {'units': 'm'}),
  'blanks2': b'cd',
  'northing_of_last_pixel': (4294967295, {'units': 'm'}),
  'easting_of_first_pixel': (4294967295, {'units': 'm'}),
  'blanks3': b'',
  'easting_of_last_pixel': (4294967295, {'units': 'm'}),
  'line_heading': (4294.9672949999995, {'units': 'deg'}),
  'blanks4': b'',
  'data': {'start': 601, 'size': 3, 'stop': 604}}]

stream = make_record(1, values_a, 25) + make_record(2, values_b, 0, date=(2016, 366, 86399999)) + make_record(3, values_c, 3, date=(1, 1, 0))
buf = io.BytesIO(stream)
got = []
for _ in range(3):
    rec = processed_data_record.parse_stream(buf)
    got.append(plain(rec))
    assert buf.tell() == rec.data.stop == rec.record_start + rec.preamble.record_length
assert buf.read() == b""
assert repr(got) == repr(EXPECTED), got
# types of the scaled values
first = got[0]
for key in ("doppler_centroid_value_at_first_pixel", "look_angle_of_nadir", "latitude_of_first_pixel", "line_heading"):
    value, attrs = first[key]
    assert type(value) is float and type(attrs) is dict
assert first["doppler_centroid_value_at_mid_pixel"] == (1006 * 1e-3, {"units": "Hz"})
assert first["longitude_of_last_pixel"] == (140000001 * 1e-6, {"units": "deg"})
assert first["latitude_of_first_pixel"] == (35123456 * 1e-6, {"units": "deg"})
assert first["sensor_acquisition_date"] == datetime.datetime(2020, 4, 9, 0, 0, 1, 234000)

# attrs returned by parsing are the field's own dict (same identity as before: per field, not shared)
r1 = processed_data_record.parse(make_record(1, values_a, 4))
r2 = processed_data_record.parse(make_record(1, values_a, 4))
assert r1.latitude_of_first_pixel[1] is r2.latitude_of_first_pixel[1]
assert r1.latitude_of_first_pixel[1] is not r1.latitude_of_last_pixel[1]
assert r1.latitude_of_first_pixel[1] is not r1.look_angle_of_nadir[1]

# truncated / malformed input
raises(construct.StreamError, processed_data_record.parse, make_record(1, values_a, 4)[:100])
raises(construct.StreamError, processed_data_record.parse, b"")
bad_year = make_record(1, values_a, 4, date=(0, 1, 0))
raises(ValueError, processed_data_record.parse, bad_year, message="year 0 is out of range")
# unknown enum value is passed through as an integer
odd = bytearray(make_record(1, values_a, 4))
odd[48:50] = (9).to_bytes(2, "big")
assert processed_data_record.parse(bytes(odd)).sar_channel_id == 9
# building is still unsupported
raises(NotImplementedError, processed_data_record.build, dict(r1))

# --- Flag ----------------------------------------------------------------------
assert enums.Flag.bases == {1: Int8ub, 2: Int16ub, 4: Int32ub, 8: Int64ub}
assert list(enums.Flag.bases) == [1, 2, 4, 8]
assert type(enums.Flag.bases) is dict
for size, base in enums.Flag.bases.items():
    flag = enums.Flag(size)
    assert flag.subcon is base and flag.sizeof() == size
    assert flag.parse(b"\x00" * size) is False
    assert flag.parse(b"\x00" * (size - 1) + b"\x01") is True
    assert flag.parse(b"\xff" * size) is True
    assert flag.build(True) == b"\x00" * (size - 1) + b"\x01"
    assert flag.build(False) == b"\x00" * size
    assert flag.build(3) == b"\x00" * (size - 1) + b"\x03"
    raises(construct.StreamError, flag.parse, b"\x00" * (size - 1))
assert enums.Flag(True).subcon is Int8ub  # True == 1 hashes like 1
assert enums.Flag(2.0).subcon is Int16ub
for size in (0, 3, 5, 16, -1, None, "2", 1.5, (1,)):
    raises(ValueError, enums.Flag, size, message=f"unsupported size: {size}")
raises(TypeError, enums.Flag, [1], message="unhashable")
raises(TypeError, enums.Flag)
f = enums.Flag(1)
assert f._decode(0, None, "p") is False and f._decode(2, None, "p") is True
assert f._decode("", None, "p") is False and f._decode("x", None, "p") is True
assert f._encode(True, None, "p") == 1 and type(f._encode(True, None, "p")) is int
assert f._encode("7", None, "p") == 7
raises(ValueError, f._encode, "x", None, "p")
raises(TypeError, f._encode, None, None, "p")


class Wide(enums.Flag):
    bases = {3: Int8ub, 1: None}


assert Wide(3).subcon is Int8ub
raises(ValueError, Wide, 1, message="unsupported size: 1")  # a None entry counts as unsupported
raises(ValueError, Wide, 2, message="unsupported size: 2")

# signal data still uses the same Flag fields
sig = {c.name: c.subcon for c in signal_data.signal_data_record.subcons}
assert type(sig["onboard_range_compressed_flag"]) is enums.Flag
assert sig["onboard_range_compressed_flag"].subcon is Int16ub
assert sig["invalid_line_flag"].subcon is Int32ub

print("equiv 2: OK")
