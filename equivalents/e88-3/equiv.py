"""Equivalence check for refactoring 3 (ceos_alos2/sar_image/cli.py: create_cache / main).

Run as

    cd /tmp/wt10/e88 && PYTHONPATH=/tmp/wt10/e88 /venv/bin/python _eq/3/equiv.py

(or through pytest). ``EXPECTED`` was recorded from the unchanged code (HEAD) with
``equiv.py --record``; the script has to pass with and without the patch.

There are no real ALOS-2 products in the sandbox, so ``open_image`` is replaced by a
recording fake that returns a small hand-made group (a few runs call the real one on
garbage files); ``caching.encode`` is the real one. The file system is a real temporary
directory and the calls of the ``pathlib`` methods used by the CLI are logged, so the
order of the I/O requests is part of the recorded observations.
"""

import contextlib
import io
import os
import pathlib
import shutil
import sys
import tempfile
from unittest import mock

import numpy as np

from ceos_alos2.hierarchy import Group, Variable
from ceos_alos2.sar_image import cli

TMP = "<tmp>"


def describe(value):
    module = type(value).__module__
    if module == __name__:
        module = "<equiv>"
    return f"{module}.{type(value).__qualname__}:{value!r}"


def describe_exception(e):
    return (
        f"raised {describe(e)} args={e.args!r} cause={describe(e.__cause__)}"
        f" context={type(e.__context__).__name__} suppress={e.__suppress_context__}"
    )


def make_group(path, records_per_chunk):
    return Group(
        path=None,
        url=None,
        data={
            "x": Variable("x", np.arange(3, dtype="int16"), {"units": "m"}),
        },
        attrs={"path": path, "rpc": repr(records_per_chunk)},
    )


class Recorder:
    def __init__(self, root):
        self.root = str(root)
        self.log = []

    def clean(self, text):
        return text.replace(self.root, TMP)

    def record(self, message):
        self.log.append(self.clean(message))

    def wrap_path_method(self, name):
        original = getattr(pathlib.Path, name)
        recorder = self

        def wrapper(self, *args, **kwargs):
            recorder.record(f"Path({str(self)!r}).{name}(*{args!r}, **{kwargs!r})")
            return original(self, *args, **kwargs)

        return mock.patch.object(pathlib.Path, name, wrapper)

    def fake_open_image(self, behaviour):
        def open_image(*args, **kwargs):
            mapper, *rest = args
            self.record(
                f"open_image(mapper={type(mapper).__name__}(root={mapper.root!r},"
                f" fs={type(mapper.fs).__name__}), *{rest!r}, **{kwargs!r})"
            )
            if isinstance(behaviour, BaseException):
                raise behaviour
            return make_group(rest[0], kwargs.get("records_per_chunk"))

        return open_image

    def listing(self):
        entries = []
        for dirpath, dirnames, filenames in sorted(os.walk(self.root)):
            for name in sorted(filenames):
                full = os.path.join(dirpath, name)
                with open(full, "rb") as f:
                    content = f.read()
                entries.append((self.clean(full), content))
        return entries


@contextlib.contextmanager
def sandbox():
    here = pathlib.Path(__file__).resolve().parent
    root = pathlib.Path(tempfile.mkdtemp(prefix="equiv3-", dir=here)).resolve()
    try:
        (root / "product").mkdir()
        (root / "product" / "IMG-HH-ALOS2012345678-123456-WBDR1.1__D-B1").write_bytes(b"\x00" * 64)
        (root / "product" / "plain.bin").write_bytes(b"abc")
        (root / "product" / "name with space").write_bytes(b"abc")
        (root / "product" / "sub").mkdir()
        (root / "cache").mkdir()
        (root / "cache" / "afile").write_text("not a directory")
        (root / "ünï cödé").mkdir()
        (root / "ünï cödé" / "img").write_bytes(b"xyz")
        yield root
    finally:
        shutil.rmtree(root, ignore_errors=True)


IMAGE = "product/IMG-HH-ALOS2012345678-123456-WBDR1.1__D-B1"

# (image path, cache root, records per chunk); paths relative to the sandbox unless marked
create_cache_cases = [
    (IMAGE, None, 4096),
    (IMAGE, "cache", 4096),
    (IMAGE, "cache", None),
    (IMAGE, "cache", "auto"),
    (IMAGE, "cache", 0),
    (IMAGE, "product", 12),
    (IMAGE, "product/sub", 1),
    (IMAGE, "cache/afile", 4096),
    (IMAGE, "cache/missing", 4096),
    (IMAGE, "missing/deeper", 4096),
    (IMAGE, "ünï cödé", 4096),
    ("product/plain.bin", None, 2),
    ("product/name with space", None, 2),
    ("product/name with space", "cache", 2),
    ("ünï cödé/img", None, 2),
    ("ünï cödé/img", "cache", 2),
    ("product/missing", None, 2),
    ("product/missing", "cache", 2),
    ("product/missing", "cache/missing", 2),
    ("product", None, 2),
    ("product/sub", "cache", 2),
    ("product/plain.bin/child", None, 2),
    ("", None, 2),
    ("", "cache", 2),
    ("product/../product/plain.bin", None, 2),
    ("product/../product/plain.bin", "cache/../cache", 2),
    ("product/./plain.bin", "cache/", 2),
]

behaviours = [
    ("group", None),
    ("FileNotFoundError", FileNotFoundError("no such image")),
    ("OSError(errno)", OSError(5, "Input/output error")),
    ("ValueError", ValueError("bad header")),
]


def run_create_cache(recorder, image_path, cache_root, rpc, behaviour, real=False):
    patches = [recorder.wrap_path_method(n) for n in ("is_file", "is_dir", "write_text", "as_uri")]
    if not real:
        patches.append(mock.patch.object(cli, "open_image", recorder.fake_open_image(behaviour)))
    with contextlib.ExitStack() as stack:
        for patch in patches:
            stack.enter_context(patch)
        try:
            result = cli.create_cache(image_path, cache_root, rpc)
        except BaseException as e:  # noqa: B902
            return recorder.clean(describe_exception(e))
        return f"ok {describe(result)}"


def observe_create_cache():
    observed = []
    for bname, behaviour in behaviours:
        for index, (image, cache_root, rpc) in enumerate(create_cache_cases):
            if bname != "group" and index > 3:
                continue
            with sandbox() as root:
                recorder = Recorder(root)
                before = recorder.listing()
                image_path = root / image
                cache_path = None if cache_root is None else root / cache_root
                outcome = run_create_cache(recorder, image_path, cache_path, rpc, behaviour)
                after = recorder.listing()
                new_files = [entry for entry in after if entry not in before]
                missing = [entry for entry in before if entry not in after]
                label = f"create_cache[{bname}]({image!r}, {cache_root!r}, {rpc!r})"
                observed.append(f"{label} -> {outcome}")
                observed.append(f"{label} log {recorder.log!r}")
                observed.append(f"{label} new files {new_files!r} missing {missing!r}")

    # relative paths (`as_uri` refuses them), run from within the sandbox
    for image, cache_root in [
        ("product/plain.bin", None),
        ("product/plain.bin", "cache"),
        ("plain.bin", None),
        ("product/missing", None),
        ("product/plain.bin", "missing"),
        (".", None),
    ]:
        with sandbox() as root:
            recorder = Recorder(root)
            cwd = os.getcwd()
            os.chdir(root)
            try:
                cache_path = None if cache_root is None else pathlib.Path(cache_root)
                outcome = run_create_cache(recorder, pathlib.Path(image), cache_path, 7, None)
            finally:
                os.chdir(cwd)
            label = f"create_cache[relative]({image!r}, {cache_root!r})"
            observed.append(f"{label} -> {outcome}")
            observed.append(f"{label} log {recorder.log!r}")
            observed.append(f"{label} files {[name for name, _ in recorder.listing()]!r}")

    # the real `open_image` on files which are not images
    for image, cache_root in [(IMAGE, None), ("product/plain.bin", "cache")]:
        with sandbox() as root:
            recorder = Recorder(root)
            cache_path = None if cache_root is None else root / cache_root
            outcome = run_create_cache(recorder, root / image, cache_path, 4, None, real=True)
            label = f"create_cache[real]({image!r}, {cache_root!r})"
            observed.append(f"{label} -> {outcome.split(' args=')[0][:200]}")
            observed.append(f"{label} log {recorder.log!r}")
            observed.append(f"{label} files {[name for name, _ in recorder.listing()]!r}")

    # arguments of other types
    with sandbox() as root:
        recorder = Recorder(root)
        for args in [
            (str(root / "product" / "plain.bin"), None, 1),
            (root / "product" / "plain.bin", str(root / "cache"), 1),
            (None, None, 1),
            (pathlib.PurePosixPath("/a/b"), None, 1),
        ]:
            outcome = run_create_cache(recorder, *args, None)
            observed.append(f"create_cache[types]{recorder.clean(repr(args))} -> {outcome}")
        observed.append(f"create_cache[types] log {recorder.log!r}")
        observed.append(f"create_cache[types] files {[name for name, _ in recorder.listing()]!r}")

        try:
            cli.create_cache(image_path=root / "product" / "missing", cache_root=None, records_per_chunk=3)
        except BaseException as e:  # noqa: B902
            observed.append("keywords -> " + recorder.clean(describe_exception(e)))
        try:
            cli.create_cache(root / "product" / "missing", None)
        except BaseException as e:  # noqa: B902
            observed.append("missing argument -> " + recorder.clean(describe_exception(e)))

    return observed


main_cases = [
    [],
    ["-h"],
    ["--help"],
    ["--rpc"],
    ["--rpc", "12"],
    ["--rpc", "x", "{image}"],
    ["{image}"],
    ["--rpc", "12", "{image}"],
    ["--rpc=12", "{image}"],
    ["--rp", "12", "{image}"],
    ["{image}", "--rpc", "12"],
    ["{image}", "--rpc"],
    ["--rpc", "{image}"],
    ["--rpc", "--", "{image}"],
    ["--rpc", "-3", "{image}"],
    ["--rpc", "0", "{image}", "{root}/cache"],
    ["{image}", "{root}/cache"],
    ["{image}", "{root}/cache", "extra"],
    ["{image}", "{root}/cache/afile"],
    ["{image}", "{root}/cache/missing"],
    ["{root}/product/missing"],
    ["{root}/product/missing", "{root}/cache/missing"],
    ["{root}/product"],
    ["product/plain.bin"],
    ["--unknown", "{image}"],
    ["--rpc", "1", "--rpc", "2", "{image}"],
    ["{root}/ünï cödé/img", "{root}/ünï cödé"],
    [""],
]

main_behaviours = [
    ("group", None),
    ("OSError()", OSError()),
    ("OSError(msg)", OSError("something broke")),
    ("OSError(errno)", OSError(5, "Input/output error")),
    ("PermissionError", PermissionError(13, "Permission denied", "/x")),
    ("ValueError", ValueError("bad header")),
    ("KeyboardInterrupt", KeyboardInterrupt()),
]


def run_main(recorder, argv, behaviour):
    stdout = io.StringIO()
    stderr = io.StringIO()
    patches = [recorder.wrap_path_method(n) for n in ("is_file", "is_dir", "write_text", "as_uri")]
    patches.append(mock.patch.object(cli, "open_image", recorder.fake_open_image(behaviour)))
    patches.append(mock.patch.object(sys, "argv", argv))
    patches.append(mock.patch.dict(os.environ, {"COLUMNS": "80", "NO_COLOR": "1"}))
    with contextlib.ExitStack() as stack:
        for patch in patches:
            stack.enter_context(patch)
        stack.enter_context(contextlib.redirect_stdout(stdout))
        stack.enter_context(contextlib.redirect_stderr(stderr))
        try:
            result = cli.main()
        except SystemExit as e:
            outcome = f"SystemExit({e.code!r}) context={type(e.__context__).__name__}"
        except BaseException as e:  # noqa: B902
            outcome = describe_exception(e)
        else:
            outcome = f"ok {describe(result)}"
    return recorder.clean(
        f"{outcome} stdout={stdout.getvalue()!r} stderr={stderr.getvalue()!r}"
    )


def observe_main():
    observed = []
    for program in ["ceos-alos2-create-cache", "/usr/bin/other name"]:
        for bname, behaviour in main_behaviours:
            for index, template in enumerate(main_cases):
                if bname != "group" and index not in (6, 16):
                    continue
                if program != "ceos-alos2-create-cache" and (bname != "group" or index > 6):
                    continue
                with sandbox() as root:
                    recorder = Recorder(root)
                    arguments = [
                        part.format(root=root, image=root / IMAGE) for part in template
                    ]
                    cwd = os.getcwd()
                    os.chdir(root)
                    try:
                        outcome = run_main(recorder, [program, *arguments], behaviour)
                    finally:
                        os.chdir(cwd)
                    label = f"main[{bname}]({program!r}, {template!r})"
                    observed.append(f"{label} -> {outcome}")
                    observed.append(f"{label} log {recorder.log!r}")
                    observed.append(f"{label} files {[name for name, _ in recorder.listing()]!r}")

    # the program name follows `sys.argv` at the time of the call, every time
    with sandbox() as root:
        recorder = Recorder(root)
        for program in ["first", "second", "first"]:
            observed.append(f"main({program!r}) -> {run_main(recorder, [program], None)}")

    # the entry point module re-exports `main`
    from ceos_alos2.sar_image import __main__ as entry

    observed.append(f"entry point is cli.main: {entry.main is cli.main}")
    return observed


def observe():
    return observe_create_cache() + observe_main()


EXPECTED = ["create_cache[group]('product/IMG-HH-ALOS2012345678-123456-WBDR1.1__D-B1', None, 4096) -> ok "
 'builtins.NoneType:None',
 "create_cache[group]('product/IMG-HH-ALOS2012345678-123456-WBDR1.1__D-B1', None, 4096) log "
 '["Path(\'<tmp>/product/IMG-HH-ALOS2012345678-123456-WBDR1.1__D-B1\').is_file(*(), **{})", '
 '"Path(\'<tmp>/product\').as_uri(*(), **{})", "open_image(mapper=FSMap(root=\'<tmp>/product\', '
 "fs=LocalFileSystem), *['IMG-HH-ALOS2012345678-123456-WBDR1.1__D-B1'], **{'use_cache': False, "
 '\'create_cache\': False, \'records_per_chunk\': 4096})", '
 '\'Path(\\\'<tmp>/product/IMG-HH-ALOS2012345678-123456-WBDR1.1__D-B1.index\\\').write_text(*(\\\'{"__type__": '
 '"group", "url": null, "data": {"x": {"__type__": "variable", "dims": ["x"], "data": {"__type__": "array", '
 '"dtype": "int16", "data": [0, 1, 2], "encoding": {}}, "attrs": {"units": "m"}}}, "path": "/", "attrs": '
 '{"path": "IMG-HH-ALOS2012345678-123456-WBDR1.1__D-B1", "rpc": "4096"}}\\\',), **{})\']',
 "create_cache[group]('product/IMG-HH-ALOS2012345678-123456-WBDR1.1__D-B1', None, 4096) new files "
 '[(\'<tmp>/product/IMG-HH-ALOS2012345678-123456-WBDR1.1__D-B1.index\', b\'{"__type__": "group", "url": '
 'null, "data": {"x": {"__type__": "variable", "dims": ["x"], "data": {"__type__": "array", "dtype": '
 '"int16", "data": [0, 1, 2], "encoding": {}}, "attrs": {"units": "m"}}}, "path": "/", "attrs": {"path": '
 '"IMG-HH-ALOS2012345678-123456-WBDR1.1__D-B1", "rpc": "4096"}}\')] missing []',
 "create_cache[group]('product/IMG-HH-ALOS2012345678-123456-WBDR1.1__D-B1', 'cache', 4096) -> ok "
 'builtins.NoneType:None',
 "create_cache[group]('product/IMG-HH-ALOS2012345678-123456-WBDR1.1__D-B1', 'cache', 4096) log "
 '["Path(\'<tmp>/product/IMG-HH-ALOS2012345678-123456-WBDR1.1__D-B1\').is_file(*(), **{})", '
 '"Path(\'<tmp>/cache\').is_dir(*(), **{})", "Path(\'<tmp>/product\').as_uri(*(), **{})", '
 '"open_image(mapper=FSMap(root=\'<tmp>/product\', fs=LocalFileSystem), '
 "*['IMG-HH-ALOS2012345678-123456-WBDR1.1__D-B1'], **{'use_cache': False, 'create_cache': False, "
 '\'records_per_chunk\': 4096})", '
 '\'Path(\\\'<tmp>/cache/IMG-HH-ALOS2012345678-123456-WBDR1.1__D-B1.index\\\').write_text(*(\\\'{"__type__": '
 '"group", "url": null, "data": {"x": {"__type__": "variable", "dims": ["x"], "data": {"__type__": "array", '
 '"dtype": "int16", "data": [0, 1, 2], "encoding": {}}, "attrs": {"units": "m"}}}, "path": "/", "attrs": '
 '{"path": "IMG-HH-ALOS2012345678-123456-WBDR1.1__D-B1", "rpc": "4096"}}\\\',), **{})\']',
 "create_cache[group]('product/IMG-HH-ALOS2012345678-123456-WBDR1.1__D-B1', 'cache', 4096) new files "
 '[(\'<tmp>/cache/IMG-HH-ALOS2012345678-123456-WBDR1.1__D-B1.index\', b\'{"__type__": "group", "url": null, '
 '"data": {"x": {"__type__": "variable", "dims": ["x"], "data": {"__type__": "array", "dtype": "int16", '
 '"data": [0, 1, 2], "encoding": {}}, "attrs": {"units": "m"}}}, "path": "/", "attrs": {"path": '
 '"IMG-HH-ALOS2012345678-123456-WBDR1.1__D-B1", "rpc": "4096"}}\')] missing []',
 "create_cache[group]('product/IMG-HH-ALOS2012345678-123456-WBDR1.1__D-B1', 'cache', None) -> ok "
 'builtins.NoneType:None',
 "create_cache[group]('product/IMG-HH-ALOS2012345678-123456-WBDR1.1__D-B1', 'cache', None) log "
 '["Path(\'<tmp>/product/IMG-HH-ALOS2012345678-123456-WBDR1.1__D-B1\').is_file(*(), **{})", '
 '"Path(\'<tmp>/cache\').is_dir(*(), **{})", "Path(\'<tmp>/product\').as_uri(*(), **{})", '
 '"open_image(mapper=FSMap(root=\'<tmp>/product\', fs=LocalFileSystem), '
 "*['IMG-HH-ALOS2012345678-123456-WBDR1.1__D-B1'], **{'use_cache': False, 'create_cache': False, "
 '\'records_per_chunk\': None})", '
 '\'Path(\\\'<tmp>/cache/IMG-HH-ALOS2012345678-123456-WBDR1.1__D-B1.index\\\').write_text(*(\\\'{"__type__": '
 '"group", "url": null, "data": {"x": {"__type__": "variable", "dims": ["x"], "data": {"__type__": "array", '
 '"dtype": "int16", "data": [0, 1, 2], "encoding": {}}, "attrs": {"units": "m"}}}, "path": "/", "attrs": '
 '{"path": "IMG-HH-ALOS2012345678-123456-WBDR1.1__D-B1", "rpc": "None"}}\\\',), **{})\']',
 "create_cache[group]('product/IMG-HH-ALOS2012345678-123456-WBDR1.1__D-B1', 'cache', None) new files "
 '[(\'<tmp>/cache/IMG-HH-ALOS2012345678-123456-WBDR1.1__D-B1.index\', b\'{"__type__": "group", "url": null, '
 '"data": {"x": {"__type__": "variable", "dims": ["x"], "data": {"__type__": "array", "dtype": "int16", '
 '"data": [0, 1, 2], "encoding": {}}, "attrs": {"units": "m"}}}, "path": "/", "attrs": {"path": '
 '"IMG-HH-ALOS2012345678-123456-WBDR1.1__D-B1", "rpc": "None"}}\')] missing []',
 "create_cache[group]('product/IMG-HH-ALOS2012345678-123456-WBDR1.1__D-B1', 'cache', 'auto') -> ok "
 'builtins.NoneType:None',
 "create_cache[group]('product/IMG-HH-ALOS2012345678-123456-WBDR1.1__D-B1', 'cache', 'auto') log "
 '["Path(\'<tmp>/product/IMG-HH-ALOS2012345678-123456-WBDR1.1__D-B1\').is_file(*(), **{})", '
 '"Path(\'<tmp>/cache\').is_dir(*(), **{})", "Path(\'<tmp>/product\').as_uri(*(), **{})", '
 '"open_image(mapper=FSMap(root=\'<tmp>/product\', fs=LocalFileSystem), '
 "*['IMG-HH-ALOS2012345678-123456-WBDR1.1__D-B1'], **{'use_cache': False, 'create_cache': False, "
 '\'records_per_chunk\': \'auto\'})", '
 '\'Path(\\\'<tmp>/cache/IMG-HH-ALOS2012345678-123456-WBDR1.1__D-B1.index\\\').write_text(*(\\\'{"__type__": '
 '"group", "url": null, "data": {"x": {"__type__": "variable", "dims": ["x"], "data": {"__type__": "array", '
 '"dtype": "int16", "data": [0, 1, 2], "encoding": {}}, "attrs": {"units": "m"}}}, "path": "/", "attrs": '
 '{"path": "IMG-HH-ALOS2012345678-123456-WBDR1.1__D-B1", "rpc": "\\\\\\\'auto\\\\\\\'"}}\\\',), **{})\']',
 "create_cache[group]('product/IMG-HH-ALOS2012345678-123456-WBDR1.1__D-B1', 'cache', 'auto') new files "
 '[(\'<tmp>/cache/IMG-HH-ALOS2012345678-123456-WBDR1.1__D-B1.index\', b\'{"__type__": "group", "url": null, '
 '"data": {"x": {"__type__": "variable", "dims": ["x"], "data": {"__type__": "array", "dtype": "int16", '
 '"data": [0, 1, 2], "encoding": {}}, "attrs": {"units": "m"}}}, "path": "/", "attrs": {"path": '
 '"IMG-HH-ALOS2012345678-123456-WBDR1.1__D-B1", "rpc": "\\\'auto\\\'"}}\')] missing []',
 "create_cache[group]('product/IMG-HH-ALOS2012345678-123456-WBDR1.1__D-B1', 'cache', 0) -> ok "
 'builtins.NoneType:None',
 "create_cache[group]('product/IMG-HH-ALOS2012345678-123456-WBDR1.1__D-B1', 'cache', 0) log "
 '["Path(\'<tmp>/product/IMG-HH-ALOS2012345678-123456-WBDR1.1__D-B1\').is_file(*(), **{})", '
 '"Path(\'<tmp>/cache\').is_dir(*(), **{})", "Path(\'<tmp>/product\').as_uri(*(), **{})", '
 '"open_image(mapper=FSMap(root=\'<tmp>/product\', fs=LocalFileSystem), '
 "*['IMG-HH-ALOS2012345678-123456-WBDR1.1__D-B1'], **{'use_cache': False, 'create_cache': False, "
 '\'records_per_chunk\': 0})", '
 '\'Path(\\\'<tmp>/cache/IMG-HH-ALOS2012345678-123456-WBDR1.1__D-B1.index\\\').write_text(*(\\\'{"__type__": '
 '"group", "url": null, "data": {"x": {"__type__": "variable", "dims": ["x"], "data": {"__type__": "array", '
 '"dtype": "int16", "data": [0, 1, 2], "encoding": {}}, "attrs": {"units": "m"}}}, "path": "/", "attrs": '
 '{"path": "IMG-HH-ALOS2012345678-123456-WBDR1.1__D-B1", "rpc": "0"}}\\\',), **{})\']',
 "create_cache[group]('product/IMG-HH-ALOS2012345678-123456-WBDR1.1__D-B1', 'cache', 0) new files "
 '[(\'<tmp>/cache/IMG-HH-ALOS2012345678-123456-WBDR1.1__D-B1.index\', b\'{"__type__": "group", "url": null, '
 '"data": {"x": {"__type__": "variable", "dims": ["x"], "data": {"__type__": "array", "dtype": "int16", '
 '"data": [0, 1, 2], "encoding": {}}, "attrs": {"units": "m"}}}, "path": "/", "attrs": {"path": '
 '"IMG-HH-ALOS2012345678-123456-WBDR1.1__D-B1", "rpc": "0"}}\')] missing []',
 "create_cache[group]('product/IMG-HH-ALOS2012345678-123456-WBDR1.1__D-B1', 'product', 12) -> ok "
 'builtins.NoneType:None',
 "create_cache[group]('product/IMG-HH-ALOS2012345678-123456-WBDR1.1__D-B1', 'product', 12) log "
 '["Path(\'<tmp>/product/IMG-HH-ALOS2012345678-123456-WBDR1.1__D-B1\').is_file(*(), **{})", '
 '"Path(\'<tmp>/product\').is_dir(*(), **{})", "Path(\'<tmp>/product\').as_uri(*(), **{})", '
 '"open_image(mapper=FSMap(root=\'<tmp>/product\', fs=LocalFileSystem), '
 "*['IMG-HH-ALOS2012345678-123456-WBDR1.1__D-B1'], **{'use_cache': False, 'create_cache': False, "
 '\'records_per_chunk\': 12})", '
 '\'Path(\\\'<tmp>/product/IMG-HH-ALOS2012345678-123456-WBDR1.1__D-B1.index\\\').write_text(*(\\\'{"__type__": '
 '"group", "url": null, "data": {"x": {"__type__": "variable", "dims": ["x"], "data": {"__type__": "array", '
 '"dtype": "int16", "data": [0, 1, 2], "encoding": {}}, "attrs": {"units": "m"}}}, "path": "/", "attrs": '
 '{"path": "IMG-HH-ALOS2012345678-123456-WBDR1.1__D-B1", "rpc": "12"}}\\\',), **{})\']',
 "create_cache[group]('product/IMG-HH-ALOS2012345678-123456-WBDR1.1__D-B1', 'product', 12) new files "
 '[(\'<tmp>/product/IMG-HH-ALOS2012345678-123456-WBDR1.1__D-B1.index\', b\'{"__type__": "group", "url": '
 'null, "data": {"x": {"__type__": "variable", "dims": ["x"], "data": {"__type__": "array", "dtype": '
 '"int16", "data": [0, 1, 2], "encoding": {}}, "attrs": {"units": "m"}}}, "path": "/", "attrs": {"path": '
 '"IMG-HH-ALOS2012345678-123456-WBDR1.1__D-B1", "rpc": "12"}}\')] missing []',
 "create_cache[group]('product/IMG-HH-ALOS2012345678-123456-WBDR1.1__D-B1', 'product/sub', 1) -> ok "
 'builtins.NoneType:None',
 "create_cache[group]('product/IMG-HH-ALOS2012345678-123456-WBDR1.1__D-B1', 'product/sub', 1) log "
 '["Path(\'<tmp>/product/IMG-HH-ALOS2012345678-123456-WBDR1.1__D-B1\').is_file(*(), **{})", '
 '"Path(\'<tmp>/product/sub\').is_dir(*(), **{})", "Path(\'<tmp>/product\').as_uri(*(), **{})", '
 '"open_image(mapper=FSMap(root=\'<tmp>/product\', fs=LocalFileSystem), '
 "*['IMG-HH-ALOS2012345678-123456-WBDR1.1__D-B1'], **{'use_cache': False, 'create_cache': False, "
 '\'records_per_chunk\': 1})", '
 '\'Path(\\\'<tmp>/product/sub/IMG-HH-ALOS2012345678-123456-WBDR1.1__D-B1.index\\\').write_text(*(\\\'{"__type__": '
 '"group", "url": null, "data": {"x": {"__type__": "variable", "dims": ["x"], "data": {"__type__": "array", '
 '"dtype": "int16", "data": [0, 1, 2], "encoding": {}}, "attrs": {"units": "m"}}}, "path": "/", "attrs": '
 '{"path": "IMG-HH-ALOS2012345678-123456-WBDR1.1__D-B1", "rpc": "1"}}\\\',), **{})\']',
 "create_cache[group]('product/IMG-HH-ALOS2012345678-123456-WBDR1.1__D-B1', 'product/sub', 1) new files "
 '[(\'<tmp>/product/sub/IMG-HH-ALOS2012345678-123456-WBDR1.1__D-B1.index\', b\'{"__type__": "group", "url": '
 'null, "data": {"x": {"__type__": "variable", "dims": ["x"], "data": {"__type__": "array", "dtype": '
 '"int16", "data": [0, 1, 2], "encoding": {}}, "attrs": {"units": "m"}}}, "path": "/", "attrs": {"path": '
 '"IMG-HH-ALOS2012345678-123456-WBDR1.1__D-B1", "rpc": "1"}}\')] missing []',
 "create_cache[group]('product/IMG-HH-ALOS2012345678-123456-WBDR1.1__D-B1', 'cache/afile', 4096) -> raised "
 "builtins.OSError:OSError('Cannot find the target cache root: <tmp>/cache/afile') args=('Cannot find the "
 "target cache root: <tmp>/cache/afile',) cause=builtins.NoneType:None context=NoneType suppress=False",
 "create_cache[group]('product/IMG-HH-ALOS2012345678-123456-WBDR1.1__D-B1', 'cache/afile', 4096) log "
 '["Path(\'<tmp>/product/IMG-HH-ALOS2012345678-123456-WBDR1.1__D-B1\').is_file(*(), **{})", '
 '"Path(\'<tmp>/cache/afile\').is_dir(*(), **{})"]',
 "create_cache[group]('product/IMG-HH-ALOS2012345678-123456-WBDR1.1__D-B1', 'cache/afile', 4096) new files "
 '[] missing []',
 "create_cache[group]('product/IMG-HH-ALOS2012345678-123456-WBDR1.1__D-B1', 'cache/missing', 4096) -> raised "
 "builtins.OSError:OSError('Cannot find the target cache root: <tmp>/cache/missing') args=('Cannot find the "
 "target cache root: <tmp>/cache/missing',) cause=builtins.NoneType:None context=NoneType suppress=False",
 "create_cache[group]('product/IMG-HH-ALOS2012345678-123456-WBDR1.1__D-B1', 'cache/missing', 4096) log "
 '["Path(\'<tmp>/product/IMG-HH-ALOS2012345678-123456-WBDR1.1__D-B1\').is_file(*(), **{})", '
 '"Path(\'<tmp>/cache/missing\').is_dir(*(), **{})"]',
 "create_cache[group]('product/IMG-HH-ALOS2012345678-123456-WBDR1.1__D-B1', 'cache/missing', 4096) new files "
 '[] missing []',
 "create_cache[group]('product/IMG-HH-ALOS2012345678-123456-WBDR1.1__D-B1', 'missing/deeper', 4096) -> "
 "raised builtins.OSError:OSError('Cannot find the target cache root: <tmp>/missing/deeper') args=('Cannot "
 "find the target cache root: <tmp>/missing/deeper',) cause=builtins.NoneType:None context=NoneType "
 'suppress=False',
 "create_cache[group]('product/IMG-HH-ALOS2012345678-123456-WBDR1.1__D-B1', 'missing/deeper', 4096) log "
 '["Path(\'<tmp>/product/IMG-HH-ALOS2012345678-123456-WBDR1.1__D-B1\').is_file(*(), **{})", '
 '"Path(\'<tmp>/missing/deeper\').is_dir(*(), **{})"]',
 "create_cache[group]('product/IMG-HH-ALOS2012345678-123456-WBDR1.1__D-B1', 'missing/deeper', 4096) new "
 'files [] missing []',
 "create_cache[group]('product/IMG-HH-ALOS2012345678-123456-WBDR1.1__D-B1', 'ünï cödé', 4096) -> ok "
 'builtins.NoneType:None',
 "create_cache[group]('product/IMG-HH-ALOS2012345678-123456-WBDR1.1__D-B1', 'ünï cödé', 4096) log "
 '["Path(\'<tmp>/product/IMG-HH-ALOS2012345678-123456-WBDR1.1__D-B1\').is_file(*(), **{})", '
 '"Path(\'<tmp>/ünï cödé\').is_dir(*(), **{})", "Path(\'<tmp>/product\').as_uri(*(), **{})", '
 '"open_image(mapper=FSMap(root=\'<tmp>/product\', fs=LocalFileSystem), '
 "*['IMG-HH-ALOS2012345678-123456-WBDR1.1__D-B1'], **{'use_cache': False, 'create_cache': False, "
 '\'records_per_chunk\': 4096})", \'Path(\\\'<tmp>/ünï '
 'cödé/IMG-HH-ALOS2012345678-123456-WBDR1.1__D-B1.index\\\').write_text(*(\\\'{"__type__": "group", "url": '
 'null, "data": {"x": {"__type__": "variable", "dims": ["x"], "data": {"__type__": "array", "dtype": '
 '"int16", "data": [0, 1, 2], "encoding": {}}, "attrs": {"units": "m"}}}, "path": "/", "attrs": {"path": '
 '"IMG-HH-ALOS2012345678-123456-WBDR1.1__D-B1", "rpc": "4096"}}\\\',), **{})\']',
 "create_cache[group]('product/IMG-HH-ALOS2012345678-123456-WBDR1.1__D-B1', 'ünï cödé', 4096) new files "
 '[(\'<tmp>/ünï cödé/IMG-HH-ALOS2012345678-123456-WBDR1.1__D-B1.index\', b\'{"__type__": "group", "url": '
 'null, "data": {"x": {"__type__": "variable", "dims": ["x"], "data": {"__type__": "array", "dtype": '
 '"int16", "data": [0, 1, 2], "encoding": {}}, "attrs": {"units": "m"}}}, "path": "/", "attrs": {"path": '
 '"IMG-HH-ALOS2012345678-123456-WBDR1.1__D-B1", "rpc": "4096"}}\')] missing []',
 "create_cache[group]('product/plain.bin', None, 2) -> ok builtins.NoneType:None",
 'create_cache[group](\'product/plain.bin\', None, 2) log ["Path(\'<tmp>/product/plain.bin\').is_file(*(), '
 '**{})", "Path(\'<tmp>/product\').as_uri(*(), **{})", "open_image(mapper=FSMap(root=\'<tmp>/product\', '
 "fs=LocalFileSystem), *['plain.bin'], **{'use_cache': False, 'create_cache': False, 'records_per_chunk': "
 '2})", \'Path(\\\'<tmp>/product/plain.bin.index\\\').write_text(*(\\\'{"__type__": "group", "url": null, '
 '"data": {"x": {"__type__": "variable", "dims": ["x"], "data": {"__type__": "array", "dtype": "int16", '
 '"data": [0, 1, 2], "encoding": {}}, "attrs": {"units": "m"}}}, "path": "/", "attrs": {"path": "plain.bin", '
 '"rpc": "2"}}\\\',), **{})\']',
 "create_cache[group]('product/plain.bin', None, 2) new files [('<tmp>/product/plain.bin.index', "
 'b\'{"__type__": "group", "url": null, "data": {"x": {"__type__": "variable", "dims": ["x"], "data": '
 '{"__type__": "array", "dtype": "int16", "data": [0, 1, 2], "encoding": {}}, "attrs": {"units": "m"}}}, '
 '"path": "/", "attrs": {"path": "plain.bin", "rpc": "2"}}\')] missing []',
 "create_cache[group]('product/name with space', None, 2) -> ok builtins.NoneType:None",
 'create_cache[group](\'product/name with space\', None, 2) log ["Path(\'<tmp>/product/name with '
 'space\').is_file(*(), **{})", "Path(\'<tmp>/product\').as_uri(*(), **{})", '
 '"open_image(mapper=FSMap(root=\'<tmp>/product\', fs=LocalFileSystem), *[\'name with space\'], '
 '**{\'use_cache\': False, \'create_cache\': False, \'records_per_chunk\': 2})", '
 '\'Path(\\\'<tmp>/product/name with space.index\\\').write_text(*(\\\'{"__type__": "group", "url": null, '
 '"data": {"x": {"__type__": "variable", "dims": ["x"], "data": {"__type__": "array", "dtype": "int16", '
 '"data": [0, 1, 2], "encoding": {}}, "attrs": {"units": "m"}}}, "path": "/", "attrs": {"path": "name with '
 'space", "rpc": "2"}}\\\',), **{})\']',
 "create_cache[group]('product/name with space', None, 2) new files [('<tmp>/product/name with space.index', "
 'b\'{"__type__": "group", "url": null, "data": {"x": {"__type__": "variable", "dims": ["x"], "data": '
 '{"__type__": "array", "dtype": "int16", "data": [0, 1, 2], "encoding": {}}, "attrs": {"units": "m"}}}, '
 '"path": "/", "attrs": {"path": "name with space", "rpc": "2"}}\')] missing []',
 "create_cache[group]('product/name with space', 'cache', 2) -> ok builtins.NoneType:None",
 'create_cache[group](\'product/name with space\', \'cache\', 2) log ["Path(\'<tmp>/product/name with '
 'space\').is_file(*(), **{})", "Path(\'<tmp>/cache\').is_dir(*(), **{})", '
 '"Path(\'<tmp>/product\').as_uri(*(), **{})", "open_image(mapper=FSMap(root=\'<tmp>/product\', '
 "fs=LocalFileSystem), *['name with space'], **{'use_cache': False, 'create_cache': False, "
 '\'records_per_chunk\': 2})", \'Path(\\\'<tmp>/cache/name with '
 'space.index\\\').write_text(*(\\\'{"__type__": "group", "url": null, "data": {"x": {"__type__": '
 '"variable", "dims": ["x"], "data": {"__type__": "array", "dtype": "int16", "data": [0, 1, 2], "encoding": '
 '{}}, "attrs": {"units": "m"}}}, "path": "/", "attrs": {"path": "name with space", "rpc": "2"}}\\\',), '
 "**{})']",
 "create_cache[group]('product/name with space', 'cache', 2) new files [('<tmp>/cache/name with "
 'space.index\', b\'{"__type__": "group", "url": null, "data": {"x": {"__type__": "variable", "dims": ["x"], '
 '"data": {"__type__": "array", "dtype": "int16", "data": [0, 1, 2], "encoding": {}}, "attrs": {"units": '
 '"m"}}}, "path": "/", "attrs": {"path": "name with space", "rpc": "2"}}\')] missing []',
 "create_cache[group]('ünï cödé/img', None, 2) -> ok builtins.NoneType:None",
 'create_cache[group](\'ünï cödé/img\', None, 2) log ["Path(\'<tmp>/ünï cödé/img\').is_file(*(), **{})", '
 '"Path(\'<tmp>/ünï cödé\').as_uri(*(), **{})", '
 '"open_image(mapper=FSMap(root=\'<tmp>/%C3%BCn%C3%AF%20c%C3%B6d%C3%A9\', fs=LocalFileSystem), *[\'img\'], '
 '**{\'use_cache\': False, \'create_cache\': False, \'records_per_chunk\': 2})", \'Path(\\\'<tmp>/ünï '
 'cödé/img.index\\\').write_text(*(\\\'{"__type__": "group", "url": null, "data": {"x": {"__type__": '
 '"variable", "dims": ["x"], "data": {"__type__": "array", "dtype": "int16", "data": [0, 1, 2], "encoding": '
 '{}}, "attrs": {"units": "m"}}}, "path": "/", "attrs": {"path": "img", "rpc": "2"}}\\\',), **{})\']',
 'create_cache[group](\'ünï cödé/img\', None, 2) new files [(\'<tmp>/ünï cödé/img.index\', b\'{"__type__": '
 '"group", "url": null, "data": {"x": {"__type__": "variable", "dims": ["x"], "data": {"__type__": "array", '
 '"dtype": "int16", "data": [0, 1, 2], "encoding": {}}, "attrs": {"units": "m"}}}, "path": "/", "attrs": '
 '{"path": "img", "rpc": "2"}}\')] missing []',
 "create_cache[group]('ünï cödé/img', 'cache', 2) -> ok builtins.NoneType:None",
 'create_cache[group](\'ünï cödé/img\', \'cache\', 2) log ["Path(\'<tmp>/ünï cödé/img\').is_file(*(), '
 '**{})", "Path(\'<tmp>/cache\').is_dir(*(), **{})", "Path(\'<tmp>/ünï cödé\').as_uri(*(), **{})", '
 '"open_image(mapper=FSMap(root=\'<tmp>/%C3%BCn%C3%AF%20c%C3%B6d%C3%A9\', fs=LocalFileSystem), *[\'img\'], '
 '**{\'use_cache\': False, \'create_cache\': False, \'records_per_chunk\': 2})", '
 '\'Path(\\\'<tmp>/cache/img.index\\\').write_text(*(\\\'{"__type__": "group", "url": null, "data": {"x": '
 '{"__type__": "variable", "dims": ["x"], "data": {"__type__": "array", "dtype": "int16", "data": [0, 1, 2], '
 '"encoding": {}}, "attrs": {"units": "m"}}}, "path": "/", "attrs": {"path": "img", "rpc": "2"}}\\\',), '
 "**{})']",
 'create_cache[group](\'ünï cödé/img\', \'cache\', 2) new files [(\'<tmp>/cache/img.index\', b\'{"__type__": '
 '"group", "url": null, "data": {"x": {"__type__": "variable", "dims": ["x"], "data": {"__type__": "array", '
 '"dtype": "int16", "data": [0, 1, 2], "encoding": {}}, "attrs": {"units": "m"}}}, "path": "/", "attrs": '
 '{"path": "img", "rpc": "2"}}\')] missing []',
 "create_cache[group]('product/missing', None, 2) -> raised "
 "builtins.FileNotFoundError:FileNotFoundError('Cannot find image file at given path: "
 "<tmp>/product/missing') args=('Cannot find image file at given path: <tmp>/product/missing',) "
 'cause=builtins.NoneType:None context=NoneType suppress=False',
 'create_cache[group](\'product/missing\', None, 2) log ["Path(\'<tmp>/product/missing\').is_file(*(), '
 '**{})"]',
 "create_cache[group]('product/missing', None, 2) new files [] missing []",
 "create_cache[group]('product/missing', 'cache', 2) -> raised "
 "builtins.FileNotFoundError:FileNotFoundError('Cannot find image file at given path: "
 "<tmp>/product/missing') args=('Cannot find image file at given path: <tmp>/product/missing',) "
 'cause=builtins.NoneType:None context=NoneType suppress=False',
 'create_cache[group](\'product/missing\', \'cache\', 2) log ["Path(\'<tmp>/product/missing\').is_file(*(), '
 '**{})"]',
 "create_cache[group]('product/missing', 'cache', 2) new files [] missing []",
 "create_cache[group]('product/missing', 'cache/missing', 2) -> raised "
 "builtins.FileNotFoundError:FileNotFoundError('Cannot find image file at given path: "
 "<tmp>/product/missing') args=('Cannot find image file at given path: <tmp>/product/missing',) "
 'cause=builtins.NoneType:None context=NoneType suppress=False',
 "create_cache[group]('product/missing', 'cache/missing', 2) log "
 '["Path(\'<tmp>/product/missing\').is_file(*(), **{})"]',
 "create_cache[group]('product/missing', 'cache/missing', 2) new files [] missing []",
 "create_cache[group]('product', None, 2) -> raised builtins.FileNotFoundError:FileNotFoundError('Cannot "
 "find image file at given path: <tmp>/product') args=('Cannot find image file at given path: "
 "<tmp>/product',) cause=builtins.NoneType:None context=NoneType suppress=False",
 'create_cache[group](\'product\', None, 2) log ["Path(\'<tmp>/product\').is_file(*(), **{})"]',
 "create_cache[group]('product', None, 2) new files [] missing []",
 "create_cache[group]('product/sub', 'cache', 2) -> raised "
 "builtins.FileNotFoundError:FileNotFoundError('Cannot find image file at given path: <tmp>/product/sub') "
 "args=('Cannot find image file at given path: <tmp>/product/sub',) cause=builtins.NoneType:None "
 'context=NoneType suppress=False',
 'create_cache[group](\'product/sub\', \'cache\', 2) log ["Path(\'<tmp>/product/sub\').is_file(*(), **{})"]',
 "create_cache[group]('product/sub', 'cache', 2) new files [] missing []",
 "create_cache[group]('product/plain.bin/child', None, 2) -> raised "
 "builtins.FileNotFoundError:FileNotFoundError('Cannot find image file at given path: "
 "<tmp>/product/plain.bin/child') args=('Cannot find image file at given path: "
 "<tmp>/product/plain.bin/child',) cause=builtins.NoneType:None context=NoneType suppress=False",
 "create_cache[group]('product/plain.bin/child', None, 2) log "
 '["Path(\'<tmp>/product/plain.bin/child\').is_file(*(), **{})"]',
 "create_cache[group]('product/plain.bin/child', None, 2) new files [] missing []",
 "create_cache[group]('', None, 2) -> raised builtins.FileNotFoundError:FileNotFoundError('Cannot find image "
 "file at given path: <tmp>') args=('Cannot find image file at given path: <tmp>',) "
 'cause=builtins.NoneType:None context=NoneType suppress=False',
 'create_cache[group](\'\', None, 2) log ["Path(\'<tmp>\').is_file(*(), **{})"]',
 "create_cache[group]('', None, 2) new files [] missing []",
 "create_cache[group]('', 'cache', 2) -> raised builtins.FileNotFoundError:FileNotFoundError('Cannot find "
 "image file at given path: <tmp>') args=('Cannot find image file at given path: <tmp>',) "
 'cause=builtins.NoneType:None context=NoneType suppress=False',
 'create_cache[group](\'\', \'cache\', 2) log ["Path(\'<tmp>\').is_file(*(), **{})"]',
 "create_cache[group]('', 'cache', 2) new files [] missing []",
 "create_cache[group]('product/../product/plain.bin', None, 2) -> ok builtins.NoneType:None",
 "create_cache[group]('product/../product/plain.bin', None, 2) log "
 '["Path(\'<tmp>/product/../product/plain.bin\').is_file(*(), **{})", '
 '"Path(\'<tmp>/product/../product\').as_uri(*(), **{})", '
 '"open_image(mapper=FSMap(root=\'<tmp>/product/../product\', fs=LocalFileSystem), *[\'plain.bin\'], '
 '**{\'use_cache\': False, \'create_cache\': False, \'records_per_chunk\': 2})", '
 '\'Path(\\\'<tmp>/product/../product/plain.bin.index\\\').write_text(*(\\\'{"__type__": "group", "url": '
 'null, "data": {"x": {"__type__": "variable", "dims": ["x"], "data": {"__type__": "array", "dtype": '
 '"int16", "data": [0, 1, 2], "encoding": {}}, "attrs": {"units": "m"}}}, "path": "/", "attrs": {"path": '
 '"plain.bin", "rpc": "2"}}\\\',), **{})\']',
 "create_cache[group]('product/../product/plain.bin', None, 2) new files [('<tmp>/product/plain.bin.index', "
 'b\'{"__type__": "group", "url": null, "data": {"x": {"__type__": "variable", "dims": ["x"], "data": '
 '{"__type__": "array", "dtype": "int16", "data": [0, 1, 2], "encoding": {}}, "attrs": {"units": "m"}}}, '
 '"path": "/", "attrs": {"path": "plain.bin", "rpc": "2"}}\')] missing []',
 "create_cache[group]('product/../product/plain.bin', 'cache/../cache', 2) -> ok builtins.NoneType:None",
 "create_cache[group]('product/../product/plain.bin', 'cache/../cache', 2) log "
 '["Path(\'<tmp>/product/../product/plain.bin\').is_file(*(), **{})", '
 '"Path(\'<tmp>/cache/../cache\').is_dir(*(), **{})", "Path(\'<tmp>/product/../product\').as_uri(*(), '
 '**{})", "open_image(mapper=FSMap(root=\'<tmp>/product/../product\', fs=LocalFileSystem), *[\'plain.bin\'], '
 '**{\'use_cache\': False, \'create_cache\': False, \'records_per_chunk\': 2})", '
 '\'Path(\\\'<tmp>/cache/../cache/plain.bin.index\\\').write_text(*(\\\'{"__type__": "group", "url": null, '
 '"data": {"x": {"__type__": "variable", "dims": ["x"], "data": {"__type__": "array", "dtype": "int16", '
 '"data": [0, 1, 2], "encoding": {}}, "attrs": {"units": "m"}}}, "path": "/", "attrs": {"path": "plain.bin", '
 '"rpc": "2"}}\\\',), **{})\']',
 "create_cache[group]('product/../product/plain.bin', 'cache/../cache', 2) new files "
 '[(\'<tmp>/cache/plain.bin.index\', b\'{"__type__": "group", "url": null, "data": {"x": {"__type__": '
 '"variable", "dims": ["x"], "data": {"__type__": "array", "dtype": "int16", "data": [0, 1, 2], "encoding": '
 '{}}, "attrs": {"units": "m"}}}, "path": "/", "attrs": {"path": "plain.bin", "rpc": "2"}}\')] missing []',
 "create_cache[group]('product/./plain.bin', 'cache/', 2) -> ok builtins.NoneType:None",
 "create_cache[group]('product/./plain.bin', 'cache/', 2) log "
 '["Path(\'<tmp>/product/plain.bin\').is_file(*(), **{})", "Path(\'<tmp>/cache\').is_dir(*(), **{})", '
 '"Path(\'<tmp>/product\').as_uri(*(), **{})", "open_image(mapper=FSMap(root=\'<tmp>/product\', '
 "fs=LocalFileSystem), *['plain.bin'], **{'use_cache': False, 'create_cache': False, 'records_per_chunk': "
 '2})", \'Path(\\\'<tmp>/cache/plain.bin.index\\\').write_text(*(\\\'{"__type__": "group", "url": null, '
 '"data": {"x": {"__type__": "variable", "dims": ["x"], "data": {"__type__": "array", "dtype": "int16", '
 '"data": [0, 1, 2], "encoding": {}}, "attrs": {"units": "m"}}}, "path": "/", "attrs": {"path": "plain.bin", '
 '"rpc": "2"}}\\\',), **{})\']',
 "create_cache[group]('product/./plain.bin', 'cache/', 2) new files [('<tmp>/cache/plain.bin.index', "
 'b\'{"__type__": "group", "url": null, "data": {"x": {"__type__": "variable", "dims": ["x"], "data": '
 '{"__type__": "array", "dtype": "int16", "data": [0, 1, 2], "encoding": {}}, "attrs": {"units": "m"}}}, '
 '"path": "/", "attrs": {"path": "plain.bin", "rpc": "2"}}\')] missing []',
 "create_cache[FileNotFoundError]('product/IMG-HH-ALOS2012345678-123456-WBDR1.1__D-B1', None, 4096) -> "
 "raised builtins.FileNotFoundError:FileNotFoundError('no such image') args=('no such image',) "
 'cause=builtins.NoneType:None context=NoneType suppress=False',
 "create_cache[FileNotFoundError]('product/IMG-HH-ALOS2012345678-123456-WBDR1.1__D-B1', None, 4096) log "
 '["Path(\'<tmp>/product/IMG-HH-ALOS2012345678-123456-WBDR1.1__D-B1\').is_file(*(), **{})", '
 '"Path(\'<tmp>/product\').as_uri(*(), **{})", "open_image(mapper=FSMap(root=\'<tmp>/product\', '
 "fs=LocalFileSystem), *['IMG-HH-ALOS2012345678-123456-WBDR1.1__D-B1'], **{'use_cache': False, "
 '\'create_cache\': False, \'records_per_chunk\': 4096})"]',
 "create_cache[FileNotFoundError]('product/IMG-HH-ALOS2012345678-123456-WBDR1.1__D-B1', None, 4096) new "
 'files [] missing []',
 "create_cache[FileNotFoundError]('product/IMG-HH-ALOS2012345678-123456-WBDR1.1__D-B1', 'cache', 4096) -> "
 "raised builtins.FileNotFoundError:FileNotFoundError('no such image') args=('no such image',) "
 'cause=builtins.NoneType:None context=NoneType suppress=False',
 "create_cache[FileNotFoundError]('product/IMG-HH-ALOS2012345678-123456-WBDR1.1__D-B1', 'cache', 4096) log "
 '["Path(\'<tmp>/product/IMG-HH-ALOS2012345678-123456-WBDR1.1__D-B1\').is_file(*(), **{})", '
 '"Path(\'<tmp>/cache\').is_dir(*(), **{})", "Path(\'<tmp>/product\').as_uri(*(), **{})", '
 '"open_image(mapper=FSMap(root=\'<tmp>/product\', fs=LocalFileSystem), '
 "*['IMG-HH-ALOS2012345678-123456-WBDR1.1__D-B1'], **{'use_cache': False, 'create_cache': False, "
 '\'records_per_chunk\': 4096})"]',
 "create_cache[FileNotFoundError]('product/IMG-HH-ALOS2012345678-123456-WBDR1.1__D-B1', 'cache', 4096) new "
 'files [] missing []',
 "create_cache[FileNotFoundError]('product/IMG-HH-ALOS2012345678-123456-WBDR1.1__D-B1', 'cache', None) -> "
 "raised builtins.FileNotFoundError:FileNotFoundError('no such image') args=('no such image',) "
 'cause=builtins.NoneType:None context=NoneType suppress=False',
 "create_cache[FileNotFoundError]('product/IMG-HH-ALOS2012345678-123456-WBDR1.1__D-B1', 'cache', None) log "
 '["Path(\'<tmp>/product/IMG-HH-ALOS2012345678-123456-WBDR1.1__D-B1\').is_file(*(), **{})", '
 '"Path(\'<tmp>/cache\').is_dir(*(), **{})", "Path(\'<tmp>/product\').as_uri(*(), **{})", '
 '"open_image(mapper=FSMap(root=\'<tmp>/product\', fs=LocalFileSystem), '
 "*['IMG-HH-ALOS2012345678-123456-WBDR1.1__D-B1'], **{'use_cache': False, 'create_cache': False, "
 '\'records_per_chunk\': None})"]',
 "create_cache[FileNotFoundError]('product/IMG-HH-ALOS2012345678-123456-WBDR1.1__D-B1', 'cache', None) new "
 'files [] missing []',
 "create_cache[FileNotFoundError]('product/IMG-HH-ALOS2012345678-123456-WBDR1.1__D-B1', 'cache', 'auto') -> "
 "raised builtins.FileNotFoundError:FileNotFoundError('no such image') args=('no such image',) "
 'cause=builtins.NoneType:None context=NoneType suppress=False',
 "create_cache[FileNotFoundError]('product/IMG-HH-ALOS2012345678-123456-WBDR1.1__D-B1', 'cache', 'auto') log "
 '["Path(\'<tmp>/product/IMG-HH-ALOS2012345678-123456-WBDR1.1__D-B1\').is_file(*(), **{})", '
 '"Path(\'<tmp>/cache\').is_dir(*(), **{})", "Path(\'<tmp>/product\').as_uri(*(), **{})", '
 '"open_image(mapper=FSMap(root=\'<tmp>/product\', fs=LocalFileSystem), '
 "*['IMG-HH-ALOS2012345678-123456-WBDR1.1__D-B1'], **{'use_cache': False, 'create_cache': False, "
 '\'records_per_chunk\': \'auto\'})"]',
 "create_cache[FileNotFoundError]('product/IMG-HH-ALOS2012345678-123456-WBDR1.1__D-B1', 'cache', 'auto') new "
 'files [] missing []',
 "create_cache[OSError(errno)]('product/IMG-HH-ALOS2012345678-123456-WBDR1.1__D-B1', None, 4096) -> raised "
 "builtins.OSError:OSError(5, 'Input/output error') args=(5, 'Input/output error') "
 'cause=builtins.NoneType:None context=NoneType suppress=False',
 "create_cache[OSError(errno)]('product/IMG-HH-ALOS2012345678-123456-WBDR1.1__D-B1', None, 4096) log "
 '["Path(\'<tmp>/product/IMG-HH-ALOS2012345678-123456-WBDR1.1__D-B1\').is_file(*(), **{})", '
 '"Path(\'<tmp>/product\').as_uri(*(), **{})", "open_image(mapper=FSMap(root=\'<tmp>/product\', '
 "fs=LocalFileSystem), *['IMG-HH-ALOS2012345678-123456-WBDR1.1__D-B1'], **{'use_cache': False, "
 '\'create_cache\': False, \'records_per_chunk\': 4096})"]',
 "create_cache[OSError(errno)]('product/IMG-HH-ALOS2012345678-123456-WBDR1.1__D-B1', None, 4096) new files "
 '[] missing []',
 "create_cache[OSError(errno)]('product/IMG-HH-ALOS2012345678-123456-WBDR1.1__D-B1', 'cache', 4096) -> "
 "raised builtins.OSError:OSError(5, 'Input/output error') args=(5, 'Input/output error') "
 'cause=builtins.NoneType:None context=NoneType suppress=False',
 "create_cache[OSError(errno)]('product/IMG-HH-ALOS2012345678-123456-WBDR1.1__D-B1', 'cache', 4096) log "
 '["Path(\'<tmp>/product/IMG-HH-ALOS2012345678-123456-WBDR1.1__D-B1\').is_file(*(), **{})", '
 '"Path(\'<tmp>/cache\').is_dir(*(), **{})", "Path(\'<tmp>/product\').as_uri(*(), **{})", '
 '"open_image(mapper=FSMap(root=\'<tmp>/product\', fs=LocalFileSystem), '
 "*['IMG-HH-ALOS2012345678-123456-WBDR1.1__D-B1'], **{'use_cache': False, 'create_cache': False, "
 '\'records_per_chunk\': 4096})"]',
 "create_cache[OSError(errno)]('product/IMG-HH-ALOS2012345678-123456-WBDR1.1__D-B1', 'cache', 4096) new "
 'files [] missing []',
 "create_cache[OSError(errno)]('product/IMG-HH-ALOS2012345678-123456-WBDR1.1__D-B1', 'cache', None) -> "
 "raised builtins.OSError:OSError(5, 'Input/output error') args=(5, 'Input/output error') "
 'cause=builtins.NoneType:None context=NoneType suppress=False',
 "create_cache[OSError(errno)]('product/IMG-HH-ALOS2012345678-123456-WBDR1.1__D-B1', 'cache', None) log "
 '["Path(\'<tmp>/product/IMG-HH-ALOS2012345678-123456-WBDR1.1__D-B1\').is_file(*(), **{})", '
 '"Path(\'<tmp>/cache\').is_dir(*(), **{})", "Path(\'<tmp>/product\').as_uri(*(), **{})", '
 '"open_image(mapper=FSMap(root=\'<tmp>/product\', fs=LocalFileSystem), '
 "*['IMG-HH-ALOS2012345678-123456-WBDR1.1__D-B1'], **{'use_cache': False, 'create_cache': False, "
 '\'records_per_chunk\': None})"]',
 "create_cache[OSError(errno)]('product/IMG-HH-ALOS2012345678-123456-WBDR1.1__D-B1', 'cache', None) new "
 'files [] missing []',
 "create_cache[OSError(errno)]('product/IMG-HH-ALOS2012345678-123456-WBDR1.1__D-B1', 'cache', 'auto') -> "
 "raised builtins.OSError:OSError(5, 'Input/output error') args=(5, 'Input/output error') "
 'cause=builtins.NoneType:None context=NoneType suppress=False',
 "create_cache[OSError(errno)]('product/IMG-HH-ALOS2012345678-123456-WBDR1.1__D-B1', 'cache', 'auto') log "
 '["Path(\'<tmp>/product/IMG-HH-ALOS2012345678-123456-WBDR1.1__D-B1\').is_file(*(), **{})", '
 '"Path(\'<tmp>/cache\').is_dir(*(), **{})", "Path(\'<tmp>/product\').as_uri(*(), **{})", '
 '"open_image(mapper=FSMap(root=\'<tmp>/product\', fs=LocalFileSystem), '
 "*['IMG-HH-ALOS2012345678-123456-WBDR1.1__D-B1'], **{'use_cache': False, 'create_cache': False, "
 '\'records_per_chunk\': \'auto\'})"]',
 "create_cache[OSError(errno)]('product/IMG-HH-ALOS2012345678-123456-WBDR1.1__D-B1', 'cache', 'auto') new "
 'files [] missing []',
 "create_cache[ValueError]('product/IMG-HH-ALOS2012345678-123456-WBDR1.1__D-B1', None, 4096) -> raised "
 "builtins.ValueError:ValueError('bad header') args=('bad header',) cause=builtins.NoneType:None "
 'context=NoneType suppress=False',
 "create_cache[ValueError]('product/IMG-HH-ALOS2012345678-123456-WBDR1.1__D-B1', None, 4096) log "
 '["Path(\'<tmp>/product/IMG-HH-ALOS2012345678-123456-WBDR1.1__D-B1\').is_file(*(), **{})", '
 '"Path(\'<tmp>/product\').as_uri(*(), **{})", "open_image(mapper=FSMap(root=\'<tmp>/product\', '
 "fs=LocalFileSystem), *['IMG-HH-ALOS2012345678-123456-WBDR1.1__D-B1'], **{'use_cache': False, "
 '\'create_cache\': False, \'records_per_chunk\': 4096})"]',
 "create_cache[ValueError]('product/IMG-HH-ALOS2012345678-123456-WBDR1.1__D-B1', None, 4096) new files [] "
 'missing []',
 "create_cache[ValueError]('product/IMG-HH-ALOS2012345678-123456-WBDR1.1__D-B1', 'cache', 4096) -> raised "
 "builtins.ValueError:ValueError('bad header') args=('bad header',) cause=builtins.NoneType:None "
 'context=NoneType suppress=False',
 "create_cache[ValueError]('product/IMG-HH-ALOS2012345678-123456-WBDR1.1__D-B1', 'cache', 4096) log "
 '["Path(\'<tmp>/product/IMG-HH-ALOS2012345678-123456-WBDR1.1__D-B1\').is_file(*(), **{})", '
 '"Path(\'<tmp>/cache\').is_dir(*(), **{})", "Path(\'<tmp>/product\').as_uri(*(), **{})", '
 '"open_image(mapper=FSMap(root=\'<tmp>/product\', fs=LocalFileSystem), '
 "*['IMG-HH-ALOS2012345678-123456-WBDR1.1__D-B1'], **{'use_cache': False, 'create_cache': False, "
 '\'records_per_chunk\': 4096})"]',
 "create_cache[ValueError]('product/IMG-HH-ALOS2012345678-123456-WBDR1.1__D-B1', 'cache', 4096) new files [] "
 'missing []',
 "create_cache[ValueError]('product/IMG-HH-ALOS2012345678-123456-WBDR1.1__D-B1', 'cache', None) -> raised "
 "builtins.ValueError:ValueError('bad header') args=('bad header',) cause=builtins.NoneType:None "
 'context=NoneType suppress=False',
 "create_cache[ValueError]('product/IMG-HH-ALOS2012345678-123456-WBDR1.1__D-B1', 'cache', None) log "
 '["Path(\'<tmp>/product/IMG-HH-ALOS2012345678-123456-WBDR1.1__D-B1\').is_file(*(), **{})", '
 '"Path(\'<tmp>/cache\').is_dir(*(), **{})", "Path(\'<tmp>/product\').as_uri(*(), **{})", '
 '"open_image(mapper=FSMap(root=\'<tmp>/product\', fs=LocalFileSystem), '
 "*['IMG-HH-ALOS2012345678-123456-WBDR1.1__D-B1'], **{'use_cache': False, 'create_cache': False, "
 '\'records_per_chunk\': None})"]',
 "create_cache[ValueError]('product/IMG-HH-ALOS2012345678-123456-WBDR1.1__D-B1', 'cache', None) new files [] "
 'missing []',
 "create_cache[ValueError]('product/IMG-HH-ALOS2012345678-123456-WBDR1.1__D-B1', 'cache', 'auto') -> raised "
 "builtins.ValueError:ValueError('bad header') args=('bad header',) cause=builtins.NoneType:None "
 'context=NoneType suppress=False',
 "create_cache[ValueError]('product/IMG-HH-ALOS2012345678-123456-WBDR1.1__D-B1', 'cache', 'auto') log "
 '["Path(\'<tmp>/product/IMG-HH-ALOS2012345678-123456-WBDR1.1__D-B1\').is_file(*(), **{})", '
 '"Path(\'<tmp>/cache\').is_dir(*(), **{})", "Path(\'<tmp>/product\').as_uri(*(), **{})", '
 '"open_image(mapper=FSMap(root=\'<tmp>/product\', fs=LocalFileSystem), '
 "*['IMG-HH-ALOS2012345678-123456-WBDR1.1__D-B1'], **{'use_cache': False, 'create_cache': False, "
 '\'records_per_chunk\': \'auto\'})"]',
 "create_cache[ValueError]('product/IMG-HH-ALOS2012345678-123456-WBDR1.1__D-B1', 'cache', 'auto') new files "
 '[] missing []',
 'create_cache[relative](\'product/plain.bin\', None) -> raised builtins.ValueError:ValueError("relative '
 'path can\'t be expressed as a file URI") args=("relative path can\'t be expressed as a file URI",) '
 'cause=builtins.NoneType:None context=NoneType suppress=False',
 'create_cache[relative](\'product/plain.bin\', None) log ["Path(\'product/plain.bin\').is_file(*(), **{})", '
 '"Path(\'product\').as_uri(*(), **{})"]',
 "create_cache[relative]('product/plain.bin', None) files ['<tmp>/cache/afile', "
 "'<tmp>/product/IMG-HH-ALOS2012345678-123456-WBDR1.1__D-B1', '<tmp>/product/name with space', "
 "'<tmp>/product/plain.bin', '<tmp>/ünï cödé/img']",
 "create_cache[relative]('product/plain.bin', 'cache') -> raised "
 'builtins.ValueError:ValueError("relative path can\'t be expressed as a file URI") args=("relative path '
 'can\'t be expressed as a file URI",) cause=builtins.NoneType:None context=NoneType suppress=False',
 'create_cache[relative](\'product/plain.bin\', \'cache\') log ["Path(\'product/plain.bin\').is_file(*(), '
 '**{})", "Path(\'cache\').is_dir(*(), **{})", "Path(\'product\').as_uri(*(), **{})"]',
 "create_cache[relative]('product/plain.bin', 'cache') files ['<tmp>/cache/afile', "
 "'<tmp>/product/IMG-HH-ALOS2012345678-123456-WBDR1.1__D-B1', '<tmp>/product/name with space', "
 "'<tmp>/product/plain.bin', '<tmp>/ünï cödé/img']",
 "create_cache[relative]('plain.bin', None) -> raised builtins.FileNotFoundError:FileNotFoundError('Cannot "
 "find image file at given path: plain.bin') args=('Cannot find image file at given path: plain.bin',) "
 'cause=builtins.NoneType:None context=NoneType suppress=False',
 'create_cache[relative](\'plain.bin\', None) log ["Path(\'plain.bin\').is_file(*(), **{})"]',
 "create_cache[relative]('plain.bin', None) files ['<tmp>/cache/afile', "
 "'<tmp>/product/IMG-HH-ALOS2012345678-123456-WBDR1.1__D-B1', '<tmp>/product/name with space', "
 "'<tmp>/product/plain.bin', '<tmp>/ünï cödé/img']",
 "create_cache[relative]('product/missing', None) -> raised "
 "builtins.FileNotFoundError:FileNotFoundError('Cannot find image file at given path: product/missing') "
 "args=('Cannot find image file at given path: product/missing',) cause=builtins.NoneType:None "
 'context=NoneType suppress=False',
 'create_cache[relative](\'product/missing\', None) log ["Path(\'product/missing\').is_file(*(), **{})"]',
 "create_cache[relative]('product/missing', None) files ['<tmp>/cache/afile', "
 "'<tmp>/product/IMG-HH-ALOS2012345678-123456-WBDR1.1__D-B1', '<tmp>/product/name with space', "
 "'<tmp>/product/plain.bin', '<tmp>/ünï cödé/img']",
 "create_cache[relative]('product/plain.bin', 'missing') -> raised builtins.OSError:OSError('Cannot find the "
 "target cache root: missing') args=('Cannot find the target cache root: missing',) "
 'cause=builtins.NoneType:None context=NoneType suppress=False',
 'create_cache[relative](\'product/plain.bin\', \'missing\') log ["Path(\'product/plain.bin\').is_file(*(), '
 '**{})", "Path(\'missing\').is_dir(*(), **{})"]',
 "create_cache[relative]('product/plain.bin', 'missing') files ['<tmp>/cache/afile', "
 "'<tmp>/product/IMG-HH-ALOS2012345678-123456-WBDR1.1__D-B1', '<tmp>/product/name with space', "
 "'<tmp>/product/plain.bin', '<tmp>/ünï cödé/img']",
 "create_cache[relative]('.', None) -> raised builtins.FileNotFoundError:FileNotFoundError('Cannot find "
 "image file at given path: .') args=('Cannot find image file at given path: .',) "
 'cause=builtins.NoneType:None context=NoneType suppress=False',
 'create_cache[relative](\'.\', None) log ["Path(\'.\').is_file(*(), **{})"]',
 "create_cache[relative]('.', None) files ['<tmp>/cache/afile', "
 "'<tmp>/product/IMG-HH-ALOS2012345678-123456-WBDR1.1__D-B1', '<tmp>/product/name with space', "
 "'<tmp>/product/plain.bin', '<tmp>/ünï cödé/img']",
 "create_cache[real]('product/IMG-HH-ALOS2012345678-123456-WBDR1.1__D-B1', None) -> raised "
 "construct.core.StreamError:StreamError('Error in path (parsing) -> "
 "record_sequence_and_location_type_flag\\nstream read less than specified amount, expected 4, found 0')",
 "create_cache[real]('product/IMG-HH-ALOS2012345678-123456-WBDR1.1__D-B1', None) log "
 '["Path(\'<tmp>/product/IMG-HH-ALOS2012345678-123456-WBDR1.1__D-B1\').is_file(*(), **{})", '
 '"Path(\'<tmp>/product\').as_uri(*(), **{})"]',
 "create_cache[real]('product/IMG-HH-ALOS2012345678-123456-WBDR1.1__D-B1', None) files ['<tmp>/cache/afile', "
 "'<tmp>/product/IMG-HH-ALOS2012345678-123456-WBDR1.1__D-B1', '<tmp>/product/name with space', "
 "'<tmp>/product/plain.bin', '<tmp>/ünï cödé/img']",
 "create_cache[real]('product/plain.bin', 'cache') -> raised construct.core.StreamError:StreamError('Error "
 'in path (parsing) -> preamble -> record_sequence_number\\nstream read less than specified amount, expected '
 "4, found 3')",
 'create_cache[real](\'product/plain.bin\', \'cache\') log ["Path(\'<tmp>/product/plain.bin\').is_file(*(), '
 '**{})", "Path(\'<tmp>/cache\').is_dir(*(), **{})", "Path(\'<tmp>/product\').as_uri(*(), **{})"]',
 "create_cache[real]('product/plain.bin', 'cache') files ['<tmp>/cache/afile', "
 "'<tmp>/product/IMG-HH-ALOS2012345678-123456-WBDR1.1__D-B1', '<tmp>/product/name with space', "
 "'<tmp>/product/plain.bin', '<tmp>/ünï cödé/img']",
 "create_cache[types]('<tmp>/product/plain.bin', None, 1) -> raised "
 'builtins.AttributeError:AttributeError("\'str\' object has no attribute \'is_file\'") args=("\'str\' '
 'object has no attribute \'is_file\'",) cause=builtins.NoneType:None context=NoneType suppress=False',
 "create_cache[types](PosixPath('<tmp>/product/plain.bin'), '<tmp>/cache', 1) -> raised "
 'builtins.AttributeError:AttributeError("\'str\' object has no attribute \'is_dir\'") args=("\'str\' object '
 'has no attribute \'is_dir\'",) cause=builtins.NoneType:None context=NoneType suppress=False',
 'create_cache[types](None, None, 1) -> raised builtins.AttributeError:AttributeError("\'NoneType\' object '
 'has no attribute \'is_file\'") args=("\'NoneType\' object has no attribute \'is_file\'",) '
 'cause=builtins.NoneType:None context=NoneType suppress=False',
 "create_cache[types](PurePosixPath('/a/b'), None, 1) -> raised "
 'builtins.AttributeError:AttributeError("\'PurePosixPath\' object has no attribute \'is_file\'") '
 'args=("\'PurePosixPath\' object has no attribute \'is_file\'",) cause=builtins.NoneType:None '
 'context=NoneType suppress=False',
 'create_cache[types] log ["Path(\'<tmp>/product/plain.bin\').is_file(*(), **{})"]',
 "create_cache[types] files ['<tmp>/cache/afile', "
 "'<tmp>/product/IMG-HH-ALOS2012345678-123456-WBDR1.1__D-B1', '<tmp>/product/name with space', "
 "'<tmp>/product/plain.bin', '<tmp>/ünï cödé/img']",
 "keywords -> raised builtins.FileNotFoundError:FileNotFoundError('Cannot find image file at given path: "
 "<tmp>/product/missing') args=('Cannot find image file at given path: <tmp>/product/missing',) "
 'cause=builtins.NoneType:None context=NoneType suppress=False',
 'missing argument -> raised builtins.TypeError:TypeError("create_cache() missing 1 required positional '
 'argument: \'records_per_chunk\'") args=("create_cache() missing 1 required positional argument: '
 '\'records_per_chunk\'",) cause=builtins.NoneType:None context=NoneType suppress=False',
 "main[group]('ceos-alos2-create-cache', []) -> SystemExit(2) context=NoneType stdout='' stderr='usage: "
 'ceos-alos2-create-cache [-h] [--rpc [RPC]] image_path [cache_root]\\nceos-alos2-create-cache: error: the '
 "following arguments are required: image_path\\n'",
 "main[group]('ceos-alos2-create-cache', []) log []",
 "main[group]('ceos-alos2-create-cache', []) files ['<tmp>/cache/afile', "
 "'<tmp>/product/IMG-HH-ALOS2012345678-123456-WBDR1.1__D-B1', '<tmp>/product/name with space', "
 "'<tmp>/product/plain.bin', '<tmp>/ünï cödé/img']",
 "main[group]('ceos-alos2-create-cache', ['-h']) -> SystemExit(0) context=NoneType stdout='usage: "
 'ceos-alos2-create-cache [-h] [--rpc [RPC]] image_path [cache_root]\\n\\npositional arguments:\\n  '
 'image_path   image path to create a cache file for\\n  cache_root   Root path to the new cache file. By '
 'default, it is created in\\n               the same directory as the image file.\\n\\noptions:\\n  -h, '
 '--help   show this help message and exit\\n  --rpc [RPC]  records-per-chunk size used to create the cache '
 "files\\n' stderr=''",
 "main[group]('ceos-alos2-create-cache', ['-h']) log []",
 "main[group]('ceos-alos2-create-cache', ['-h']) files ['<tmp>/cache/afile', "
 "'<tmp>/product/IMG-HH-ALOS2012345678-123456-WBDR1.1__D-B1', '<tmp>/product/name with space', "
 "'<tmp>/product/plain.bin', '<tmp>/ünï cödé/img']",
 "main[group]('ceos-alos2-create-cache', ['--help']) -> SystemExit(0) context=NoneType stdout='usage: "
 'ceos-alos2-create-cache [-h] [--rpc [RPC]] image_path [cache_root]\\n\\npositional arguments:\\n  '
 'image_path   image path to create a cache file for\\n  cache_root   Root path to the new cache file. By '
 'default, it is created in\\n               the same directory as the image file.\\n\\noptions:\\n  -h, '
 '--help   show this help message and exit\\n  --rpc [RPC]  records-per-chunk size used to create the cache '
 "files\\n' stderr=''",
 "main[group]('ceos-alos2-create-cache', ['--help']) log []",
 "main[group]('ceos-alos2-create-cache', ['--help']) files ['<tmp>/cache/afile', "
 "'<tmp>/product/IMG-HH-ALOS2012345678-123456-WBDR1.1__D-B1', '<tmp>/product/name with space', "
 "'<tmp>/product/plain.bin', '<tmp>/ünï cödé/img']",
 "main[group]('ceos-alos2-create-cache', ['--rpc']) -> SystemExit(2) context=NoneType stdout='' "
 "stderr='usage: ceos-alos2-create-cache [-h] [--rpc [RPC]] image_path "
 "[cache_root]\\nceos-alos2-create-cache: error: the following arguments are required: image_path\\n'",
 "main[group]('ceos-alos2-create-cache', ['--rpc']) log []",
 "main[group]('ceos-alos2-create-cache', ['--rpc']) files ['<tmp>/cache/afile', "
 "'<tmp>/product/IMG-HH-ALOS2012345678-123456-WBDR1.1__D-B1', '<tmp>/product/name with space', "
 "'<tmp>/product/plain.bin', '<tmp>/ünï cödé/img']",
 "main[group]('ceos-alos2-create-cache', ['--rpc', '12']) -> SystemExit(2) context=NoneType stdout='' "
 "stderr='usage: ceos-alos2-create-cache [-h] [--rpc [RPC]] image_path "
 "[cache_root]\\nceos-alos2-create-cache: error: the following arguments are required: image_path\\n'",
 "main[group]('ceos-alos2-create-cache', ['--rpc', '12']) log []",
 "main[group]('ceos-alos2-create-cache', ['--rpc', '12']) files ['<tmp>/cache/afile', "
 "'<tmp>/product/IMG-HH-ALOS2012345678-123456-WBDR1.1__D-B1', '<tmp>/product/name with space', "
 "'<tmp>/product/plain.bin', '<tmp>/ünï cödé/img']",
 "main[group]('ceos-alos2-create-cache', ['--rpc', 'x', '{image}']) -> SystemExit(2) context=ArgumentError "
 'stdout=\'\' stderr="usage: ceos-alos2-create-cache [-h] [--rpc [RPC]] image_path '
 '[cache_root]\\nceos-alos2-create-cache: error: argument --rpc: invalid int value: \'x\'\\n"',
 "main[group]('ceos-alos2-create-cache', ['--rpc', 'x', '{image}']) log []",
 "main[group]('ceos-alos2-create-cache', ['--rpc', 'x', '{image}']) files ['<tmp>/cache/afile', "
 "'<tmp>/product/IMG-HH-ALOS2012345678-123456-WBDR1.1__D-B1', '<tmp>/product/name with space', "
 "'<tmp>/product/plain.bin', '<tmp>/ünï cödé/img']",
 "main[group]('ceos-alos2-create-cache', ['{image}']) -> ok builtins.NoneType:None stdout='' stderr=''",
 "main[group]('ceos-alos2-create-cache', ['{image}']) log "
 '["Path(\'<tmp>/product/IMG-HH-ALOS2012345678-123456-WBDR1.1__D-B1\').is_file(*(), **{})", '
 '"Path(\'<tmp>/product\').as_uri(*(), **{})", "open_image(mapper=FSMap(root=\'<tmp>/product\', '
 "fs=LocalFileSystem), *['IMG-HH-ALOS2012345678-123456-WBDR1.1__D-B1'], **{'use_cache': False, "
 '\'create_cache\': False, \'records_per_chunk\': 4096})", '
 '\'Path(\\\'<tmp>/product/IMG-HH-ALOS2012345678-123456-WBDR1.1__D-B1.index\\\').write_text(*(\\\'{"__type__": '
 '"group", "url": null, "data": {"x": {"__type__": "variable", "dims": ["x"], "data": {"__type__": "array", '
 '"dtype": "int16", "data": [0, 1, 2], "encoding": {}}, "attrs": {"units": "m"}}}, "path": "/", "attrs": '
 '{"path": "IMG-HH-ALOS2012345678-123456-WBDR1.1__D-B1", "rpc": "4096"}}\\\',), **{})\']',
 "main[group]('ceos-alos2-create-cache', ['{image}']) files ['<tmp>/cache/afile', "
 "'<tmp>/product/IMG-HH-ALOS2012345678-123456-WBDR1.1__D-B1', "
 "'<tmp>/product/IMG-HH-ALOS2012345678-123456-WBDR1.1__D-B1.index', '<tmp>/product/name with space', "
 "'<tmp>/product/plain.bin', '<tmp>/ünï cödé/img']",
 "main[group]('ceos-alos2-create-cache', ['--rpc', '12', '{image}']) -> ok builtins.NoneType:None stdout='' "
 "stderr=''",
 "main[group]('ceos-alos2-create-cache', ['--rpc', '12', '{image}']) log "
 '["Path(\'<tmp>/product/IMG-HH-ALOS2012345678-123456-WBDR1.1__D-B1\').is_file(*(), **{})", '
 '"Path(\'<tmp>/product\').as_uri(*(), **{})", "open_image(mapper=FSMap(root=\'<tmp>/product\', '
 "fs=LocalFileSystem), *['IMG-HH-ALOS2012345678-123456-WBDR1.1__D-B1'], **{'use_cache': False, "
 '\'create_cache\': False, \'records_per_chunk\': 12})", '
 '\'Path(\\\'<tmp>/product/IMG-HH-ALOS2012345678-123456-WBDR1.1__D-B1.index\\\').write_text(*(\\\'{"__type__": '
 '"group", "url": null, "data": {"x": {"__type__": "variable", "dims": ["x"], "data": {"__type__": "array", '
 '"dtype": "int16", "data": [0, 1, 2], "encoding": {}}, "attrs": {"units": "m"}}}, "path": "/", "attrs": '
 '{"path": "IMG-HH-ALOS2012345678-123456-WBDR1.1__D-B1", "rpc": "12"}}\\\',), **{})\']',
 "main[group]('ceos-alos2-create-cache', ['--rpc', '12', '{image}']) files ['<tmp>/cache/afile', "
 "'<tmp>/product/IMG-HH-ALOS2012345678-123456-WBDR1.1__D-B1', "
 "'<tmp>/product/IMG-HH-ALOS2012345678-123456-WBDR1.1__D-B1.index', '<tmp>/product/name with space', "
 "'<tmp>/product/plain.bin', '<tmp>/ünï cödé/img']",
 "main[group]('ceos-alos2-create-cache', ['--rpc=12', '{image}']) -> ok builtins.NoneType:None stdout='' "
 "stderr=''",
 "main[group]('ceos-alos2-create-cache', ['--rpc=12', '{image}']) log "
 '["Path(\'<tmp>/product/IMG-HH-ALOS2012345678-123456-WBDR1.1__D-B1\').is_file(*(), **{})", '
 '"Path(\'<tmp>/product\').as_uri(*(), **{})", "open_image(mapper=FSMap(root=\'<tmp>/product\', '
 "fs=LocalFileSystem), *['IMG-HH-ALOS2012345678-123456-WBDR1.1__D-B1'], **{'use_cache': False, "
 '\'create_cache\': False, \'records_per_chunk\': 12})", '
 '\'Path(\\\'<tmp>/product/IMG-HH-ALOS2012345678-123456-WBDR1.1__D-B1.index\\\').write_text(*(\\\'{"__type__": '
 '"group", "url": null, "data": {"x": {"__type__": "variable", "dims": ["x"], "data": {"__type__": "array", '
 '"dtype": "int16", "data": [0, 1, 2], "encoding": {}}, "attrs": {"units": "m"}}}, "path": "/", "attrs": '
 '{"path": "IMG-HH-ALOS2012345678-123456-WBDR1.1__D-B1", "rpc": "12"}}\\\',), **{})\']',
 "main[group]('ceos-alos2-create-cache', ['--rpc=12', '{image}']) files ['<tmp>/cache/afile', "
 "'<tmp>/product/IMG-HH-ALOS2012345678-123456-WBDR1.1__D-B1', "
 "'<tmp>/product/IMG-HH-ALOS2012345678-123456-WBDR1.1__D-B1.index', '<tmp>/product/name with space', "
 "'<tmp>/product/plain.bin', '<tmp>/ünï cödé/img']",
 "main[group]('ceos-alos2-create-cache', ['--rp', '12', '{image}']) -> ok builtins.NoneType:None stdout='' "
 "stderr=''",
 "main[group]('ceos-alos2-create-cache', ['--rp', '12', '{image}']) log "
 '["Path(\'<tmp>/product/IMG-HH-ALOS2012345678-123456-WBDR1.1__D-B1\').is_file(*(), **{})", '
 '"Path(\'<tmp>/product\').as_uri(*(), **{})", "open_image(mapper=FSMap(root=\'<tmp>/product\', '
 "fs=LocalFileSystem), *['IMG-HH-ALOS2012345678-123456-WBDR1.1__D-B1'], **{'use_cache': False, "
 '\'create_cache\': False, \'records_per_chunk\': 12})", '
 '\'Path(\\\'<tmp>/product/IMG-HH-ALOS2012345678-123456-WBDR1.1__D-B1.index\\\').write_text(*(\\\'{"__type__": '
 '"group", "url": null, "data": {"x": {"__type__": "variable", "dims": ["x"], "data": {"__type__": "array", '
 '"dtype": "int16", "data": [0, 1, 2], "encoding": {}}, "attrs": {"units": "m"}}}, "path": "/", "attrs": '
 '{"path": "IMG-HH-ALOS2012345678-123456-WBDR1.1__D-B1", "rpc": "12"}}\\\',), **{})\']',
 "main[group]('ceos-alos2-create-cache', ['--rp', '12', '{image}']) files ['<tmp>/cache/afile', "
 "'<tmp>/product/IMG-HH-ALOS2012345678-123456-WBDR1.1__D-B1', "
 "'<tmp>/product/IMG-HH-ALOS2012345678-123456-WBDR1.1__D-B1.index', '<tmp>/product/name with space', "
 "'<tmp>/product/plain.bin', '<tmp>/ünï cödé/img']",
 "main[group]('ceos-alos2-create-cache', ['{image}', '--rpc', '12']) -> ok builtins.NoneType:None stdout='' "
 "stderr=''",
 "main[group]('ceos-alos2-create-cache', ['{image}', '--rpc', '12']) log "
 '["Path(\'<tmp>/product/IMG-HH-ALOS2012345678-123456-WBDR1.1__D-B1\').is_file(*(), **{})", '
 '"Path(\'<tmp>/product\').as_uri(*(), **{})", "open_image(mapper=FSMap(root=\'<tmp>/product\', '
 "fs=LocalFileSystem), *['IMG-HH-ALOS2012345678-123456-WBDR1.1__D-B1'], **{'use_cache': False, "
 '\'create_cache\': False, \'records_per_chunk\': 12})", '
 '\'Path(\\\'<tmp>/product/IMG-HH-ALOS2012345678-123456-WBDR1.1__D-B1.index\\\').write_text(*(\\\'{"__type__": '
 '"group", "url": null, "data": {"x": {"__type__": "variable", "dims": ["x"], "data": {"__type__": "array", '
 '"dtype": "int16", "data": [0, 1, 2], "encoding": {}}, "attrs": {"units": "m"}}}, "path": "/", "attrs": '
 '{"path": "IMG-HH-ALOS2012345678-123456-WBDR1.1__D-B1", "rpc": "12"}}\\\',), **{})\']',
 "main[group]('ceos-alos2-create-cache', ['{image}', '--rpc', '12']) files ['<tmp>/cache/afile', "
 "'<tmp>/product/IMG-HH-ALOS2012345678-123456-WBDR1.1__D-B1', "
 "'<tmp>/product/IMG-HH-ALOS2012345678-123456-WBDR1.1__D-B1.index', '<tmp>/product/name with space', "
 "'<tmp>/product/plain.bin', '<tmp>/ünï cödé/img']",
 "main[group]('ceos-alos2-create-cache', ['{image}', '--rpc']) -> ok builtins.NoneType:None stdout='' "
 "stderr=''",
 "main[group]('ceos-alos2-create-cache', ['{image}', '--rpc']) log "
 '["Path(\'<tmp>/product/IMG-HH-ALOS2012345678-123456-WBDR1.1__D-B1\').is_file(*(), **{})", '
 '"Path(\'<tmp>/product\').as_uri(*(), **{})", "open_image(mapper=FSMap(root=\'<tmp>/product\', '
 "fs=LocalFileSystem), *['IMG-HH-ALOS2012345678-123456-WBDR1.1__D-B1'], **{'use_cache': False, "
 '\'create_cache\': False, \'records_per_chunk\': None})", '
 '\'Path(\\\'<tmp>/product/IMG-HH-ALOS2012345678-123456-WBDR1.1__D-B1.index\\\').write_text(*(\\\'{"__type__": '
 '"group", "url": null, "data": {"x": {"__type__": "variable", "dims": ["x"], "data": {"__type__": "array", '
 '"dtype": "int16", "data": [0, 1, 2], "encoding": {}}, "attrs": {"units": "m"}}}, "path": "/", "attrs": '
 '{"path": "IMG-HH-ALOS2012345678-123456-WBDR1.1__D-B1", "rpc": "None"}}\\\',), **{})\']',
 "main[group]('ceos-alos2-create-cache', ['{image}', '--rpc']) files ['<tmp>/cache/afile', "
 "'<tmp>/product/IMG-HH-ALOS2012345678-123456-WBDR1.1__D-B1', "
 "'<tmp>/product/IMG-HH-ALOS2012345678-123456-WBDR1.1__D-B1.index', '<tmp>/product/name with space', "
 "'<tmp>/product/plain.bin', '<tmp>/ünï cödé/img']",
 "main[group]('ceos-alos2-create-cache', ['--rpc', '{image}']) -> SystemExit(2) context=ArgumentError "
 'stdout=\'\' stderr="usage: ceos-alos2-create-cache [-h] [--rpc [RPC]] image_path '
 '[cache_root]\\nceos-alos2-create-cache: error: argument --rpc: invalid int value: '
 '\'<tmp>/product/IMG-HH-ALOS2012345678-123456-WBDR1.1__D-B1\'\\n"',
 "main[group]('ceos-alos2-create-cache', ['--rpc', '{image}']) log []",
 "main[group]('ceos-alos2-create-cache', ['--rpc', '{image}']) files ['<tmp>/cache/afile', "
 "'<tmp>/product/IMG-HH-ALOS2012345678-123456-WBDR1.1__D-B1', '<tmp>/product/name with space', "
 "'<tmp>/product/plain.bin', '<tmp>/ünï cödé/img']",
 "main[group]('ceos-alos2-create-cache', ['--rpc', '--', '{image}']) -> ok builtins.NoneType:None stdout='' "
 "stderr=''",
 "main[group]('ceos-alos2-create-cache', ['--rpc', '--', '{image}']) log "
 '["Path(\'<tmp>/product/IMG-HH-ALOS2012345678-123456-WBDR1.1__D-B1\').is_file(*(), **{})", '
 '"Path(\'<tmp>/product\').as_uri(*(), **{})", "open_image(mapper=FSMap(root=\'<tmp>/product\', '
 "fs=LocalFileSystem), *['IMG-HH-ALOS2012345678-123456-WBDR1.1__D-B1'], **{'use_cache': False, "
 '\'create_cache\': False, \'records_per_chunk\': None})", '
 '\'Path(\\\'<tmp>/product/IMG-HH-ALOS2012345678-123456-WBDR1.1__D-B1.index\\\').write_text(*(\\\'{"__type__": '
 '"group", "url": null, "data": {"x": {"__type__": "variable", "dims": ["x"], "data": {"__type__": "array", '
 '"dtype": "int16", "data": [0, 1, 2], "encoding": {}}, "attrs": {"units": "m"}}}, "path": "/", "attrs": '
 '{"path": "IMG-HH-ALOS2012345678-123456-WBDR1.1__D-B1", "rpc": "None"}}\\\',), **{})\']',
 "main[group]('ceos-alos2-create-cache', ['--rpc', '--', '{image}']) files ['<tmp>/cache/afile', "
 "'<tmp>/product/IMG-HH-ALOS2012345678-123456-WBDR1.1__D-B1', "
 "'<tmp>/product/IMG-HH-ALOS2012345678-123456-WBDR1.1__D-B1.index', '<tmp>/product/name with space', "
 "'<tmp>/product/plain.bin', '<tmp>/ünï cödé/img']",
 "main[group]('ceos-alos2-create-cache', ['--rpc', '-3', '{image}']) -> ok builtins.NoneType:None stdout='' "
 "stderr=''",
 "main[group]('ceos-alos2-create-cache', ['--rpc', '-3', '{image}']) log "
 '["Path(\'<tmp>/product/IMG-HH-ALOS2012345678-123456-WBDR1.1__D-B1\').is_file(*(), **{})", '
 '"Path(\'<tmp>/product\').as_uri(*(), **{})", "open_image(mapper=FSMap(root=\'<tmp>/product\', '
 "fs=LocalFileSystem), *['IMG-HH-ALOS2012345678-123456-WBDR1.1__D-B1'], **{'use_cache': False, "
 '\'create_cache\': False, \'records_per_chunk\': -3})", '
 '\'Path(\\\'<tmp>/product/IMG-HH-ALOS2012345678-123456-WBDR1.1__D-B1.index\\\').write_text(*(\\\'{"__type__": '
 '"group", "url": null, "data": {"x": {"__type__": "variable", "dims": ["x"], "data": {"__type__": "array", '
 '"dtype": "int16", "data": [0, 1, 2], "encoding": {}}, "attrs": {"units": "m"}}}, "path": "/", "attrs": '
 '{"path": "IMG-HH-ALOS2012345678-123456-WBDR1.1__D-B1", "rpc": "-3"}}\\\',), **{})\']',
 "main[group]('ceos-alos2-create-cache', ['--rpc', '-3', '{image}']) files ['<tmp>/cache/afile', "
 "'<tmp>/product/IMG-HH-ALOS2012345678-123456-WBDR1.1__D-B1', "
 "'<tmp>/product/IMG-HH-ALOS2012345678-123456-WBDR1.1__D-B1.index', '<tmp>/product/name with space', "
 "'<tmp>/product/plain.bin', '<tmp>/ünï cödé/img']",
 "main[group]('ceos-alos2-create-cache', ['--rpc', '0', '{image}', '{root}/cache']) -> ok "
 "builtins.NoneType:None stdout='' stderr=''",
 "main[group]('ceos-alos2-create-cache', ['--rpc', '0', '{image}', '{root}/cache']) log "
 '["Path(\'<tmp>/product/IMG-HH-ALOS2012345678-123456-WBDR1.1__D-B1\').is_file(*(), **{})", '
 '"Path(\'<tmp>/cache\').is_dir(*(), **{})", "Path(\'<tmp>/product\').as_uri(*(), **{})", '
 '"open_image(mapper=FSMap(root=\'<tmp>/product\', fs=LocalFileSystem), '
 "*['IMG-HH-ALOS2012345678-123456-WBDR1.1__D-B1'], **{'use_cache': False, 'create_cache': False, "
 '\'records_per_chunk\': 0})", '
 '\'Path(\\\'<tmp>/cache/IMG-HH-ALOS2012345678-123456-WBDR1.1__D-B1.index\\\').write_text(*(\\\'{"__type__": '
 '"group", "url": null, "data": {"x": {"__type__": "variable", "dims": ["x"], "data": {"__type__": "array", '
 '"dtype": "int16", "data": [0, 1, 2], "encoding": {}}, "attrs": {"units": "m"}}}, "path": "/", "attrs": '
 '{"path": "IMG-HH-ALOS2012345678-123456-WBDR1.1__D-B1", "rpc": "0"}}\\\',), **{})\']',
 "main[group]('ceos-alos2-create-cache', ['--rpc', '0', '{image}', '{root}/cache']) files "
 "['<tmp>/cache/IMG-HH-ALOS2012345678-123456-WBDR1.1__D-B1.index', '<tmp>/cache/afile', "
 "'<tmp>/product/IMG-HH-ALOS2012345678-123456-WBDR1.1__D-B1', '<tmp>/product/name with space', "
 "'<tmp>/product/plain.bin', '<tmp>/ünï cödé/img']",
 "main[group]('ceos-alos2-create-cache', ['{image}', '{root}/cache']) -> ok builtins.NoneType:None stdout='' "
 "stderr=''",
 "main[group]('ceos-alos2-create-cache', ['{image}', '{root}/cache']) log "
 '["Path(\'<tmp>/product/IMG-HH-ALOS2012345678-123456-WBDR1.1__D-B1\').is_file(*(), **{})", '
 '"Path(\'<tmp>/cache\').is_dir(*(), **{})", "Path(\'<tmp>/product\').as_uri(*(), **{})", '
 '"open_image(mapper=FSMap(root=\'<tmp>/product\', fs=LocalFileSystem), '
 "*['IMG-HH-ALOS2012345678-123456-WBDR1.1__D-B1'], **{'use_cache': False, 'create_cache': False, "
 '\'records_per_chunk\': 4096})", '
 '\'Path(\\\'<tmp>/cache/IMG-HH-ALOS2012345678-123456-WBDR1.1__D-B1.index\\\').write_text(*(\\\'{"__type__": '
 '"group", "url": null, "data": {"x": {"__type__": "variable", "dims": ["x"], "data": {"__type__": "array", '
 '"dtype": "int16", "data": [0, 1, 2], "encoding": {}}, "attrs": {"units": "m"}}}, "path": "/", "attrs": '
 '{"path": "IMG-HH-ALOS2012345678-123456-WBDR1.1__D-B1", "rpc": "4096"}}\\\',), **{})\']',
 "main[group]('ceos-alos2-create-cache', ['{image}', '{root}/cache']) files "
 "['<tmp>/cache/IMG-HH-ALOS2012345678-123456-WBDR1.1__D-B1.index', '<tmp>/cache/afile', "
 "'<tmp>/product/IMG-HH-ALOS2012345678-123456-WBDR1.1__D-B1', '<tmp>/product/name with space', "
 "'<tmp>/product/plain.bin', '<tmp>/ünï cödé/img']",
 "main[group]('ceos-alos2-create-cache', ['{image}', '{root}/cache', 'extra']) -> SystemExit(2) "
 "context=NoneType stdout='' stderr='usage: ceos-alos2-create-cache [-h] [--rpc [RPC]] image_path "
 "[cache_root]\\nceos-alos2-create-cache: error: unrecognized arguments: extra\\n'",
 "main[group]('ceos-alos2-create-cache', ['{image}', '{root}/cache', 'extra']) log []",
 "main[group]('ceos-alos2-create-cache', ['{image}', '{root}/cache', 'extra']) files ['<tmp>/cache/afile', "
 "'<tmp>/product/IMG-HH-ALOS2012345678-123456-WBDR1.1__D-B1', '<tmp>/product/name with space', "
 "'<tmp>/product/plain.bin', '<tmp>/ünï cödé/img']",
 "main[group]('ceos-alos2-create-cache', ['{image}', '{root}/cache/afile']) -> SystemExit(1) context=OSError "
 "stdout='' stderr='Cannot find the target cache root: <tmp>/cache/afile\\n'",
 "main[group]('ceos-alos2-create-cache', ['{image}', '{root}/cache/afile']) log "
 '["Path(\'<tmp>/product/IMG-HH-ALOS2012345678-123456-WBDR1.1__D-B1\').is_file(*(), **{})", '
 '"Path(\'<tmp>/cache/afile\').is_dir(*(), **{})"]',
 "main[group]('ceos-alos2-create-cache', ['{image}', '{root}/cache/afile']) files ['<tmp>/cache/afile', "
 "'<tmp>/product/IMG-HH-ALOS2012345678-123456-WBDR1.1__D-B1', '<tmp>/product/name with space', "
 "'<tmp>/product/plain.bin', '<tmp>/ünï cödé/img']",
 "main[group]('ceos-alos2-create-cache', ['{image}', '{root}/cache/missing']) -> SystemExit(1) "
 "context=OSError stdout='' stderr='Cannot find the target cache root: <tmp>/cache/missing\\n'",
 "main[group]('ceos-alos2-create-cache', ['{image}', '{root}/cache/missing']) log "
 '["Path(\'<tmp>/product/IMG-HH-ALOS2012345678-123456-WBDR1.1__D-B1\').is_file(*(), **{})", '
 '"Path(\'<tmp>/cache/missing\').is_dir(*(), **{})"]',
 "main[group]('ceos-alos2-create-cache', ['{image}', '{root}/cache/missing']) files ['<tmp>/cache/afile', "
 "'<tmp>/product/IMG-HH-ALOS2012345678-123456-WBDR1.1__D-B1', '<tmp>/product/name with space', "
 "'<tmp>/product/plain.bin', '<tmp>/ünï cödé/img']",
 "main[group]('ceos-alos2-create-cache', ['{root}/product/missing']) -> SystemExit(1) "
 "context=FileNotFoundError stdout='' stderr='Cannot find image file at given path: "
 "<tmp>/product/missing\\n'",
 "main[group]('ceos-alos2-create-cache', ['{root}/product/missing']) log "
 '["Path(\'<tmp>/product/missing\').is_file(*(), **{})"]',
 "main[group]('ceos-alos2-create-cache', ['{root}/product/missing']) files ['<tmp>/cache/afile', "
 "'<tmp>/product/IMG-HH-ALOS2012345678-123456-WBDR1.1__D-B1', '<tmp>/product/name with space', "
 "'<tmp>/product/plain.bin', '<tmp>/ünï cödé/img']",
 "main[group]('ceos-alos2-create-cache', ['{root}/product/missing', '{root}/cache/missing']) -> "
 "SystemExit(1) context=FileNotFoundError stdout='' stderr='Cannot find image file at given path: "
 "<tmp>/product/missing\\n'",
 "main[group]('ceos-alos2-create-cache', ['{root}/product/missing', '{root}/cache/missing']) log "
 '["Path(\'<tmp>/product/missing\').is_file(*(), **{})"]',
 "main[group]('ceos-alos2-create-cache', ['{root}/product/missing', '{root}/cache/missing']) files "
 "['<tmp>/cache/afile', '<tmp>/product/IMG-HH-ALOS2012345678-123456-WBDR1.1__D-B1', '<tmp>/product/name with "
 "space', '<tmp>/product/plain.bin', '<tmp>/ünï cödé/img']",
 "main[group]('ceos-alos2-create-cache', ['{root}/product']) -> SystemExit(1) context=FileNotFoundError "
 "stdout='' stderr='Cannot find image file at given path: <tmp>/product\\n'",
 'main[group](\'ceos-alos2-create-cache\', [\'{root}/product\']) log ["Path(\'<tmp>/product\').is_file(*(), '
 '**{})"]',
 "main[group]('ceos-alos2-create-cache', ['{root}/product']) files ['<tmp>/cache/afile', "
 "'<tmp>/product/IMG-HH-ALOS2012345678-123456-WBDR1.1__D-B1', '<tmp>/product/name with space', "
 "'<tmp>/product/plain.bin', '<tmp>/ünï cödé/img']",
 "main[group]('ceos-alos2-create-cache', ['product/plain.bin']) -> raised "
 'builtins.ValueError:ValueError("relative path can\'t be expressed as a file URI") args=("relative path '
 'can\'t be expressed as a file URI",) cause=builtins.NoneType:None context=NoneType suppress=False '
 "stdout='' stderr=''",
 "main[group]('ceos-alos2-create-cache', ['product/plain.bin']) log "
 '["Path(\'product/plain.bin\').is_file(*(), **{})", "Path(\'product\').as_uri(*(), **{})"]',
 "main[group]('ceos-alos2-create-cache', ['product/plain.bin']) files ['<tmp>/cache/afile', "
 "'<tmp>/product/IMG-HH-ALOS2012345678-123456-WBDR1.1__D-B1', '<tmp>/product/name with space', "
 "'<tmp>/product/plain.bin', '<tmp>/ünï cödé/img']",
 "main[group]('ceos-alos2-create-cache', ['--unknown', '{image}']) -> SystemExit(2) context=NoneType "
 "stdout='' stderr='usage: ceos-alos2-create-cache [-h] [--rpc [RPC]] image_path "
 "[cache_root]\\nceos-alos2-create-cache: error: unrecognized arguments: --unknown\\n'",
 "main[group]('ceos-alos2-create-cache', ['--unknown', '{image}']) log []",
 "main[group]('ceos-alos2-create-cache', ['--unknown', '{image}']) files ['<tmp>/cache/afile', "
 "'<tmp>/product/IMG-HH-ALOS2012345678-123456-WBDR1.1__D-B1', '<tmp>/product/name with space', "
 "'<tmp>/product/plain.bin', '<tmp>/ünï cödé/img']",
 "main[group]('ceos-alos2-create-cache', ['--rpc', '1', '--rpc', '2', '{image}']) -> ok "
 "builtins.NoneType:None stdout='' stderr=''",
 "main[group]('ceos-alos2-create-cache', ['--rpc', '1', '--rpc', '2', '{image}']) log "
 '["Path(\'<tmp>/product/IMG-HH-ALOS2012345678-123456-WBDR1.1__D-B1\').is_file(*(), **{})", '
 '"Path(\'<tmp>/product\').as_uri(*(), **{})", "open_image(mapper=FSMap(root=\'<tmp>/product\', '
 "fs=LocalFileSystem), *['IMG-HH-ALOS2012345678-123456-WBDR1.1__D-B1'], **{'use_cache': False, "
 '\'create_cache\': False, \'records_per_chunk\': 2})", '
 '\'Path(\\\'<tmp>/product/IMG-HH-ALOS2012345678-123456-WBDR1.1__D-B1.index\\\').write_text(*(\\\'{"__type__": '
 '"group", "url": null, "data": {"x": {"__type__": "variable", "dims": ["x"], "data": {"__type__": "array", '
 '"dtype": "int16", "data": [0, 1, 2], "encoding": {}}, "attrs": {"units": "m"}}}, "path": "/", "attrs": '
 '{"path": "IMG-HH-ALOS2012345678-123456-WBDR1.1__D-B1", "rpc": "2"}}\\\',), **{})\']',
 "main[group]('ceos-alos2-create-cache', ['--rpc', '1', '--rpc', '2', '{image}']) files "
 "['<tmp>/cache/afile', '<tmp>/product/IMG-HH-ALOS2012345678-123456-WBDR1.1__D-B1', "
 "'<tmp>/product/IMG-HH-ALOS2012345678-123456-WBDR1.1__D-B1.index', '<tmp>/product/name with space', "
 "'<tmp>/product/plain.bin', '<tmp>/ünï cödé/img']",
 "main[group]('ceos-alos2-create-cache', ['{root}/ünï cödé/img', '{root}/ünï cödé']) -> ok "
 "builtins.NoneType:None stdout='' stderr=''",
 "main[group]('ceos-alos2-create-cache', ['{root}/ünï cödé/img', '{root}/ünï cödé']) log "
 '["Path(\'<tmp>/ünï cödé/img\').is_file(*(), **{})", "Path(\'<tmp>/ünï cödé\').is_dir(*(), **{})", '
 '"Path(\'<tmp>/ünï cödé\').as_uri(*(), **{})", '
 '"open_image(mapper=FSMap(root=\'<tmp>/%C3%BCn%C3%AF%20c%C3%B6d%C3%A9\', fs=LocalFileSystem), *[\'img\'], '
 '**{\'use_cache\': False, \'create_cache\': False, \'records_per_chunk\': 4096})", \'Path(\\\'<tmp>/ünï '
 'cödé/img.index\\\').write_text(*(\\\'{"__type__": "group", "url": null, "data": {"x": {"__type__": '
 '"variable", "dims": ["x"], "data": {"__type__": "array", "dtype": "int16", "data": [0, 1, 2], "encoding": '
 '{}}, "attrs": {"units": "m"}}}, "path": "/", "attrs": {"path": "img", "rpc": "4096"}}\\\',), **{})\']',
 "main[group]('ceos-alos2-create-cache', ['{root}/ünï cödé/img', '{root}/ünï cödé']) files "
 "['<tmp>/cache/afile', '<tmp>/product/IMG-HH-ALOS2012345678-123456-WBDR1.1__D-B1', '<tmp>/product/name with "
 "space', '<tmp>/product/plain.bin', '<tmp>/ünï cödé/img', '<tmp>/ünï cödé/img.index']",
 "main[group]('ceos-alos2-create-cache', ['']) -> SystemExit(1) context=FileNotFoundError stdout='' "
 "stderr='Cannot find image file at given path: .\\n'",
 'main[group](\'ceos-alos2-create-cache\', [\'\']) log ["Path(\'.\').is_file(*(), **{})"]',
 "main[group]('ceos-alos2-create-cache', ['']) files ['<tmp>/cache/afile', "
 "'<tmp>/product/IMG-HH-ALOS2012345678-123456-WBDR1.1__D-B1', '<tmp>/product/name with space', "
 "'<tmp>/product/plain.bin', '<tmp>/ünï cödé/img']",
 "main[OSError()]('ceos-alos2-create-cache', ['{image}']) -> raised builtins.IndexError:IndexError('tuple "
 "index out of range') args=('tuple index out of range',) cause=builtins.NoneType:None context=OSError "
 "suppress=False stdout='' stderr=''",
 "main[OSError()]('ceos-alos2-create-cache', ['{image}']) log "
 '["Path(\'<tmp>/product/IMG-HH-ALOS2012345678-123456-WBDR1.1__D-B1\').is_file(*(), **{})", '
 '"Path(\'<tmp>/product\').as_uri(*(), **{})", "open_image(mapper=FSMap(root=\'<tmp>/product\', '
 "fs=LocalFileSystem), *['IMG-HH-ALOS2012345678-123456-WBDR1.1__D-B1'], **{'use_cache': False, "
 '\'create_cache\': False, \'records_per_chunk\': 4096})"]',
 "main[OSError()]('ceos-alos2-create-cache', ['{image}']) files ['<tmp>/cache/afile', "
 "'<tmp>/product/IMG-HH-ALOS2012345678-123456-WBDR1.1__D-B1', '<tmp>/product/name with space', "
 "'<tmp>/product/plain.bin', '<tmp>/ünï cödé/img']",
 "main[OSError()]('ceos-alos2-create-cache', ['{image}', '{root}/cache']) -> raised "
 "builtins.IndexError:IndexError('tuple index out of range') args=('tuple index out of range',) "
 "cause=builtins.NoneType:None context=OSError suppress=False stdout='' stderr=''",
 "main[OSError()]('ceos-alos2-create-cache', ['{image}', '{root}/cache']) log "
 '["Path(\'<tmp>/product/IMG-HH-ALOS2012345678-123456-WBDR1.1__D-B1\').is_file(*(), **{})", '
 '"Path(\'<tmp>/cache\').is_dir(*(), **{})", "Path(\'<tmp>/product\').as_uri(*(), **{})", '
 '"open_image(mapper=FSMap(root=\'<tmp>/product\', fs=LocalFileSystem), '
 "*['IMG-HH-ALOS2012345678-123456-WBDR1.1__D-B1'], **{'use_cache': False, 'create_cache': False, "
 '\'records_per_chunk\': 4096})"]',
 "main[OSError()]('ceos-alos2-create-cache', ['{image}', '{root}/cache']) files ['<tmp>/cache/afile', "
 "'<tmp>/product/IMG-HH-ALOS2012345678-123456-WBDR1.1__D-B1', '<tmp>/product/name with space', "
 "'<tmp>/product/plain.bin', '<tmp>/ünï cödé/img']",
 "main[OSError(msg)]('ceos-alos2-create-cache', ['{image}']) -> SystemExit(1) context=OSError stdout='' "
 "stderr='something broke\\n'",
 "main[OSError(msg)]('ceos-alos2-create-cache', ['{image}']) log "
 '["Path(\'<tmp>/product/IMG-HH-ALOS2012345678-123456-WBDR1.1__D-B1\').is_file(*(), **{})", '
 '"Path(\'<tmp>/product\').as_uri(*(), **{})", "open_image(mapper=FSMap(root=\'<tmp>/product\', '
 "fs=LocalFileSystem), *['IMG-HH-ALOS2012345678-123456-WBDR1.1__D-B1'], **{'use_cache': False, "
 '\'create_cache\': False, \'records_per_chunk\': 4096})"]',
 "main[OSError(msg)]('ceos-alos2-create-cache', ['{image}']) files ['<tmp>/cache/afile', "
 "'<tmp>/product/IMG-HH-ALOS2012345678-123456-WBDR1.1__D-B1', '<tmp>/product/name with space', "
 "'<tmp>/product/plain.bin', '<tmp>/ünï cödé/img']",
 "main[OSError(msg)]('ceos-alos2-create-cache', ['{image}', '{root}/cache']) -> SystemExit(1) "
 "context=OSError stdout='' stderr='something broke\\n'",
 "main[OSError(msg)]('ceos-alos2-create-cache', ['{image}', '{root}/cache']) log "
 '["Path(\'<tmp>/product/IMG-HH-ALOS2012345678-123456-WBDR1.1__D-B1\').is_file(*(), **{})", '
 '"Path(\'<tmp>/cache\').is_dir(*(), **{})", "Path(\'<tmp>/product\').as_uri(*(), **{})", '
 '"open_image(mapper=FSMap(root=\'<tmp>/product\', fs=LocalFileSystem), '
 "*['IMG-HH-ALOS2012345678-123456-WBDR1.1__D-B1'], **{'use_cache': False, 'create_cache': False, "
 '\'records_per_chunk\': 4096})"]',
 "main[OSError(msg)]('ceos-alos2-create-cache', ['{image}', '{root}/cache']) files ['<tmp>/cache/afile', "
 "'<tmp>/product/IMG-HH-ALOS2012345678-123456-WBDR1.1__D-B1', '<tmp>/product/name with space', "
 "'<tmp>/product/plain.bin', '<tmp>/ünï cödé/img']",
 "main[OSError(errno)]('ceos-alos2-create-cache', ['{image}']) -> SystemExit(1) context=OSError stdout='' "
 "stderr='5\\n'",
 "main[OSError(errno)]('ceos-alos2-create-cache', ['{image}']) log "
 '["Path(\'<tmp>/product/IMG-HH-ALOS2012345678-123456-WBDR1.1__D-B1\').is_file(*(), **{})", '
 '"Path(\'<tmp>/product\').as_uri(*(), **{})", "open_image(mapper=FSMap(root=\'<tmp>/product\', '
 "fs=LocalFileSystem), *['IMG-HH-ALOS2012345678-123456-WBDR1.1__D-B1'], **{'use_cache': False, "
 '\'create_cache\': False, \'records_per_chunk\': 4096})"]',
 "main[OSError(errno)]('ceos-alos2-create-cache', ['{image}']) files ['<tmp>/cache/afile', "
 "'<tmp>/product/IMG-HH-ALOS2012345678-123456-WBDR1.1__D-B1', '<tmp>/product/name with space', "
 "'<tmp>/product/plain.bin', '<tmp>/ünï cödé/img']",
 "main[OSError(errno)]('ceos-alos2-create-cache', ['{image}', '{root}/cache']) -> SystemExit(1) "
 "context=OSError stdout='' stderr='5\\n'",
 "main[OSError(errno)]('ceos-alos2-create-cache', ['{image}', '{root}/cache']) log "
 '["Path(\'<tmp>/product/IMG-HH-ALOS2012345678-123456-WBDR1.1__D-B1\').is_file(*(), **{})", '
 '"Path(\'<tmp>/cache\').is_dir(*(), **{})", "Path(\'<tmp>/product\').as_uri(*(), **{})", '
 '"open_image(mapper=FSMap(root=\'<tmp>/product\', fs=LocalFileSystem), '
 "*['IMG-HH-ALOS2012345678-123456-WBDR1.1__D-B1'], **{'use_cache': False, 'create_cache': False, "
 '\'records_per_chunk\': 4096})"]',
 "main[OSError(errno)]('ceos-alos2-create-cache', ['{image}', '{root}/cache']) files ['<tmp>/cache/afile', "
 "'<tmp>/product/IMG-HH-ALOS2012345678-123456-WBDR1.1__D-B1', '<tmp>/product/name with space', "
 "'<tmp>/product/plain.bin', '<tmp>/ünï cödé/img']",
 "main[PermissionError]('ceos-alos2-create-cache', ['{image}']) -> SystemExit(1) context=PermissionError "
 "stdout='' stderr='13\\n'",
 "main[PermissionError]('ceos-alos2-create-cache', ['{image}']) log "
 '["Path(\'<tmp>/product/IMG-HH-ALOS2012345678-123456-WBDR1.1__D-B1\').is_file(*(), **{})", '
 '"Path(\'<tmp>/product\').as_uri(*(), **{})", "open_image(mapper=FSMap(root=\'<tmp>/product\', '
 "fs=LocalFileSystem), *['IMG-HH-ALOS2012345678-123456-WBDR1.1__D-B1'], **{'use_cache': False, "
 '\'create_cache\': False, \'records_per_chunk\': 4096})"]',
 "main[PermissionError]('ceos-alos2-create-cache', ['{image}']) files ['<tmp>/cache/afile', "
 "'<tmp>/product/IMG-HH-ALOS2012345678-123456-WBDR1.1__D-B1', '<tmp>/product/name with space', "
 "'<tmp>/product/plain.bin', '<tmp>/ünï cödé/img']",
 "main[PermissionError]('ceos-alos2-create-cache', ['{image}', '{root}/cache']) -> SystemExit(1) "
 "context=PermissionError stdout='' stderr='13\\n'",
 "main[PermissionError]('ceos-alos2-create-cache', ['{image}', '{root}/cache']) log "
 '["Path(\'<tmp>/product/IMG-HH-ALOS2012345678-123456-WBDR1.1__D-B1\').is_file(*(), **{})", '
 '"Path(\'<tmp>/cache\').is_dir(*(), **{})", "Path(\'<tmp>/product\').as_uri(*(), **{})", '
 '"open_image(mapper=FSMap(root=\'<tmp>/product\', fs=LocalFileSystem), '
 "*['IMG-HH-ALOS2012345678-123456-WBDR1.1__D-B1'], **{'use_cache': False, 'create_cache': False, "
 '\'records_per_chunk\': 4096})"]',
 "main[PermissionError]('ceos-alos2-create-cache', ['{image}', '{root}/cache']) files ['<tmp>/cache/afile', "
 "'<tmp>/product/IMG-HH-ALOS2012345678-123456-WBDR1.1__D-B1', '<tmp>/product/name with space', "
 "'<tmp>/product/plain.bin', '<tmp>/ünï cödé/img']",
 "main[ValueError]('ceos-alos2-create-cache', ['{image}']) -> raised builtins.ValueError:ValueError('bad "
 "header') args=('bad header',) cause=builtins.NoneType:None context=NoneType suppress=False stdout='' "
 "stderr=''",
 "main[ValueError]('ceos-alos2-create-cache', ['{image}']) log "
 '["Path(\'<tmp>/product/IMG-HH-ALOS2012345678-123456-WBDR1.1__D-B1\').is_file(*(), **{})", '
 '"Path(\'<tmp>/product\').as_uri(*(), **{})", "open_image(mapper=FSMap(root=\'<tmp>/product\', '
 "fs=LocalFileSystem), *['IMG-HH-ALOS2012345678-123456-WBDR1.1__D-B1'], **{'use_cache': False, "
 '\'create_cache\': False, \'records_per_chunk\': 4096})"]',
 "main[ValueError]('ceos-alos2-create-cache', ['{image}']) files ['<tmp>/cache/afile', "
 "'<tmp>/product/IMG-HH-ALOS2012345678-123456-WBDR1.1__D-B1', '<tmp>/product/name with space', "
 "'<tmp>/product/plain.bin', '<tmp>/ünï cödé/img']",
 "main[ValueError]('ceos-alos2-create-cache', ['{image}', '{root}/cache']) -> raised "
 "builtins.ValueError:ValueError('bad header') args=('bad header',) cause=builtins.NoneType:None "
 "context=NoneType suppress=False stdout='' stderr=''",
 "main[ValueError]('ceos-alos2-create-cache', ['{image}', '{root}/cache']) log "
 '["Path(\'<tmp>/product/IMG-HH-ALOS2012345678-123456-WBDR1.1__D-B1\').is_file(*(), **{})", '
 '"Path(\'<tmp>/cache\').is_dir(*(), **{})", "Path(\'<tmp>/product\').as_uri(*(), **{})", '
 '"open_image(mapper=FSMap(root=\'<tmp>/product\', fs=LocalFileSystem), '
 "*['IMG-HH-ALOS2012345678-123456-WBDR1.1__D-B1'], **{'use_cache': False, 'create_cache': False, "
 '\'records_per_chunk\': 4096})"]',
 "main[ValueError]('ceos-alos2-create-cache', ['{image}', '{root}/cache']) files ['<tmp>/cache/afile', "
 "'<tmp>/product/IMG-HH-ALOS2012345678-123456-WBDR1.1__D-B1', '<tmp>/product/name with space', "
 "'<tmp>/product/plain.bin', '<tmp>/ünï cödé/img']",
 "main[KeyboardInterrupt]('ceos-alos2-create-cache', ['{image}']) -> raised "
 'builtins.KeyboardInterrupt:KeyboardInterrupt() args=() cause=builtins.NoneType:None context=NoneType '
 "suppress=False stdout='' stderr=''",
 "main[KeyboardInterrupt]('ceos-alos2-create-cache', ['{image}']) log "
 '["Path(\'<tmp>/product/IMG-HH-ALOS2012345678-123456-WBDR1.1__D-B1\').is_file(*(), **{})", '
 '"Path(\'<tmp>/product\').as_uri(*(), **{})", "open_image(mapper=FSMap(root=\'<tmp>/product\', '
 "fs=LocalFileSystem), *['IMG-HH-ALOS2012345678-123456-WBDR1.1__D-B1'], **{'use_cache': False, "
 '\'create_cache\': False, \'records_per_chunk\': 4096})"]',
 "main[KeyboardInterrupt]('ceos-alos2-create-cache', ['{image}']) files ['<tmp>/cache/afile', "
 "'<tmp>/product/IMG-HH-ALOS2012345678-123456-WBDR1.1__D-B1', '<tmp>/product/name with space', "
 "'<tmp>/product/plain.bin', '<tmp>/ünï cödé/img']",
 "main[KeyboardInterrupt]('ceos-alos2-create-cache', ['{image}', '{root}/cache']) -> raised "
 'builtins.KeyboardInterrupt:KeyboardInterrupt() args=() cause=builtins.NoneType:None context=NoneType '
 "suppress=False stdout='' stderr=''",
 "main[KeyboardInterrupt]('ceos-alos2-create-cache', ['{image}', '{root}/cache']) log "
 '["Path(\'<tmp>/product/IMG-HH-ALOS2012345678-123456-WBDR1.1__D-B1\').is_file(*(), **{})", '
 '"Path(\'<tmp>/cache\').is_dir(*(), **{})", "Path(\'<tmp>/product\').as_uri(*(), **{})", '
 '"open_image(mapper=FSMap(root=\'<tmp>/product\', fs=LocalFileSystem), '
 "*['IMG-HH-ALOS2012345678-123456-WBDR1.1__D-B1'], **{'use_cache': False, 'create_cache': False, "
 '\'records_per_chunk\': 4096})"]',
 "main[KeyboardInterrupt]('ceos-alos2-create-cache', ['{image}', '{root}/cache']) files "
 "['<tmp>/cache/afile', '<tmp>/product/IMG-HH-ALOS2012345678-123456-WBDR1.1__D-B1', '<tmp>/product/name with "
 "space', '<tmp>/product/plain.bin', '<tmp>/ünï cödé/img']",
 "main[group]('/usr/bin/other name', []) -> SystemExit(2) context=NoneType stdout='' stderr='usage: other "
 'name [-h] [--rpc [RPC]] image_path [cache_root]\\nother name: error: the following arguments are required: '
 "image_path\\n'",
 "main[group]('/usr/bin/other name', []) log []",
 "main[group]('/usr/bin/other name', []) files ['<tmp>/cache/afile', "
 "'<tmp>/product/IMG-HH-ALOS2012345678-123456-WBDR1.1__D-B1', '<tmp>/product/name with space', "
 "'<tmp>/product/plain.bin', '<tmp>/ünï cödé/img']",
 "main[group]('/usr/bin/other name', ['-h']) -> SystemExit(0) context=NoneType stdout='usage: other name "
 '[-h] [--rpc [RPC]] image_path [cache_root]\\n\\npositional arguments:\\n  image_path   image path to '
 'create a cache file for\\n  cache_root   Root path to the new cache file. By default, it is created '
 'in\\n               the same directory as the image file.\\n\\noptions:\\n  -h, --help   show this help '
 "message and exit\\n  --rpc [RPC]  records-per-chunk size used to create the cache files\\n' stderr=''",
 "main[group]('/usr/bin/other name', ['-h']) log []",
 "main[group]('/usr/bin/other name', ['-h']) files ['<tmp>/cache/afile', "
 "'<tmp>/product/IMG-HH-ALOS2012345678-123456-WBDR1.1__D-B1', '<tmp>/product/name with space', "
 "'<tmp>/product/plain.bin', '<tmp>/ünï cödé/img']",
 "main[group]('/usr/bin/other name', ['--help']) -> SystemExit(0) context=NoneType stdout='usage: other name "
 '[-h] [--rpc [RPC]] image_path [cache_root]\\n\\npositional arguments:\\n  image_path   image path to '
 'create a cache file for\\n  cache_root   Root path to the new cache file. By default, it is created '
 'in\\n               the same directory as the image file.\\n\\noptions:\\n  -h, --help   show this help '
 "message and exit\\n  --rpc [RPC]  records-per-chunk size used to create the cache files\\n' stderr=''",
 "main[group]('/usr/bin/other name', ['--help']) log []",
 "main[group]('/usr/bin/other name', ['--help']) files ['<tmp>/cache/afile', "
 "'<tmp>/product/IMG-HH-ALOS2012345678-123456-WBDR1.1__D-B1', '<tmp>/product/name with space', "
 "'<tmp>/product/plain.bin', '<tmp>/ünï cödé/img']",
 "main[group]('/usr/bin/other name', ['--rpc']) -> SystemExit(2) context=NoneType stdout='' stderr='usage: "
 'other name [-h] [--rpc [RPC]] image_path [cache_root]\\nother name: error: the following arguments are '
 "required: image_path\\n'",
 "main[group]('/usr/bin/other name', ['--rpc']) log []",
 "main[group]('/usr/bin/other name', ['--rpc']) files ['<tmp>/cache/afile', "
 "'<tmp>/product/IMG-HH-ALOS2012345678-123456-WBDR1.1__D-B1', '<tmp>/product/name with space', "
 "'<tmp>/product/plain.bin', '<tmp>/ünï cödé/img']",
 "main[group]('/usr/bin/other name', ['--rpc', '12']) -> SystemExit(2) context=NoneType stdout='' "
 "stderr='usage: other name [-h] [--rpc [RPC]] image_path [cache_root]\\nother name: error: the following "
 "arguments are required: image_path\\n'",
 "main[group]('/usr/bin/other name', ['--rpc', '12']) log []",
 "main[group]('/usr/bin/other name', ['--rpc', '12']) files ['<tmp>/cache/afile', "
 "'<tmp>/product/IMG-HH-ALOS2012345678-123456-WBDR1.1__D-B1', '<tmp>/product/name with space', "
 "'<tmp>/product/plain.bin', '<tmp>/ünï cödé/img']",
 "main[group]('/usr/bin/other name', ['--rpc', 'x', '{image}']) -> SystemExit(2) context=ArgumentError "
 'stdout=\'\' stderr="usage: other name [-h] [--rpc [RPC]] image_path [cache_root]\\nother name: error: '
 'argument --rpc: invalid int value: \'x\'\\n"',
 "main[group]('/usr/bin/other name', ['--rpc', 'x', '{image}']) log []",
 "main[group]('/usr/bin/other name', ['--rpc', 'x', '{image}']) files ['<tmp>/cache/afile', "
 "'<tmp>/product/IMG-HH-ALOS2012345678-123456-WBDR1.1__D-B1', '<tmp>/product/name with space', "
 "'<tmp>/product/plain.bin', '<tmp>/ünï cödé/img']",
 "main[group]('/usr/bin/other name', ['{image}']) -> ok builtins.NoneType:None stdout='' stderr=''",
 "main[group]('/usr/bin/other name', ['{image}']) log "
 '["Path(\'<tmp>/product/IMG-HH-ALOS2012345678-123456-WBDR1.1__D-B1\').is_file(*(), **{})", '
 '"Path(\'<tmp>/product\').as_uri(*(), **{})", "open_image(mapper=FSMap(root=\'<tmp>/product\', '
 "fs=LocalFileSystem), *['IMG-HH-ALOS2012345678-123456-WBDR1.1__D-B1'], **{'use_cache': False, "
 '\'create_cache\': False, \'records_per_chunk\': 4096})", '
 '\'Path(\\\'<tmp>/product/IMG-HH-ALOS2012345678-123456-WBDR1.1__D-B1.index\\\').write_text(*(\\\'{"__type__": '
 '"group", "url": null, "data": {"x": {"__type__": "variable", "dims": ["x"], "data": {"__type__": "array", '
 '"dtype": "int16", "data": [0, 1, 2], "encoding": {}}, "attrs": {"units": "m"}}}, "path": "/", "attrs": '
 '{"path": "IMG-HH-ALOS2012345678-123456-WBDR1.1__D-B1", "rpc": "4096"}}\\\',), **{})\']',
 "main[group]('/usr/bin/other name', ['{image}']) files ['<tmp>/cache/afile', "
 "'<tmp>/product/IMG-HH-ALOS2012345678-123456-WBDR1.1__D-B1', "
 "'<tmp>/product/IMG-HH-ALOS2012345678-123456-WBDR1.1__D-B1.index', '<tmp>/product/name with space', "
 "'<tmp>/product/plain.bin', '<tmp>/ünï cödé/img']",
 "main('first') -> SystemExit(2) context=NoneType stdout='' stderr='usage: first [-h] [--rpc [RPC]] "
 "image_path [cache_root]\\nfirst: error: the following arguments are required: image_path\\n'",
 "main('second') -> SystemExit(2) context=NoneType stdout='' stderr='usage: second [-h] [--rpc [RPC]] "
 "image_path [cache_root]\\nsecond: error: the following arguments are required: image_path\\n'",
 "main('first') -> SystemExit(2) context=NoneType stdout='' stderr='usage: first [-h] [--rpc [RPC]] "
 "image_path [cache_root]\\nfirst: error: the following arguments are required: image_path\\n'",
 'entry point is cli.main: True']  # @@EXPECTED@@


def test_equivalence():
    observed = observe()
    assert len(observed) == len(EXPECTED)
    for actual, expected in zip(observed, EXPECTED):
        assert actual == expected
    assert observed == EXPECTED


if __name__ == "__main__":
    if "--record" in sys.argv:
        print(repr(observe()))
    else:
        test_equivalence()
        print(f"OK: {len(EXPECTED)} observations identical")
