"""Equivalence check for refactoring 4 (``ceos_alos2.sar_image.open_image``).

The image lives in fsspec's in-memory file system, the local cache directory is a
temporary directory, ``read_metadata`` / ``transform_metadata`` are replaced by
recording stubs (there is no binary sample in the repository) and the real cache
reader / writer are wrapped so that the order of all steps is recorded.  The expected
values were produced with the UNCHANGED code (``--print`` dumps the actual values).

Run:  cd /tmp/wt2/e07 && PYTHONPATH=/tmp/wt2/e07 /venv/bin/python _eq/4/equiv.py
"""

import hashlib
import pathlib
import pprint
import sys
import tempfile

import fsspec
import numpy as np

from ceos_alos2 import sar_image
from ceos_alos2.array import Array
from ceos_alos2.hierarchy import Group, Variable
from ceos_alos2.sar_image import caching

NAME = "IMG-HH-ALOS2225333100-180726-WWDR1.1__D-B3"
OTHER = "IMG-HV-ALOS2290760600-191011-WWDR1.5RUA"

memfs = fsspec.filesystem("memory")
values = (np.arange(12).reshape(4, 3) + 100).astype(">u2")
content = b"HEADER!!" + b"".join(b"\xff\xff\xff\xff" + row.tobytes() for row in values)
BYTE_RANGES = [(8 + x * 10 + 4, 8 + x * 10 + 10) for x in range(4)]

events = []
options = {"metadata_error": None}


def fake_read_metadata(f, records_per_chunk=1024):
    events.append(("read_metadata", f.read(8), f.closed, records_per_chunk))
    if options["metadata_error"] is not None:
        raise options["metadata_error"]
    return {"header": 1}, [{"line": 0}, {"line": 1}]


def fake_transform_metadata(header, metadata):
    events.append(("transform_metadata", header, metadata))
    group = Group(
        path=None,
        url=None,
        data={"t": Variable("rows", np.array([5, 6, 7, 8], dtype="int32"), {"units": "s"})},
        attrs={"coordinates": ["t"], "n": 4},
    )
    array_metadata = {
        "byte_ranges": list(BYTE_RANGES),
        "shape": (4, 3),
        "dtype": "uint16",
        "type_code": "IU2",
    }
    return group, array_metadata


real_read_cache = caching.read_cache
real_create_cache = caching.create_cache


def recording_read_cache(mapper, path, records_per_chunk):
    events.append(("read_cache", mapper.root, path, records_per_chunk))
    if options.get("read_cache_error") is not None:
        raise options["read_cache_error"]
    return real_read_cache(mapper, path, records_per_chunk)


def recording_create_cache(mapper, path, data):
    events.append(("create_cache", mapper.root, path, type(data).__name__, data.path))
    return real_create_cache(mapper, path, data)


sar_image.read_metadata = fake_read_metadata
sar_image.transform_metadata = fake_transform_metadata
caching.read_cache = recording_read_cache
caching.create_cache = recording_create_cache

tmp = tempfile.TemporaryDirectory()
cache_dir = pathlib.Path(tmp.name)
caching.path.cache_root = cache_dir


def cache_files():
    # relative name -> digest of the content (the full text is compared once, below)
    return {
        str(p.relative_to(cache_dir)): [len(p.read_text()), hashlib.sha256(p.read_bytes()).hexdigest()[:16]]
        for p in sorted(cache_dir.rglob("*"))
        if p.is_file()
    }


def clear_cache():
    for p in sorted(cache_dir.rglob("*"), reverse=True):
        p.unlink() if p.is_file() else p.rmdir()


def describe(obj):
    if isinstance(obj, Group):
        return {
            "path": obj.path,
            "url": obj.url,
            "attrs": obj.attrs,
            "data": {name: describe(item) for name, item in obj.data.items()},
        }
    if isinstance(obj, Variable):
        data = obj.data
        if isinstance(data, Array):
            try:
                loaded = data[(slice(None), slice(None))].tolist()
            except FileNotFoundError:
                # arrays restored from a cache file point to the local file system (the
                # cache only stores the root *path*), where the in-memory image does not exist
                loaded = "not loadable"
            data = {
                "fs": [type(data.fs).__name__, data.fs.path, type(data.fs.fs).__name__],
                "url": data.url,
                "byte_ranges": data.byte_ranges,
                "shape": data.shape,
                "dtype": str(data.dtype),
                "type_code": data.type_code,
                "records_per_chunk": [
                    type(data.records_per_chunk).__name__,
                    int(data.records_per_chunk),
                ],
                "values": loaded,
            }
        else:
            data = [str(data.dtype), data.tolist()]
        return {"dims": obj.dims, "data": data, "attrs": obj.attrs}
    return ["unexpected", repr(obj)]


def fresh_mapper(files=(NAME, OTHER)):
    memfs.store.clear()
    memfs.pseudo_dirs[:] = [""]
    mapper = fsspec.get_mapper("memory://eq4")
    for name in files:
        mapper[name] = content
    return mapper


def call(mapper, path, **kwargs):
    events.clear()
    try:
        result = describe(sar_image.open_image(mapper, path, **kwargs))
    except Exception as e:  # noqa: BLE001
        result = [
            "raised",
            type(e).__name__,
            str(e),
            type(e.__cause__).__name__,
            type(e.__context__).__name__,
        ]
    return {
        "result": result,
        "events": list(events),
        "cache": cache_files(),
        "mapper_keys": sorted(mapper),
    }


actual = {}

# A: defaults, no cache anywhere: the image file is read, nothing is written
mapper = fresh_mapper()
actual["A_defaults"] = call(mapper, NAME)

# B: create the cache; C: use it; D: ignore it but rewrite it
actual["B_create"] = call(mapper, NAME, create_cache=True, records_per_chunk=2)
actual["B_cache_text"] = {
    str(p.relative_to(cache_dir)): p.read_text() for p in sorted(cache_dir.rglob("*")) if p.is_file()
}
actual["C_cached"] = call(mapper, NAME, records_per_chunk=3)
actual["C_cached_and_create"] = call(mapper, NAME, create_cache=True)
actual["D_ignore_cache"] = call(mapper, NAME, use_cache=False, create_cache=True, records_per_chunk=-1)
actual["D_other_file_not_cached"] = call(mapper, OTHER, records_per_chunk="auto")

# E: broken local cache file: silently falls back to the image file, cache untouched
(cache_file,) = [p for p in cache_dir.rglob("*") if p.is_file()]
cache_file.write_text('{"__type__": "group", "data": ')
actual["E_broken_cache"] = call(mapper, NAME)
actual["E_broken_cache_recreate"] = call(mapper, NAME, create_cache=True)
clear_cache()

# F: remote cache file next to the image
mapper = fresh_mapper()
actual["F_prepare"] = call(mapper, OTHER, create_cache=True, records_per_chunk=1)
(cache_file,) = [p for p in cache_dir.rglob("*") if p.is_file()]
mapper[OTHER + ".index"] = cache_file.read_bytes()
clear_cache()
actual["F_remote_cache"] = call(mapper, OTHER, records_per_chunk=4)
actual["F_remote_cache_disabled"] = call(mapper, OTHER, use_cache=False)

# G: missing image file (with and without cache creation)
mapper = fresh_mapper(files=[OTHER])
actual["G_missing"] = call(mapper, NAME)
actual["G_missing_create"] = call(mapper, NAME, use_cache=False, create_cache=True)

# H: metadata reader fails: no cache is written, error propagates
mapper = fresh_mapper()
options["metadata_error"] = ValueError("sizes mismatch")
actual["H_metadata_error"] = call(mapper, NAME, create_cache=True)
options["metadata_error"] = None

# I: errors of the cache reader other than CachingError propagate
options["read_cache_error"] = FileNotFoundError("plain")
actual["I_cache_reader_fnf"] = call(mapper, NAME, create_cache=True)
options["read_cache_error"] = PermissionError("denied")
actual["I_cache_reader_perm"] = call(mapper, NAME)
options["read_cache_error"] = caching.CachingError("explicit")
actual["I_cache_reader_caching_error"] = call(mapper, NAME)
options["read_cache_error"] = None

# J: a file name that cannot be decoded: fails after reading the metadata, no cache
mapper = fresh_mapper(files=["image.bin"])
actual["J_bad_name"] = call(mapper, "image.bin", create_cache=True)

# K: truthiness of the flags, bad array options
mapper = fresh_mapper()
actual["K_flags_0_1"] = call(mapper, NAME, use_cache=0, create_cache=1)
actual["K_flags_str"] = call(mapper, NAME, use_cache="yes", create_cache="")
actual["K_flags_none"] = call(mapper, OTHER, use_cache=None, create_cache=None)
clear_cache()
actual["K_bad_rpc"] = call(mapper, NAME, create_cache=True, records_per_chunk="many")

# L: wrong call signatures
mapper = fresh_mapper()
for label, args, kwargs in [
    ("positional_flag", (mapper, NAME, True), {}),
    ("unknown_option", (mapper, NAME), {"chunks": 1}),
    ("no_path", (mapper,), {}),
]:
    events.clear()
    try:
        sar_image.open_image(*args, **kwargs)
    except TypeError:
        actual["L_" + label] = ["TypeError", list(events)]

# obtained from the unchanged code with `equiv.py --print`
EXPECTED = {'A_defaults': {'result': {'path': 'HH_scan3',
                           'url': None,
                           'attrs': {'coordinates': ['t'], 'n': 4},
                           'data': {'t': {'dims': ['rows'],
                                          'data': ['int32', [5, 6, 7, 8]],
                                          'attrs': {'units': 's'}},
                                    'data': {'dims': ['rows', 'columns'],
                                             'data': {'fs': ['DirFileSystem', '/eq4', 'MemoryFileSystem'],
                                                      'url': 'IMG-HH-ALOS2225333100-180726-WWDR1.1__D-B3',
                                                      'byte_ranges': [(12, 18), (22, 28), (32, 38), (42, 48)],
                                                      'shape': (4, 3),
                                                      'dtype': 'uint16',
                                                      'type_code': 'IU2',
                                                      'records_per_chunk': ['int', 1024],
                                                      'values': [[100, 101, 102],
                                                                 [103, 104, 105],
                                                                 [106, 107, 108],
                                                                 [109, 110, 111]]},
                                             'attrs': {}}}},
                'events': [('read_cache', '/eq4', 'IMG-HH-ALOS2225333100-180726-WWDR1.1__D-B3', None),
                           ('read_metadata', b'HEADER!!', False, None),
                           ('transform_metadata', {'header': 1}, [{'line': 0}, {'line': 1}])],
                'cache': {},
                'mapper_keys': ['IMG-HH-ALOS2225333100-180726-WWDR1.1__D-B3',
                                'IMG-HV-ALOS2290760600-191011-WWDR1.5RUA']},
 'B_create': {'result': {'path': 'HH_scan3',
                         'url': None,
                         'attrs': {'coordinates': ['t'], 'n': 4},
                         'data': {'t': {'dims': ['rows'],
                                        'data': ['int32', [5, 6, 7, 8]],
                                        'attrs': {'units': 's'}},
                                  'data': {'dims': ['rows', 'columns'],
                                           'data': {'fs': ['DirFileSystem', '/eq4', 'MemoryFileSystem'],
                                                    'url': 'IMG-HH-ALOS2225333100-180726-WWDR1.1__D-B3',
                                                    'byte_ranges': [(12, 18), (22, 28), (32, 38), (42, 48)],
                                                    'shape': (4, 3),
                                                    'dtype': 'uint16',
                                                    'type_code': 'IU2',
                                                    'records_per_chunk': ['int', 2],
                                                    'values': [[100, 101, 102],
                                                               [103, 104, 105],
                                                               [106, 107, 108],
                                                               [109, 110, 111]]},
                                           'attrs': {}}}},
              'events': [('read_cache', '/eq4', 'IMG-HH-ALOS2225333100-180726-WWDR1.1__D-B3', 2),
                         ('read_metadata', b'HEADER!!', False, 2),
                         ('transform_metadata', {'header': 1}, [{'line': 0}, {'line': 1}]),
                         ('create_cache',
                          '/eq4',
                          'IMG-HH-ALOS2225333100-180726-WWDR1.1__D-B3',
                          'Group',
                          'HH_scan3')],
              'cache': {'222d23f51cbe39959748e010deaa9e0f4c7af1fb346fece53d2ee6b3863c8d4b/IMG-HH-ALOS2225333100-180726-WWDR1.1__D-B3.index': [718,
                                                                                                                                              '23a594536560e671']},
              'mapper_keys': ['IMG-HH-ALOS2225333100-180726-WWDR1.1__D-B3',
                              'IMG-HV-ALOS2290760600-191011-WWDR1.5RUA']},
 'B_cache_text': {'222d23f51cbe39959748e010deaa9e0f4c7af1fb346fece53d2ee6b3863c8d4b/IMG-HH-ALOS2225333100-180726-WWDR1.1__D-B3.index': '{"__type__": '
                                                                                                                                       '"group", '
                                                                                                                                       '"url": '
                                                                                                                                       'null, '
                                                                                                                                       '"data": '
                                                                                                                                       '{"t": '
                                                                                                                                       '{"__type__": '
                                                                                                                                       '"variable", '
                                                                                                                                       '"dims": '
                                                                                                                                       '["rows"], '
                                                                                                                                       '"data": '
                                                                                                                                       '{"__type__": '
                                                                                                                                       '"array", '
                                                                                                                                       '"dtype": '
                                                                                                                                       '"int32", '
                                                                                                                                       '"data": '
                                                                                                                                       '[5, '
                                                                                                                                       '6, '
                                                                                                                                       '7, '
                                                                                                                                       '8], '
                                                                                                                                       '"encoding": '
                                                                                                                                       '{}}, '
                                                                                                                                       '"attrs": '
                                                                                                                                       '{"units": '
                                                                                                                                       '"s"}}, '
                                                                                                                                       '"data": '
                                                                                                                                       '{"__type__": '
                                                                                                                                       '"variable", '
                                                                                                                                       '"dims": '
                                                                                                                                       '["rows", '
                                                                                                                                       '"columns"], '
                                                                                                                                       '"data": '
                                                                                                                                       '{"__type__": '
                                                                                                                                       '"backend_array", '
                                                                                                                                       '"root": '
                                                                                                                                       '"/eq4", '
                                                                                                                                       '"url": '
                                                                                                                                       '"IMG-HH-ALOS2225333100-180726-WWDR1.1__D-B3", '
                                                                                                                                       '"shape": '
                                                                                                                                       '{"__type__": '
                                                                                                                                       '"tuple", '
                                                                                                                                       '"data": '
                                                                                                                                       '[4, '
                                                                                                                                       '3]}, '
                                                                                                                                       '"dtype": '
                                                                                                                                       '"uint16", '
                                                                                                                                       '"byte_ranges": '
                                                                                                                                       '[{"__type__": '
                                                                                                                                       '"tuple", '
                                                                                                                                       '"data": '
                                                                                                                                       '[12, '
                                                                                                                                       '18]}, '
                                                                                                                                       '{"__type__": '
                                                                                                                                       '"tuple", '
                                                                                                                                       '"data": '
                                                                                                                                       '[22, '
                                                                                                                                       '28]}, '
                                                                                                                                       '{"__type__": '
                                                                                                                                       '"tuple", '
                                                                                                                                       '"data": '
                                                                                                                                       '[32, '
                                                                                                                                       '38]}, '
                                                                                                                                       '{"__type__": '
                                                                                                                                       '"tuple", '
                                                                                                                                       '"data": '
                                                                                                                                       '[42, '
                                                                                                                                       '48]}], '
                                                                                                                                       '"type_code": '
                                                                                                                                       '"IU2"}, '
                                                                                                                                       '"attrs": '
                                                                                                                                       '{}}}, '
                                                                                                                                       '"path": '
                                                                                                                                       '"HH_scan3", '
                                                                                                                                       '"attrs": '
                                                                                                                                       '{"coordinates": '
                                                                                                                                       '["t"], '
                                                                                                                                       '"n": '
                                                                                                                                       '4}}'},
 'C_cached': {'result': {'path': 'HH_scan3',
                         'url': None,
                         'attrs': {'coordinates': ['t'], 'n': 4},
                         'data': {'t': {'dims': ['rows'],
                                        'data': ['int32', [5, 6, 7, 8]],
                                        'attrs': {'units': 's'}},
                                  'data': {'dims': ['rows', 'columns'],
                                           'data': {'fs': ['DirFileSystem', '/eq4', 'LocalFileSystem'],
                                                    'url': 'IMG-HH-ALOS2225333100-180726-WWDR1.1__D-B3',
                                                    'byte_ranges': [(12, 18), (22, 28), (32, 38), (42, 48)],
                                                    'shape': (4, 3),
                                                    'dtype': 'uint16',
                                                    'type_code': 'IU2',
                                                    'records_per_chunk': ['int', 3],
                                                    'values': 'not loadable'},
                                           'attrs': {}}}},
              'events': [('read_cache', '/eq4', 'IMG-HH-ALOS2225333100-180726-WWDR1.1__D-B3', 3)],
              'cache': {'222d23f51cbe39959748e010deaa9e0f4c7af1fb346fece53d2ee6b3863c8d4b/IMG-HH-ALOS2225333100-180726-WWDR1.1__D-B3.index': [718,
                                                                                                                                              '23a594536560e671']},
              'mapper_keys': ['IMG-HH-ALOS2225333100-180726-WWDR1.1__D-B3',
                              'IMG-HV-ALOS2290760600-191011-WWDR1.5RUA']},
 'C_cached_and_create': {'result': {'path': 'HH_scan3',
                                    'url': None,
                                    'attrs': {'coordinates': ['t'], 'n': 4},
                                    'data': {'t': {'dims': ['rows'],
                                                   'data': ['int32', [5, 6, 7, 8]],
                                                   'attrs': {'units': 's'}},
                                             'data': {'dims': ['rows', 'columns'],
                                                      'data': {'fs': ['DirFileSystem',
                                                                      '/eq4',
                                                                      'LocalFileSystem'],
                                                               'url': 'IMG-HH-ALOS2225333100-180726-WWDR1.1__D-B3',
                                                               'byte_ranges': [(12, 18),
                                                                               (22, 28),
                                                                               (32, 38),
                                                                               (42, 48)],
                                                               'shape': (4, 3),
                                                               'dtype': 'uint16',
                                                               'type_code': 'IU2',
                                                               'records_per_chunk': ['int', 1024],
                                                               'values': 'not loadable'},
                                                      'attrs': {}}}},
                         'events': [('read_cache',
                                     '/eq4',
                                     'IMG-HH-ALOS2225333100-180726-WWDR1.1__D-B3',
                                     None)],
                         'cache': {'222d23f51cbe39959748e010deaa9e0f4c7af1fb346fece53d2ee6b3863c8d4b/IMG-HH-ALOS2225333100-180726-WWDR1.1__D-B3.index': [718,
                                                                                                                                                         '23a594536560e671']},
                         'mapper_keys': ['IMG-HH-ALOS2225333100-180726-WWDR1.1__D-B3',
                                         'IMG-HV-ALOS2290760600-191011-WWDR1.5RUA']},
 'D_ignore_cache': {'result': {'path': 'HH_scan3',
                               'url': None,
                               'attrs': {'coordinates': ['t'], 'n': 4},
                               'data': {'t': {'dims': ['rows'],
                                              'data': ['int32', [5, 6, 7, 8]],
                                              'attrs': {'units': 's'}},
                                        'data': {'dims': ['rows', 'columns'],
                                                 'data': {'fs': ['DirFileSystem', '/eq4', 'MemoryFileSystem'],
                                                          'url': 'IMG-HH-ALOS2225333100-180726-WWDR1.1__D-B3',
                                                          'byte_ranges': [(12, 18),
                                                                          (22, 28),
                                                                          (32, 38),
                                                                          (42, 48)],
                                                          'shape': (4, 3),
                                                          'dtype': 'uint16',
                                                          'type_code': 'IU2',
                                                          'records_per_chunk': ['int', 4],
                                                          'values': [[100, 101, 102],
                                                                     [103, 104, 105],
                                                                     [106, 107, 108],
                                                                     [109, 110, 111]]},
                                                 'attrs': {}}}},
                    'events': [('read_metadata', b'HEADER!!', False, -1),
                               ('transform_metadata', {'header': 1}, [{'line': 0}, {'line': 1}]),
                               ('create_cache',
                                '/eq4',
                                'IMG-HH-ALOS2225333100-180726-WWDR1.1__D-B3',
                                'Group',
                                'HH_scan3')],
                    'cache': {'222d23f51cbe39959748e010deaa9e0f4c7af1fb346fece53d2ee6b3863c8d4b/IMG-HH-ALOS2225333100-180726-WWDR1.1__D-B3.index': [718,
                                                                                                                                                    '23a594536560e671']},
                    'mapper_keys': ['IMG-HH-ALOS2225333100-180726-WWDR1.1__D-B3',
                                    'IMG-HV-ALOS2290760600-191011-WWDR1.5RUA']},
 'D_other_file_not_cached': {'result': {'path': 'HV',
                                        'url': None,
                                        'attrs': {'coordinates': ['t'], 'n': 4},
                                        'data': {'t': {'dims': ['rows'],
                                                       'data': ['int32', [5, 6, 7, 8]],
                                                       'attrs': {'units': 's'}},
                                                 'data': {'dims': ['rows', 'columns'],
                                                          'data': {'fs': ['DirFileSystem',
                                                                          '/eq4',
                                                                          'MemoryFileSystem'],
                                                                   'url': 'IMG-HV-ALOS2290760600-191011-WWDR1.5RUA',
                                                                   'byte_ranges': [(12, 18),
                                                                                   (22, 28),
                                                                                   (32, 38),
                                                                                   (42, 48)],
                                                                   'shape': (4, 3),
                                                                   'dtype': 'uint16',
                                                                   'type_code': 'IU2',
                                                                   'records_per_chunk': ['int64', 4],
                                                                   'values': [[100, 101, 102],
                                                                              [103, 104, 105],
                                                                              [106, 107, 108],
                                                                              [109, 110, 111]]},
                                                          'attrs': {}}}},
                             'events': [('read_cache',
                                         '/eq4',
                                         'IMG-HV-ALOS2290760600-191011-WWDR1.5RUA',
                                         'auto'),
                                        ('read_metadata', b'HEADER!!', False, 'auto'),
                                        ('transform_metadata', {'header': 1}, [{'line': 0}, {'line': 1}])],
                             'cache': {'222d23f51cbe39959748e010deaa9e0f4c7af1fb346fece53d2ee6b3863c8d4b/IMG-HH-ALOS2225333100-180726-WWDR1.1__D-B3.index': [718,
                                                                                                                                                             '23a594536560e671']},
                             'mapper_keys': ['IMG-HH-ALOS2225333100-180726-WWDR1.1__D-B3',
                                             'IMG-HV-ALOS2290760600-191011-WWDR1.5RUA']},
 'E_broken_cache': {'result': {'path': 'HH_scan3',
                               'url': None,
                               'attrs': {'coordinates': ['t'], 'n': 4},
                               'data': {'t': {'dims': ['rows'],
                                              'data': ['int32', [5, 6, 7, 8]],
                                              'attrs': {'units': 's'}},
                                        'data': {'dims': ['rows', 'columns'],
                                                 'data': {'fs': ['DirFileSystem', '/eq4', 'MemoryFileSystem'],
                                                          'url': 'IMG-HH-ALOS2225333100-180726-WWDR1.1__D-B3',
                                                          'byte_ranges': [(12, 18),
                                                                          (22, 28),
                                                                          (32, 38),
                                                                          (42, 48)],
                                                          'shape': (4, 3),
                                                          'dtype': 'uint16',
                                                          'type_code': 'IU2',
                                                          'records_per_chunk': ['int', 1024],
                                                          'values': [[100, 101, 102],
                                                                     [103, 104, 105],
                                                                     [106, 107, 108],
                                                                     [109, 110, 111]]},
                                                 'attrs': {}}}},
                    'events': [('read_cache', '/eq4', 'IMG-HH-ALOS2225333100-180726-WWDR1.1__D-B3', None),
                               ('read_metadata', b'HEADER!!', False, None),
                               ('transform_metadata', {'header': 1}, [{'line': 0}, {'line': 1}])],
                    'cache': {'222d23f51cbe39959748e010deaa9e0f4c7af1fb346fece53d2ee6b3863c8d4b/IMG-HH-ALOS2225333100-180726-WWDR1.1__D-B3.index': [30,
                                                                                                                                                    '0b23a02c78d77963']},
                    'mapper_keys': ['IMG-HH-ALOS2225333100-180726-WWDR1.1__D-B3',
                                    'IMG-HV-ALOS2290760600-191011-WWDR1.5RUA']},
 'E_broken_cache_recreate': {'result': {'path': 'HH_scan3',
                                        'url': None,
                                        'attrs': {'coordinates': ['t'], 'n': 4},
                                        'data': {'t': {'dims': ['rows'],
                                                       'data': ['int32', [5, 6, 7, 8]],
                                                       'attrs': {'units': 's'}},
                                                 'data': {'dims': ['rows', 'columns'],
                                                          'data': {'fs': ['DirFileSystem',
                                                                          '/eq4',
                                                                          'MemoryFileSystem'],
                                                                   'url': 'IMG-HH-ALOS2225333100-180726-WWDR1.1__D-B3',
                                                                   'byte_ranges': [(12, 18),
                                                                                   (22, 28),
                                                                                   (32, 38),
                                                                                   (42, 48)],
                                                                   'shape': (4, 3),
                                                                   'dtype': 'uint16',
                                                                   'type_code': 'IU2',
                                                                   'records_per_chunk': ['int', 1024],
                                                                   'values': [[100, 101, 102],
                                                                              [103, 104, 105],
                                                                              [106, 107, 108],
                                                                              [109, 110, 111]]},
                                                          'attrs': {}}}},
                             'events': [('read_cache',
                                         '/eq4',
                                         'IMG-HH-ALOS2225333100-180726-WWDR1.1__D-B3',
                                         None),
                                        ('read_metadata', b'HEADER!!', False, None),
                                        ('transform_metadata', {'header': 1}, [{'line': 0}, {'line': 1}]),
                                        ('create_cache',
                                         '/eq4',
                                         'IMG-HH-ALOS2225333100-180726-WWDR1.1__D-B3',
                                         'Group',
                                         'HH_scan3')],
                             'cache': {'222d23f51cbe39959748e010deaa9e0f4c7af1fb346fece53d2ee6b3863c8d4b/IMG-HH-ALOS2225333100-180726-WWDR1.1__D-B3.index': [718,
                                                                                                                                                             '23a594536560e671']},
                             'mapper_keys': ['IMG-HH-ALOS2225333100-180726-WWDR1.1__D-B3',
                                             'IMG-HV-ALOS2290760600-191011-WWDR1.5RUA']},
 'F_prepare': {'result': {'path': 'HV',
                          'url': None,
                          'attrs': {'coordinates': ['t'], 'n': 4},
                          'data': {'t': {'dims': ['rows'],
                                         'data': ['int32', [5, 6, 7, 8]],
                                         'attrs': {'units': 's'}},
                                   'data': {'dims': ['rows', 'columns'],
                                            'data': {'fs': ['DirFileSystem', '/eq4', 'MemoryFileSystem'],
                                                     'url': 'IMG-HV-ALOS2290760600-191011-WWDR1.5RUA',
                                                     'byte_ranges': [(12, 18), (22, 28), (32, 38), (42, 48)],
                                                     'shape': (4, 3),
                                                     'dtype': 'uint16',
                                                     'type_code': 'IU2',
                                                     'records_per_chunk': ['int', 1],
                                                     'values': [[100, 101, 102],
                                                                [103, 104, 105],
                                                                [106, 107, 108],
                                                                [109, 110, 111]]},
                                            'attrs': {}}}},
               'events': [('read_cache', '/eq4', 'IMG-HV-ALOS2290760600-191011-WWDR1.5RUA', 1),
                          ('read_metadata', b'HEADER!!', False, 1),
                          ('transform_metadata', {'header': 1}, [{'line': 0}, {'line': 1}]),
                          ('create_cache', '/eq4', 'IMG-HV-ALOS2290760600-191011-WWDR1.5RUA', 'Group', 'HV')],
               'cache': {'222d23f51cbe39959748e010deaa9e0f4c7af1fb346fece53d2ee6b3863c8d4b/IMG-HV-ALOS2290760600-191011-WWDR1.5RUA.index': [709,
                                                                                                                                            '4c870515513e9ee3']},
               'mapper_keys': ['IMG-HH-ALOS2225333100-180726-WWDR1.1__D-B3',
                               'IMG-HV-ALOS2290760600-191011-WWDR1.5RUA']},
 'F_remote_cache': {'result': {'path': 'HV',
                               'url': None,
                               'attrs': {'coordinates': ['t'], 'n': 4},
                               'data': {'t': {'dims': ['rows'],
                                              'data': ['int32', [5, 6, 7, 8]],
                                              'attrs': {'units': 's'}},
                                        'data': {'dims': ['rows', 'columns'],
                                                 'data': {'fs': ['DirFileSystem', '/eq4', 'LocalFileSystem'],
                                                          'url': 'IMG-HV-ALOS2290760600-191011-WWDR1.5RUA',
                                                          'byte_ranges': [(12, 18),
                                                                          (22, 28),
                                                                          (32, 38),
                                                                          (42, 48)],
                                                          'shape': (4, 3),
                                                          'dtype': 'uint16',
                                                          'type_code': 'IU2',
                                                          'records_per_chunk': ['int', 4],
                                                          'values': 'not loadable'},
                                                 'attrs': {}}}},
                    'events': [('read_cache', '/eq4', 'IMG-HV-ALOS2290760600-191011-WWDR1.5RUA', 4)],
                    'cache': {},
                    'mapper_keys': ['IMG-HH-ALOS2225333100-180726-WWDR1.1__D-B3',
                                    'IMG-HV-ALOS2290760600-191011-WWDR1.5RUA',
                                    'IMG-HV-ALOS2290760600-191011-WWDR1.5RUA.index']},
 'F_remote_cache_disabled': {'result': {'path': 'HV',
                                        'url': None,
                                        'attrs': {'coordinates': ['t'], 'n': 4},
                                        'data': {'t': {'dims': ['rows'],
                                                       'data': ['int32', [5, 6, 7, 8]],
                                                       'attrs': {'units': 's'}},
                                                 'data': {'dims': ['rows', 'columns'],
                                                          'data': {'fs': ['DirFileSystem',
                                                                          '/eq4',
                                                                          'MemoryFileSystem'],
                                                                   'url': 'IMG-HV-ALOS2290760600-191011-WWDR1.5RUA',
                                                                   'byte_ranges': [(12, 18),
                                                                                   (22, 28),
                                                                                   (32, 38),
                                                                                   (42, 48)],
                                                                   'shape': (4, 3),
                                                                   'dtype': 'uint16',
                                                                   'type_code': 'IU2',
                                                                   'records_per_chunk': ['int', 1024],
                                                                   'values': [[100, 101, 102],
                                                                              [103, 104, 105],
                                                                              [106, 107, 108],
                                                                              [109, 110, 111]]},
                                                          'attrs': {}}}},
                             'events': [('read_metadata', b'HEADER!!', False, None),
                                        ('transform_metadata', {'header': 1}, [{'line': 0}, {'line': 1}])],
                             'cache': {},
                             'mapper_keys': ['IMG-HH-ALOS2225333100-180726-WWDR1.1__D-B3',
                                             'IMG-HV-ALOS2290760600-191011-WWDR1.5RUA',
                                             'IMG-HV-ALOS2290760600-191011-WWDR1.5RUA.index']},
 'G_missing': {'result': ['raised',
                          'FileNotFoundError',
                          '/eq4/IMG-HH-ALOS2225333100-180726-WWDR1.1__D-B3',
                          'NoneType',
                          'NoneType'],
               'events': [('read_cache', '/eq4', 'IMG-HH-ALOS2225333100-180726-WWDR1.1__D-B3', None)],
               'cache': {},
               'mapper_keys': ['IMG-HV-ALOS2290760600-191011-WWDR1.5RUA']},
 'G_missing_create': {'result': ['raised',
                                 'FileNotFoundError',
                                 '/eq4/IMG-HH-ALOS2225333100-180726-WWDR1.1__D-B3',
                                 'NoneType',
                                 'NoneType'],
                      'events': [],
                      'cache': {},
                      'mapper_keys': ['IMG-HV-ALOS2290760600-191011-WWDR1.5RUA']},
 'H_metadata_error': {'result': ['raised', 'ValueError', 'sizes mismatch', 'NoneType', 'NoneType'],
                      'events': [('read_cache', '/eq4', 'IMG-HH-ALOS2225333100-180726-WWDR1.1__D-B3', None),
                                 ('read_metadata', b'HEADER!!', False, None)],
                      'cache': {},
                      'mapper_keys': ['IMG-HH-ALOS2225333100-180726-WWDR1.1__D-B3',
                                      'IMG-HV-ALOS2290760600-191011-WWDR1.5RUA']},
 'I_cache_reader_fnf': {'result': ['raised', 'FileNotFoundError', 'plain', 'NoneType', 'NoneType'],
                        'events': [('read_cache',
                                    '/eq4',
                                    'IMG-HH-ALOS2225333100-180726-WWDR1.1__D-B3',
                                    None)],
                        'cache': {},
                        'mapper_keys': ['IMG-HH-ALOS2225333100-180726-WWDR1.1__D-B3',
                                        'IMG-HV-ALOS2290760600-191011-WWDR1.5RUA']},
 'I_cache_reader_perm': {'result': ['raised', 'PermissionError', 'denied', 'NoneType', 'NoneType'],
                         'events': [('read_cache',
                                     '/eq4',
                                     'IMG-HH-ALOS2225333100-180726-WWDR1.1__D-B3',
                                     None)],
                         'cache': {},
                         'mapper_keys': ['IMG-HH-ALOS2225333100-180726-WWDR1.1__D-B3',
                                         'IMG-HV-ALOS2290760600-191011-WWDR1.5RUA']},
 'I_cache_reader_caching_error': {'result': {'path': 'HH_scan3',
                                             'url': None,
                                             'attrs': {'coordinates': ['t'], 'n': 4},
                                             'data': {'t': {'dims': ['rows'],
                                                            'data': ['int32', [5, 6, 7, 8]],
                                                            'attrs': {'units': 's'}},
                                                      'data': {'dims': ['rows', 'columns'],
                                                               'data': {'fs': ['DirFileSystem',
                                                                               '/eq4',
                                                                               'MemoryFileSystem'],
                                                                        'url': 'IMG-HH-ALOS2225333100-180726-WWDR1.1__D-B3',
                                                                        'byte_ranges': [(12, 18),
                                                                                        (22, 28),
                                                                                        (32, 38),
                                                                                        (42, 48)],
                                                                        'shape': (4, 3),
                                                                        'dtype': 'uint16',
                                                                        'type_code': 'IU2',
                                                                        'records_per_chunk': ['int', 1024],
                                                                        'values': [[100, 101, 102],
                                                                                   [103, 104, 105],
                                                                                   [106, 107, 108],
                                                                                   [109, 110, 111]]},
                                                               'attrs': {}}}},
                                  'events': [('read_cache',
                                              '/eq4',
                                              'IMG-HH-ALOS2225333100-180726-WWDR1.1__D-B3',
                                              None),
                                             ('read_metadata', b'HEADER!!', False, None),
                                             ('transform_metadata',
                                              {'header': 1},
                                              [{'line': 0}, {'line': 1}])],
                                  'cache': {},
                                  'mapper_keys': ['IMG-HH-ALOS2225333100-180726-WWDR1.1__D-B3',
                                                  'IMG-HV-ALOS2290760600-191011-WWDR1.5RUA']},
 'J_bad_name': {'result': ['raised', 'ValueError', 'invalid file name: image.bin', 'NoneType', 'NoneType'],
                'events': [('read_cache', '/eq4', 'image.bin', None),
                           ('read_metadata', b'HEADER!!', False, None),
                           ('transform_metadata', {'header': 1}, [{'line': 0}, {'line': 1}])],
                'cache': {},
                'mapper_keys': ['image.bin']},
 'K_flags_0_1': {'result': {'path': 'HH_scan3',
                            'url': None,
                            'attrs': {'coordinates': ['t'], 'n': 4},
                            'data': {'t': {'dims': ['rows'],
                                           'data': ['int32', [5, 6, 7, 8]],
                                           'attrs': {'units': 's'}},
                                     'data': {'dims': ['rows', 'columns'],
                                              'data': {'fs': ['DirFileSystem', '/eq4', 'MemoryFileSystem'],
                                                       'url': 'IMG-HH-ALOS2225333100-180726-WWDR1.1__D-B3',
                                                       'byte_ranges': [(12, 18),
                                                                       (22, 28),
                                                                       (32, 38),
                                                                       (42, 48)],
                                                       'shape': (4, 3),
                                                       'dtype': 'uint16',
                                                       'type_code': 'IU2',
                                                       'records_per_chunk': ['int', 1024],
                                                       'values': [[100, 101, 102],
                                                                  [103, 104, 105],
                                                                  [106, 107, 108],
                                                                  [109, 110, 111]]},
                                              'attrs': {}}}},
                 'events': [('read_metadata', b'HEADER!!', False, None),
                            ('transform_metadata', {'header': 1}, [{'line': 0}, {'line': 1}]),
                            ('create_cache',
                             '/eq4',
                             'IMG-HH-ALOS2225333100-180726-WWDR1.1__D-B3',
                             'Group',
                             'HH_scan3')],
                 'cache': {'222d23f51cbe39959748e010deaa9e0f4c7af1fb346fece53d2ee6b3863c8d4b/IMG-HH-ALOS2225333100-180726-WWDR1.1__D-B3.index': [718,
                                                                                                                                                 '23a594536560e671']},
                 'mapper_keys': ['IMG-HH-ALOS2225333100-180726-WWDR1.1__D-B3',
                                 'IMG-HV-ALOS2290760600-191011-WWDR1.5RUA']},
 'K_flags_str': {'result': {'path': 'HH_scan3',
                            'url': None,
                            'attrs': {'coordinates': ['t'], 'n': 4},
                            'data': {'t': {'dims': ['rows'],
                                           'data': ['int32', [5, 6, 7, 8]],
                                           'attrs': {'units': 's'}},
                                     'data': {'dims': ['rows', 'columns'],
                                              'data': {'fs': ['DirFileSystem', '/eq4', 'LocalFileSystem'],
                                                       'url': 'IMG-HH-ALOS2225333100-180726-WWDR1.1__D-B3',
                                                       'byte_ranges': [(12, 18),
                                                                       (22, 28),
                                                                       (32, 38),
                                                                       (42, 48)],
                                                       'shape': (4, 3),
                                                       'dtype': 'uint16',
                                                       'type_code': 'IU2',
                                                       'records_per_chunk': ['int', 1024],
                                                       'values': 'not loadable'},
                                              'attrs': {}}}},
                 'events': [('read_cache', '/eq4', 'IMG-HH-ALOS2225333100-180726-WWDR1.1__D-B3', None)],
                 'cache': {'222d23f51cbe39959748e010deaa9e0f4c7af1fb346fece53d2ee6b3863c8d4b/IMG-HH-ALOS2225333100-180726-WWDR1.1__D-B3.index': [718,
                                                                                                                                                 '23a594536560e671']},
                 'mapper_keys': ['IMG-HH-ALOS2225333100-180726-WWDR1.1__D-B3',
                                 'IMG-HV-ALOS2290760600-191011-WWDR1.5RUA']},
 'K_flags_none': {'result': {'path': 'HV',
                             'url': None,
                             'attrs': {'coordinates': ['t'], 'n': 4},
                             'data': {'t': {'dims': ['rows'],
                                            'data': ['int32', [5, 6, 7, 8]],
                                            'attrs': {'units': 's'}},
                                      'data': {'dims': ['rows', 'columns'],
                                               'data': {'fs': ['DirFileSystem', '/eq4', 'MemoryFileSystem'],
                                                        'url': 'IMG-HV-ALOS2290760600-191011-WWDR1.5RUA',
                                                        'byte_ranges': [(12, 18),
                                                                        (22, 28),
                                                                        (32, 38),
                                                                        (42, 48)],
                                                        'shape': (4, 3),
                                                        'dtype': 'uint16',
                                                        'type_code': 'IU2',
                                                        'records_per_chunk': ['int', 1024],
                                                        'values': [[100, 101, 102],
                                                                   [103, 104, 105],
                                                                   [106, 107, 108],
                                                                   [109, 110, 111]]},
                                               'attrs': {}}}},
                  'events': [('read_metadata', b'HEADER!!', False, None),
                             ('transform_metadata', {'header': 1}, [{'line': 0}, {'line': 1}])],
                  'cache': {'222d23f51cbe39959748e010deaa9e0f4c7af1fb346fece53d2ee6b3863c8d4b/IMG-HH-ALOS2225333100-180726-WWDR1.1__D-B3.index': [718,
                                                                                                                                                  '23a594536560e671']},
                  'mapper_keys': ['IMG-HH-ALOS2225333100-180726-WWDR1.1__D-B3',
                                  'IMG-HV-ALOS2290760600-191011-WWDR1.5RUA']},
 'K_bad_rpc': {'result': ['raised',
                          'ValueError',
                          "Could not interpret 'many' as a byte unit",
                          'KeyError',
                          'KeyError'],
               'events': [('read_cache', '/eq4', 'IMG-HH-ALOS2225333100-180726-WWDR1.1__D-B3', 'many'),
                          ('read_metadata', b'HEADER!!', False, 'many'),
                          ('transform_metadata', {'header': 1}, [{'line': 0}, {'line': 1}])],
               'cache': {},
               'mapper_keys': ['IMG-HH-ALOS2225333100-180726-WWDR1.1__D-B3',
                               'IMG-HV-ALOS2290760600-191011-WWDR1.5RUA']},
 'L_positional_flag': ['TypeError', []],
 'L_unknown_option': ['TypeError', []],
 'L_no_path': ['TypeError', []]}

if "--print" in sys.argv:
    pprint.pprint(actual, width=110, sort_dicts=False)
    sys.exit(0)

assert set(actual) == set(EXPECTED), sorted(set(actual) ^ set(EXPECTED))
for key in EXPECTED:
    assert actual[key] == EXPECTED[key], (key, actual[key], EXPECTED[key])
    # dict == ignores the insertion order; the order matters here
    assert repr(actual[key]) == repr(EXPECTED[key]), (key, actual[key], EXPECTED[key])

print("refactoring 4: all equivalence checks passed")
