"""Equivalence check for refactoring 1 (ceos_alos2/sar_image/io.py).

Run: PYTHONPATH=<worktree> python _eq/1/equiv.py          (asserts against EXPECTED)
     PYTHONPATH=<worktree> python _eq/1/equiv.py --record (prints the observed table)
"""
import datetime
import io as stdio
import pprint
import struct
import sys

from construct import Int8ub, Seek, Struct, Tell, this

from ceos_alos2.sar_image import io
from ceos_alos2.utils import to_dict


class RecordingFile:
    """file-like object which logs every request made to it"""

    def __init__(self, content):
        self._f = stdio.BytesIO(content)
        self.log = []

    def read(self, *args, **kwargs):
        pos = self._f.tell()
        data = self._f.read(*args, **kwargs)
        self.log.append(("read", pos, args, tuple(sorted(kwargs.items())), len(data)))
        return data

    def seek(self, *args):
        self.log.append(("seek", args))
        return self._f.seek(*args)

    def tell(self):
        self.log.append(("tell",))
        return self._f.tell()


def preamble(seq, rtype, length):
    return struct.pack(">IBBBBI", seq, 0, rtype, 0, 0, length)


dummy_record_types = {
    10: Struct(
        "preamble" / io.record_preamble,
        "record_start" / Tell,
        "a" / Int8ub,
        "data" / Struct("start" / Tell, "stop" / Seek(this.start + 4)),
    ),
    11: Struct(
        "record_start" / Tell,
        "preamble" / io.record_preamble,
        "a" / Int8ub,
        "b" / Int8ub,
        "data" / Struct("start" / Tell, "stop" / Seek(this.start + 3)),
    ),
}


def dummy_records(n, rtype, size=17, start=1):
    return b"".join(
        preamble(i, rtype, size) + bytes([i % 256]) * (size - 12) for i in range(start, start + n)
    )


def file_descriptor(n_records, record_size):
    # 720 bytes, everything blank but the two fields `read_metadata` uses
    content = bytearray(b" " * 720)
    content[0:12] = preamble(1, 192, 720)
    content[180:186] = f"{n_records:6d}".encode()
    content[186:192] = f"{record_size:6d}".encode()
    return bytes(content)


def normalize(obj):
    if isinstance(obj, dict):
        return {k: normalize(v) for k, v in obj.items()}
    if isinstance(obj, (list, tuple)):
        return type(obj)(normalize(v) for v in obj)
    if isinstance(obj, (datetime.datetime, bytes)):
        return repr(obj)
    if isinstance(obj, float) and obj != obj:
        return "nan"
    return obj


def outcome(func):
    try:
        return ("ok", func())
    except BaseException as e:  # noqa: B036
        cause = type(e.__cause__).__name__ if e.__cause__ is not None else None
        ctx = type(e.__context__).__name__ if e.__context__ is not None else None
        return ("raised", type(e).__name__, str(e)[:200], cause, ctx)


def run_read_metadata(content, *args, patched_types=True, patched_descriptor=None, **kwargs):
    saved = io.record_types, io.read_file_descriptor
    if patched_types:
        io.record_types = dummy_record_types
    if patched_descriptor is not None:
        io.read_file_descriptor = patched_descriptor
    f = RecordingFile(content)
    try:
        result = outcome(lambda: normalize(io.read_metadata(f, *args, **kwargs)))
    finally:
        io.record_types, io.read_file_descriptor = saved
    if result[0] == "ok":
        header, metadata = result[1]
        # the real header is large; keep the interesting parts and its type
        result = (
            "ok",
            type(header).__name__,
            header.get("number_of_sar_data_records"),
            header.get("sar_data_record_length"),
            len(header),
            type(metadata).__name__,
            metadata,
        )
    return result, f.log


def run_parse_chunk(content, element_size, patched=True):
    saved = io.record_types
    if patched:
        io.record_types = dummy_record_types
    try:
        def call():
            res = io.parse_chunk(content, element_size)
            return (type(res).__name__, normalize(to_dict(res)))
        return outcome(call)
    finally:
        io.record_types = saved


class Data:
    def __init__(self, start, stop):
        self.start, self.stop = start, stop


class Record:
    def __init__(self, record_start, data):
        self.record_start, self.data = record_start, data


def run_adjust(records, offset):
    def call():
        out = io.adjust_offsets(records, offset)
        return (
            type(out).__name__,
            [(r.record_start, r.data.start, r.data.stop) for r in out],
            all(a is b for a, b in zip(out, records)),
        )
    return outcome(call)


def processed_record(seq, size):
    # real level 1.5 record layout: 192 bytes of prefix then the pixels
    body = bytearray(size)
    body[0:12] = preamble(seq, 11, size)
    struct.pack_into(">IIIII", body, 12, seq, 1, 0, (size - 192) // 2, 0)
    struct.pack_into(">IIII", body, 32, 1, 2020, 100 + seq, 1000 * seq)
    struct.pack_into(">HHHH", body, 48, 1, 2, 0, 1)
    return bytes(body)


def collect():
    results = {}

    # --- parse_chunk
    results["pc-mismatch"] = run_parse_chunk(b"\x00\x00\x00", 2)
    results["pc-empty"] = run_parse_chunk(b"", 17)
    results["pc-zero-size"] = run_parse_chunk(b"abc", 0)
    results["pc-unknown"] = run_parse_chunk(b"\x00" * 12, 2)
    results["pc-unknown-real"] = run_parse_chunk(preamble(1, 50, 12), 12, patched=False)
    results["pc-short-preamble"] = run_parse_chunk(b"\x00" * 8, 4)
    results["pc-10"] = run_parse_chunk(dummy_records(3, 10), 17)
    results["pc-11"] = run_parse_chunk(dummy_records(2, 11), 17)
    results["pc-11-truncated-elem"] = run_parse_chunk(dummy_records(2, 11, size=17), 34)
    results["pc-11-small-elem"] = run_parse_chunk(dummy_records(2, 11, size=14), 14)
    results["pc-mixed"] = run_parse_chunk(dummy_records(1, 10) + dummy_records(1, 11), 17)
    results["pc-str"] = run_parse_chunk("abcd", 2)
    results["pc-real-processed"] = run_parse_chunk(
        processed_record(1, 200) + processed_record(2, 200), 200, patched=False
    )

    # --- adjust_offsets
    results["adj-0"] = run_adjust([], 5)
    results["adj-2"] = run_adjust([Record(1, Data(4, 6)), Record(6, Data(9, 11))], 12)
    results["adj-neg"] = run_adjust([Record(1, Data(4, 6))], -3)
    results["adj-bad"] = run_adjust([Record(1, None)], 2)
    results["adj-gen"] = run_adjust(iter([]), 2)

    # --- read_file_descriptor
    f = RecordingFile(file_descriptor(3, 17) + b"trailing")
    results["rfd"] = (
        outcome(lambda: normalize(to_dict(io.read_file_descriptor(f)))["sar_data_record_length"]),
        f.log,
    )
    f = RecordingFile(b" " * 100)
    results["rfd-short"] = (outcome(lambda: io.read_file_descriptor(f)), f.log)

    # --- read_metadata
    for n in (0, 1, 2, 3, 5, 8):
        for rpc in (1, 2, 3, 4, 1024):
            content = file_descriptor(n, 17) + dummy_records(n, 11)
            results[f"rm-{n}-{rpc}"] = run_read_metadata(content, rpc)
            results[f"rm-kw-{n}-{rpc}"] = run_read_metadata(content, records_per_chunk=rpc)
    content = file_descriptor(5, 17) + dummy_records(5, 10)
    results["rm-default"] = run_read_metadata(content)
    results["rm-type10"] = run_read_metadata(content, 2)
    results["rm-zero-rpc"] = run_read_metadata(content, 0)
    results["rm-negative-rpc"] = run_read_metadata(content, -2)
    results["rm-none-rpc"] = run_read_metadata(content, None)
    results["rm-float-rpc"] = run_read_metadata(content, 2.0)
    results["rm-float-rpc2"] = run_read_metadata(content, 2.5)
    results["rm-huge-rpc"] = run_read_metadata(content, 10**9)
    # truncated file: the last chunk is short
    results["rm-truncated"] = run_read_metadata(content[:-5], 2)
    results["rm-truncated-whole-record"] = run_read_metadata(content[:-17], 2)
    results["rm-truncated-all"] = run_read_metadata(content[:720], 2)
    results["rm-truncated-big-chunk"] = run_read_metadata(content[:-5], 1024)
    # unknown record type in the second chunk: the first one was already processed
    bad = file_descriptor(4, 17) + dummy_records(2, 11) + dummy_records(2, 99, start=3)
    results["rm-unknown-2nd-chunk"] = run_read_metadata(bad, 2)
    results["rm-unknown-1st-chunk"] = run_read_metadata(bad, 4)
    # chunk with mixed types: the first record decides
    mixed = file_descriptor(4, 17) + dummy_records(2, 11) + dummy_records(2, 10, start=3)
    results["rm-mixed-2"] = run_read_metadata(mixed, 2)
    results["rm-mixed-3"] = run_read_metadata(mixed, 3)
    # record size in the header disagrees with the records
    wrong = file_descriptor(3, 20) + dummy_records(4, 11)
    results["rm-wrong-size"] = run_read_metadata(wrong, 2)
    results["rm-zero-size"] = run_read_metadata(file_descriptor(3, 0) + dummy_records(3, 11), 2)
    # the real record types
    real = file_descriptor(3, 200) + b"".join(processed_record(i, 200) for i in range(1, 4))
    for rpc in (1, 2, 3, 1024):
        results[f"rm-real-{rpc}"] = run_read_metadata(real, rpc, patched_types=False)
    results["rm-real-default"] = run_read_metadata(real, patched_types=False)
    results["rm-real-unknown"] = run_read_metadata(
        file_descriptor(1, 12) + preamble(1, 50, 12), 1, patched_types=False
    )
    results["rm-short-descriptor"] = run_read_metadata(b" " * 100, 2)

    # replaced descriptor reader (as the test-suite does): offsets still count from 720
    def dummy_descriptor(f):
        f.read(2)
        return {"number_of_sar_data_records": 3, "sar_data_record_length": 17}

    results["rm-dummy-descriptor"] = run_read_metadata(
        b"\x03\x0e" + dummy_records(3, 10), 2, patched_descriptor=dummy_descriptor
    )
    results["rm-missing-key"] = run_read_metadata(
        b"", 2, patched_descriptor=lambda f: {"number_of_sar_data_records": 3}
    )

    # module level names which have to stay
    results["names"] = sorted(
        name
        for name in (
            "record_types", "parse_chunk", "_adjust_offset", "adjust_offsets",
            "read_file_descriptor", "read_metadata", "record_preamble",
            "file_descriptor_record", "processed_data_record", "signal_data_record", "to_dict",
        )
        if hasattr(io, name)
    )
    results["record_types"] = sorted(io.record_types)
    import inspect

    results["defaults"] = [
        str(p.default) for p in inspect.signature(io.read_metadata).parameters.values()
    ]
    return results


def compact(value):
    """long results are compared by digest (keeps the table readable)"""
    import hashlib

    text = repr(value)
    if len(text) <= 400:
        return value
    return ("sha256", hashlib.sha256(text.encode()).hexdigest(), len(text), text[:120])


# recorded from the unchanged code (HEAD) with `--record`
EXPECTED = {'pc-mismatch': ('raised', 'ValueError', 'sizes mismatch: chunksize is 2 but got 3 bytes', None, None),
 'pc-empty': ('raised',
              'StreamError',
              'Error in path (parsing) -> record_sequence_number\n'
              'stream read less than specified amount, expected 4, found 0',
              None,
              None),
 'pc-zero-size': ('raised', 'ZeroDivisionError', 'integer division or modulo by zero', None, None),
 'pc-unknown': ('raised', 'ValueError', 'unknown record type code: 0', None, None),
 'pc-unknown-real': ('raised', 'ValueError', 'unknown record type code: 50', None, None),
 'pc-short-preamble': ('raised',
                       'StreamError',
                       'Error in path (parsing) -> record_length\n'
                       'stream read less than specified amount, expected 4, found 0',
                       None,
                       None),
 'pc-10': ('sha256',
           '53edeeb399d4d0b74072035552844fce50d2770a85fa6fc498d194bb9bc1c7d9',
           708,
           "('ok', ('list', [{'preamble': {'record_sequence_number': 1, 'first_record_subtype': 0, 'record_type': 10, "
           "'second_record"),
 'pc-11': ('sha256',
           'c9be5b4b992e0ddabd29121c765d3100856567d331cca1c9b037f3ab2bcd1c49',
           493,
           "('ok', ('list', [{'record_start': 0, 'preamble': {'record_sequence_number': 1, 'first_record_subtype': 0, "
           "'record_type':"),
 'pc-11-truncated-elem': ('ok',
                          ('list',
                           [{'record_start': 0,
                             'preamble': {'record_sequence_number': 1,
                                          'first_record_subtype': 0,
                                          'record_type': 11,
                                          'second_record_subtype': 0,
                                          'third_record_subtype': 0,
                                          'record_length': 17},
                             'a': 1,
                             'b': 1,
                             'data': {'start': 14, 'stop': 17}}])),
 'pc-11-small-elem': ('raised',
                      'StreamError',
                      'Error in path (parsing) -> preamble -> record_length\n'
                      'stream read less than specified amount, expected 4, found 3',
                      None,
                      None),
 'pc-mixed': ('sha256',
              '55c8d9eab2408a4668adbc877169d5f23d949c9d7a029d6dc2bbf78d00b4c5ad',
              478,
              "('ok', ('list', [{'preamble': {'record_sequence_number': 1, 'first_record_subtype': 0, 'record_type': "
              "10, 'second_record"),
 'pc-str': ('raised', 'TypeError', "a bytes-like object is required, not 'str'", None, None),
 'pc-real-processed': ('sha256',
                       'f2978f6f71dea54cd7d56ed16acadd966d38342344f15120c3dc448946ca94a4',
                       4020,
                       "('ok', ('list', [{'record_start': 0, 'preamble': {'record_sequence_number': 1, "
                       "'first_record_subtype': 0, 'record_type':"),
 'adj-0': ('ok', ('list', [], True)),
 'adj-2': ('ok', ('list', [(13, 16, 18), (18, 21, 23)], True)),
 'adj-neg': ('ok', ('list', [(-2, 1, 3)], True)),
 'adj-bad': ('raised', 'AttributeError', "'NoneType' object has no attribute 'start'", None, None),
 'adj-gen': ('ok', ('list', [], True)),
 'rfd': (('ok', 17), [('read', 0, (720,), (), 720)]),
 'rfd-short': (('raised',
                'StreamError',
                'Error in path (parsing) -> record_length_location\n'
                'stream read less than specified amount, expected 8, found 0',
                None,
                None),
               [('read', 0, (720,), (), 100)]),
 'rm-0-1': (('ok', 'dict', 0, 17, 31, 'list', []), [('read', 0, (720,), (), 720)]),
 'rm-kw-0-1': (('ok', 'dict', 0, 17, 31, 'list', []), [('read', 0, (720,), (), 720)]),
 'rm-0-2': (('ok', 'dict', 0, 17, 31, 'list', []), [('read', 0, (720,), (), 720)]),
 'rm-kw-0-2': (('ok', 'dict', 0, 17, 31, 'list', []), [('read', 0, (720,), (), 720)]),
 'rm-0-3': (('ok', 'dict', 0, 17, 31, 'list', []), [('read', 0, (720,), (), 720)]),
 'rm-kw-0-3': (('ok', 'dict', 0, 17, 31, 'list', []), [('read', 0, (720,), (), 720)]),
 'rm-0-4': (('ok', 'dict', 0, 17, 31, 'list', []), [('read', 0, (720,), (), 720)]),
 'rm-kw-0-4': (('ok', 'dict', 0, 17, 31, 'list', []), [('read', 0, (720,), (), 720)]),
 'rm-0-1024': (('ok', 'dict', 0, 17, 31, 'list', []), [('read', 0, (720,), (), 720)]),
 'rm-kw-0-1024': (('ok', 'dict', 0, 17, 31, 'list', []), [('read', 0, (720,), (), 720)]),
 'rm-1-1': (('ok',
             'dict',
             1,
             17,
             31,
             'list',
             [{'record_start': 720,
               'preamble': {'record_sequence_number': 1,
                            'first_record_subtype': 0,
                            'record_type': 11,
                            'second_record_subtype': 0,
                            'third_record_subtype': 0,
                            'record_length': 17},
               'a': 1,
               'b': 1,
               'data': {'start': 734, 'stop': 737}}]),
            [('read', 0, (720,), (), 720), ('read', 720, (17,), (), 17)]),
 'rm-kw-1-1': (('ok',
                'dict',
                1,
                17,
                31,
                'list',
                [{'record_start': 720,
                  'preamble': {'record_sequence_number': 1,
                               'first_record_subtype': 0,
                               'record_type': 11,
                               'second_record_subtype': 0,
                               'third_record_subtype': 0,
                               'record_length': 17},
                  'a': 1,
                  'b': 1,
                  'data': {'start': 734, 'stop': 737}}]),
               [('read', 0, (720,), (), 720), ('read', 720, (17,), (), 17)]),
 'rm-1-2': (('ok',
             'dict',
             1,
             17,
             31,
             'list',
             [{'record_start': 720,
               'preamble': {'record_sequence_number': 1,
                            'first_record_subtype': 0,
                            'record_type': 11,
                            'second_record_subtype': 0,
                            'third_record_subtype': 0,
                            'record_length': 17},
               'a': 1,
               'b': 1,
               'data': {'start': 734, 'stop': 737}}]),
            [('read', 0, (720,), (), 720), ('read', 720, (17,), (), 17)]),
 'rm-kw-1-2': (('ok',
                'dict',
                1,
                17,
                31,
                'list',
                [{'record_start': 720,
                  'preamble': {'record_sequence_number': 1,
                               'first_record_subtype': 0,
                               'record_type': 11,
                               'second_record_subtype': 0,
                               'third_record_subtype': 0,
                               'record_length': 17},
                  'a': 1,
                  'b': 1,
                  'data': {'start': 734, 'stop': 737}}]),
               [('read', 0, (720,), (), 720), ('read', 720, (17,), (), 17)]),
 'rm-1-3': (('ok',
             'dict',
             1,
             17,
             31,
             'list',
             [{'record_start': 720,
               'preamble': {'record_sequence_number': 1,
                            'first_record_subtype': 0,
                            'record_type': 11,
                            'second_record_subtype': 0,
                            'third_record_subtype': 0,
                            'record_length': 17},
               'a': 1,
               'b': 1,
               'data': {'start': 734, 'stop': 737}}]),
            [('read', 0, (720,), (), 720), ('read', 720, (17,), (), 17)]),
 'rm-kw-1-3': (('ok',
                'dict',
                1,
                17,
                31,
                'list',
                [{'record_start': 720,
                  'preamble': {'record_sequence_number': 1,
                               'first_record_subtype': 0,
                               'record_type': 11,
                               'second_record_subtype': 0,
                               'third_record_subtype': 0,
                               'record_length': 17},
                  'a': 1,
                  'b': 1,
                  'data': {'start': 734, 'stop': 737}}]),
               [('read', 0, (720,), (), 720), ('read', 720, (17,), (), 17)]),
 'rm-1-4': (('ok',
             'dict',
             1,
             17,
             31,
             'list',
             [{'record_start': 720,
               'preamble': {'record_sequence_number': 1,
                            'first_record_subtype': 0,
                            'record_type': 11,
                            'second_record_subtype': 0,
                            'third_record_subtype': 0,
                            'record_length': 17},
               'a': 1,
               'b': 1,
               'data': {'start': 734, 'stop': 737}}]),
            [('read', 0, (720,), (), 720), ('read', 720, (17,), (), 17)]),
 'rm-kw-1-4': (('ok',
                'dict',
                1,
                17,
                31,
                'list',
                [{'record_start': 720,
                  'preamble': {'record_sequence_number': 1,
                               'first_record_subtype': 0,
                               'record_type': 11,
                               'second_record_subtype': 0,
                               'third_record_subtype': 0,
                               'record_length': 17},
                  'a': 1,
                  'b': 1,
                  'data': {'start': 734, 'stop': 737}}]),
               [('read', 0, (720,), (), 720), ('read', 720, (17,), (), 17)]),
 'rm-1-1024': (('ok',
                'dict',
                1,
                17,
                31,
                'list',
                [{'record_start': 720,
                  'preamble': {'record_sequence_number': 1,
                               'first_record_subtype': 0,
                               'record_type': 11,
                               'second_record_subtype': 0,
                               'third_record_subtype': 0,
                               'record_length': 17},
                  'a': 1,
                  'b': 1,
                  'data': {'start': 734, 'stop': 737}}]),
               [('read', 0, (720,), (), 720), ('read', 720, (17,), (), 17)]),
 'rm-kw-1-1024': (('ok',
                   'dict',
                   1,
                   17,
                   31,
                   'list',
                   [{'record_start': 720,
                     'preamble': {'record_sequence_number': 1,
                                  'first_record_subtype': 0,
                                  'record_type': 11,
                                  'second_record_subtype': 0,
                                  'third_record_subtype': 0,
                                  'record_length': 17},
                     'a': 1,
                     'b': 1,
                     'data': {'start': 734, 'stop': 737}}]),
                  [('read', 0, (720,), (), 720), ('read', 720, (17,), (), 17)]),
 'rm-2-1': ('sha256',
            'dd71a84fc3068eef4e95023b8688cb5c34fc5815f1dc642ef41fcc011085d3bb',
            611,
            "(('ok', 'dict', 2, 17, 31, 'list', [{'record_start': 720, 'preamble': {'record_sequence_number': 1, "
            "'first_record_subtyp"),
 'rm-kw-2-1': ('sha256',
               'dd71a84fc3068eef4e95023b8688cb5c34fc5815f1dc642ef41fcc011085d3bb',
               611,
               "(('ok', 'dict', 2, 17, 31, 'list', [{'record_start': 720, 'preamble': {'record_sequence_number': 1, "
               "'first_record_subtyp"),
 'rm-2-2': ('sha256',
            'c9ff42f224fe554af6a6286337732d8261eb4ee39fa8411d115a04a5bfdf03ab',
            581,
            "(('ok', 'dict', 2, 17, 31, 'list', [{'record_start': 720, 'preamble': {'record_sequence_number': 1, "
            "'first_record_subtyp"),
 'rm-kw-2-2': ('sha256',
               'c9ff42f224fe554af6a6286337732d8261eb4ee39fa8411d115a04a5bfdf03ab',
               581,
               "(('ok', 'dict', 2, 17, 31, 'list', [{'record_start': 720, 'preamble': {'record_sequence_number': 1, "
               "'first_record_subtyp"),
 'rm-2-3': ('sha256',
            'c9ff42f224fe554af6a6286337732d8261eb4ee39fa8411d115a04a5bfdf03ab',
            581,
            "(('ok', 'dict', 2, 17, 31, 'list', [{'record_start': 720, 'preamble': {'record_sequence_number': 1, "
            "'first_record_subtyp"),
 'rm-kw-2-3': ('sha256',
               'c9ff42f224fe554af6a6286337732d8261eb4ee39fa8411d115a04a5bfdf03ab',
               581,
               "(('ok', 'dict', 2, 17, 31, 'list', [{'record_start': 720, 'preamble': {'record_sequence_number': 1, "
               "'first_record_subtyp"),
 'rm-2-4': ('sha256',
            'c9ff42f224fe554af6a6286337732d8261eb4ee39fa8411d115a04a5bfdf03ab',
            581,
            "(('ok', 'dict', 2, 17, 31, 'list', [{'record_start': 720, 'preamble': {'record_sequence_number': 1, "
            "'first_record_subtyp"),
 'rm-kw-2-4': ('sha256',
               'c9ff42f224fe554af6a6286337732d8261eb4ee39fa8411d115a04a5bfdf03ab',
               581,
               "(('ok', 'dict', 2, 17, 31, 'list', [{'record_start': 720, 'preamble': {'record_sequence_number': 1, "
               "'first_record_subtyp"),
 'rm-2-1024': ('sha256',
               'c9ff42f224fe554af6a6286337732d8261eb4ee39fa8411d115a04a5bfdf03ab',
               581,
               "(('ok', 'dict', 2, 17, 31, 'list', [{'record_start': 720, 'preamble': {'record_sequence_number': 1, "
               "'first_record_subtyp"),
 'rm-kw-2-1024': ('sha256',
                  'c9ff42f224fe554af6a6286337732d8261eb4ee39fa8411d115a04a5bfdf03ab',
                  581,
                  "(('ok', 'dict', 2, 17, 31, 'list', [{'record_start': 720, 'preamble': {'record_sequence_number': 1, "
                  "'first_record_subtyp"),
 'rm-3-1': ('sha256',
            'b1c29d56941a444d4872bccdc03e1a2580f99fac7a806d4c7cd944317c2a6305',
            882,
            "(('ok', 'dict', 3, 17, 31, 'list', [{'record_start': 720, 'preamble': {'record_sequence_number': 1, "
            "'first_record_subtyp"),
 'rm-kw-3-1': ('sha256',
               'b1c29d56941a444d4872bccdc03e1a2580f99fac7a806d4c7cd944317c2a6305',
               882,
               "(('ok', 'dict', 3, 17, 31, 'list', [{'record_start': 720, 'preamble': {'record_sequence_number': 1, "
               "'first_record_subtyp"),
 'rm-3-2': ('sha256',
            '55878754448a0c10b2d6f38a7b493ffd0911f10986576e38f5cbe155330246f5',
            852,
            "(('ok', 'dict', 3, 17, 31, 'list', [{'record_start': 720, 'preamble': {'record_sequence_number': 1, "
            "'first_record_subtyp"),
 'rm-kw-3-2': ('sha256',
               '55878754448a0c10b2d6f38a7b493ffd0911f10986576e38f5cbe155330246f5',
               852,
               "(('ok', 'dict', 3, 17, 31, 'list', [{'record_start': 720, 'preamble': {'record_sequence_number': 1, "
               "'first_record_subtyp"),
 'rm-3-3': ('sha256',
            '36c8af6217176a04881aba79d36a42d0958b5b617a31eea4a77bc860ae7d877b',
            822,
            "(('ok', 'dict', 3, 17, 31, 'list', [{'record_start': 720, 'preamble': {'record_sequence_number': 1, "
            "'first_record_subtyp"),
 'rm-kw-3-3': ('sha256',
               '36c8af6217176a04881aba79d36a42d0958b5b617a31eea4a77bc860ae7d877b',
               822,
               "(('ok', 'dict', 3, 17, 31, 'list', [{'record_start': 720, 'preamble': {'record_sequence_number': 1, "
               "'first_record_subtyp"),
 'rm-3-4': ('sha256',
            '36c8af6217176a04881aba79d36a42d0958b5b617a31eea4a77bc860ae7d877b',
            822,
            "(('ok', 'dict', 3, 17, 31, 'list', [{'record_start': 720, 'preamble': {'record_sequence_number': 1, "
            "'first_record_subtyp"),
 'rm-kw-3-4': ('sha256',
               '36c8af6217176a04881aba79d36a42d0958b5b617a31eea4a77bc860ae7d877b',
               822,
               "(('ok', 'dict', 3, 17, 31, 'list', [{'record_start': 720, 'preamble': {'record_sequence_number': 1, "
               "'first_record_subtyp"),
 'rm-3-1024': ('sha256',
               '36c8af6217176a04881aba79d36a42d0958b5b617a31eea4a77bc860ae7d877b',
               822,
               "(('ok', 'dict', 3, 17, 31, 'list', [{'record_start': 720, 'preamble': {'record_sequence_number': 1, "
               "'first_record_subtyp"),
 'rm-kw-3-1024': ('sha256',
                  '36c8af6217176a04881aba79d36a42d0958b5b617a31eea4a77bc860ae7d877b',
                  822,
                  "(('ok', 'dict', 3, 17, 31, 'list', [{'record_start': 720, 'preamble': {'record_sequence_number': 1, "
                  "'first_record_subtyp"),
 'rm-5-1': ('sha256',
            'c847675dfe43cea7b2d033ca3f3e0d3561c88baff78a85d8c20998f3f8b02e92',
            1424,
            "(('ok', 'dict', 5, 17, 31, 'list', [{'record_start': 720, 'preamble': {'record_sequence_number': 1, "
            "'first_record_subtyp"),
 'rm-kw-5-1': ('sha256',
               'c847675dfe43cea7b2d033ca3f3e0d3561c88baff78a85d8c20998f3f8b02e92',
               1424,
               "(('ok', 'dict', 5, 17, 31, 'list', [{'record_start': 720, 'preamble': {'record_sequence_number': 1, "
               "'first_record_subtyp"),
 'rm-5-2': ('sha256',
            'cd8b6e4cea0368bf6179dc13059faa8bd3bd688d6f1a1ea83610f5ca552ecd11',
            1364,
            "(('ok', 'dict', 5, 17, 31, 'list', [{'record_start': 720, 'preamble': {'record_sequence_number': 1, "
            "'first_record_subtyp"),
 'rm-kw-5-2': ('sha256',
               'cd8b6e4cea0368bf6179dc13059faa8bd3bd688d6f1a1ea83610f5ca552ecd11',
               1364,
               "(('ok', 'dict', 5, 17, 31, 'list', [{'record_start': 720, 'preamble': {'record_sequence_number': 1, "
               "'first_record_subtyp"),
 'rm-5-3': ('sha256',
            '1ff94c4cd3b6b405598debd081f83c68fec027846f9058b6e29adcbe4e3ca4db',
            1334,
            "(('ok', 'dict', 5, 17, 31, 'list', [{'record_start': 720, 'preamble': {'record_sequence_number': 1, "
            "'first_record_subtyp"),
 'rm-kw-5-3': ('sha256',
               '1ff94c4cd3b6b405598debd081f83c68fec027846f9058b6e29adcbe4e3ca4db',
               1334,
               "(('ok', 'dict', 5, 17, 31, 'list', [{'record_start': 720, 'preamble': {'record_sequence_number': 1, "
               "'first_record_subtyp"),
 'rm-5-4': ('sha256',
            '0732f884b80133065bafdbcac6376c3ff996fbab3c559c6fe5bde26f56ff4c32',
            1334,
            "(('ok', 'dict', 5, 17, 31, 'list', [{'record_start': 720, 'preamble': {'record_sequence_number': 1, "
            "'first_record_subtyp"),
 'rm-kw-5-4': ('sha256',
               '0732f884b80133065bafdbcac6376c3ff996fbab3c559c6fe5bde26f56ff4c32',
               1334,
               "(('ok', 'dict', 5, 17, 31, 'list', [{'record_start': 720, 'preamble': {'record_sequence_number': 1, "
               "'first_record_subtyp"),
 'rm-5-1024': ('sha256',
               '2c466b00cc7bde1d48575b877e460addd7e8544f5b1e83766ffefd4407b435b3',
               1304,
               "(('ok', 'dict', 5, 17, 31, 'list', [{'record_start': 720, 'preamble': {'record_sequence_number': 1, "
               "'first_record_subtyp"),
 'rm-kw-5-1024': ('sha256',
                  '2c466b00cc7bde1d48575b877e460addd7e8544f5b1e83766ffefd4407b435b3',
                  1304,
                  "(('ok', 'dict', 5, 17, 31, 'list', [{'record_start': 720, 'preamble': {'record_sequence_number': 1, "
                  "'first_record_subtyp"),
 'rm-8-1': ('sha256',
            '32b39ca8e551b193291e65c2287d6ef665b88c41eb5987c387170848007089e9',
            2237,
            "(('ok', 'dict', 8, 17, 31, 'list', [{'record_start': 720, 'preamble': {'record_sequence_number': 1, "
            "'first_record_subtyp"),
 'rm-kw-8-1': ('sha256',
               '32b39ca8e551b193291e65c2287d6ef665b88c41eb5987c387170848007089e9',
               2237,
               "(('ok', 'dict', 8, 17, 31, 'list', [{'record_start': 720, 'preamble': {'record_sequence_number': 1, "
               "'first_record_subtyp"),
 'rm-8-2': ('sha256',
            '9279b1b878bd1f7abcb9436b87f16ec9218aa0de0c94f1d99e2fbe688ba44eaf',
            2117,
            "(('ok', 'dict', 8, 17, 31, 'list', [{'record_start': 720, 'preamble': {'record_sequence_number': 1, "
            "'first_record_subtyp"),
 'rm-kw-8-2': ('sha256',
               '9279b1b878bd1f7abcb9436b87f16ec9218aa0de0c94f1d99e2fbe688ba44eaf',
               2117,
               "(('ok', 'dict', 8, 17, 31, 'list', [{'record_start': 720, 'preamble': {'record_sequence_number': 1, "
               "'first_record_subtyp"),
 'rm-8-3': ('sha256',
            '906633ea30de81c2ca848a6b3fbeaad7031c83a5c0683dbf15c947827bb23fd7',
            2087,
            "(('ok', 'dict', 8, 17, 31, 'list', [{'record_start': 720, 'preamble': {'record_sequence_number': 1, "
            "'first_record_subtyp"),
 'rm-kw-8-3': ('sha256',
               '906633ea30de81c2ca848a6b3fbeaad7031c83a5c0683dbf15c947827bb23fd7',
               2087,
               "(('ok', 'dict', 8, 17, 31, 'list', [{'record_start': 720, 'preamble': {'record_sequence_number': 1, "
               "'first_record_subtyp"),
 'rm-8-4': ('sha256',
            '1a63eac6b9aab8a0a32af779fab3fd48d1ad8a12c4cdba71e59be2913007fbf1',
            2057,
            "(('ok', 'dict', 8, 17, 31, 'list', [{'record_start': 720, 'preamble': {'record_sequence_number': 1, "
            "'first_record_subtyp"),
 'rm-kw-8-4': ('sha256',
               '1a63eac6b9aab8a0a32af779fab3fd48d1ad8a12c4cdba71e59be2913007fbf1',
               2057,
               "(('ok', 'dict', 8, 17, 31, 'list', [{'record_start': 720, 'preamble': {'record_sequence_number': 1, "
               "'first_record_subtyp"),
 'rm-8-1024': ('sha256',
               '8eddc6b10c5cbfee851dc6e7b8bda57f9e41e19dd362dd665206a0c16015f9b8',
               2029,
               "(('ok', 'dict', 8, 17, 31, 'list', [{'record_start': 720, 'preamble': {'record_sequence_number': 1, "
               "'first_record_subtyp"),
 'rm-kw-8-1024': ('sha256',
                  '8eddc6b10c5cbfee851dc6e7b8bda57f9e41e19dd362dd665206a0c16015f9b8',
                  2029,
                  "(('ok', 'dict', 8, 17, 31, 'list', [{'record_start': 720, 'preamble': {'record_sequence_number': 1, "
                  "'first_record_subtyp"),
 'rm-default': ('sha256',
                '68c3fcc51af0bc8a2b072216d00fbd6f0baf06d2b035896bf59827c7bb5b7ef8',
                1264,
                "(('ok', 'dict', 5, 17, 31, 'list', [{'preamble': {'record_sequence_number': 1, "
                "'first_record_subtype': 0, 'record_type':"),
 'rm-type10': ('sha256',
               'fd54c79ca75950c72c2f19e8054b872e6847a6eb908076747f956960fefa68a4',
               1324,
               "(('ok', 'dict', 5, 17, 31, 'list', [{'preamble': {'record_sequence_number': 1, 'first_record_subtype': "
               "0, 'record_type':"),
 'rm-zero-rpc': (('raised', 'ZeroDivisionError', 'division by zero', None, None), [('read', 0, (720,), (), 720)]),
 'rm-negative-rpc': (('ok', 'dict', 5, 17, 31, 'list', []), [('read', 0, (720,), (), 720)]),
 'rm-none-rpc': (('raised', 'TypeError', "unsupported operand type(s) for /: 'int' and 'NoneType'", None, None),
                 [('read', 0, (720,), (), 720)]),
 'rm-float-rpc': (('raised', 'TypeError', "argument should be integer or None, not 'float'", None, None),
                  [('read', 0, (720,), (), 720)]),
 'rm-float-rpc2': (('raised', 'TypeError', "argument should be integer or None, not 'float'", None, None),
                   [('read', 0, (720,), (), 720)]),
 'rm-huge-rpc': ('sha256',
                 '68c3fcc51af0bc8a2b072216d00fbd6f0baf06d2b035896bf59827c7bb5b7ef8',
                 1264,
                 "(('ok', 'dict', 5, 17, 31, 'list', [{'preamble': {'record_sequence_number': 1, "
                 "'first_record_subtype': 0, 'record_type':"),
 'rm-truncated': (('raised', 'ValueError', 'sizes mismatch: chunksize is 0 but got 12 bytes', None, None),
                  [('read', 0, (720,), (), 720),
                   ('read', 720, (34,), (), 34),
                   ('read', 754, (34,), (), 34),
                   ('read', 788, (17,), (), 12)]),
 'rm-truncated-whole-record': (('raised',
                                'StreamError',
                                'Error in path (parsing) -> record_sequence_number\n'
                                'stream read less than specified amount, expected 4, found 0',
                                None,
                                None),
                               [('read', 0, (720,), (), 720),
                                ('read', 720, (34,), (), 34),
                                ('read', 754, (34,), (), 34),
                                ('read', 788, (17,), (), 0)]),
 'rm-truncated-all': (('raised',
                       'StreamError',
                       'Error in path (parsing) -> record_sequence_number\n'
                       'stream read less than specified amount, expected 4, found 0',
                       None,
                       None),
                      [('read', 0, (720,), (), 720), ('read', 720, (34,), (), 0)]),
 'rm-truncated-big-chunk': (('raised', 'ValueError', 'sizes mismatch: chunksize is 68 but got 80 bytes', None, None),
                            [('read', 0, (720,), (), 720), ('read', 720, (85,), (), 80)]),
 'rm-unknown-2nd-chunk': (('raised', 'ValueError', 'unknown record type code: 99', None, None),
                          [('read', 0, (720,), (), 720), ('read', 720, (34,), (), 34), ('read', 754, (34,), (), 34)]),
 'rm-unknown-1st-chunk': ('sha256',
                          '2d70d0a888053f460cb267a182c204902b0ec57bf63e2ba618dda4fbda79476d',
                          1063,
                          "(('ok', 'dict', 4, 17, 31, 'list', [{'record_start': 720, 'preamble': "
                          "{'record_sequence_number': 1, 'first_record_subtyp"),
 'rm-mixed-2': ('sha256',
                'd0d4109862530ae5a167f275d99ee98b91d42a2eb296aa6583741f6d596c6eb8',
                1077,
                "(('ok', 'dict', 4, 17, 31, 'list', [{'record_start': 720, 'preamble': {'record_sequence_number': 1, "
                "'first_record_subtyp"),
 'rm-mixed-3': ('sha256',
                '6fb2f242f3fbedb6228440fd34bd1fb50d0883a531c87317cf5e9222b0606a1f',
                1085,
                "(('ok', 'dict', 4, 17, 31, 'list', [{'record_start': 720, 'preamble': {'record_sequence_number': 1, "
                "'first_record_subtyp"),
 'rm-wrong-size': (('raised', 'ValueError', 'unknown record type code: 17', None, None),
                   [('read', 0, (720,), (), 720), ('read', 720, (40,), (), 40), ('read', 760, (20,), (), 20)]),
 'rm-zero-size': (('raised', 'ZeroDivisionError', 'integer division or modulo by zero', None, None),
                  [('read', 0, (720,), (), 720), ('read', 720, (0,), (), 0)]),
 'rm-real-1': ('sha256',
               '274f7e9c5adbe1506206c889a5164d0c25c285c537fe3f05c2bb59e7a4234bf2',
               6178,
               "(('ok', 'dict', 3, 200, 31, 'list', [{'record_start': 720, 'preamble': {'record_sequence_number': 1, "
               "'first_record_subty"),
 'rm-real-2': ('sha256',
               'b07f687eec7190f5496e7b131dcaed8679218c13e9e3cc57a3c4f2047c1c0509',
               6146,
               "(('ok', 'dict', 3, 200, 31, 'list', [{'record_start': 720, 'preamble': {'record_sequence_number': 1, "
               "'first_record_subty"),
 'rm-real-3': ('sha256',
               'b5d6e4bb9bc2e53fd81e23e53bb797756c7bce16b3bc7153932524d230bb1150',
               6113,
               "(('ok', 'dict', 3, 200, 31, 'list', [{'record_start': 720, 'preamble': {'record_sequence_number': 1, "
               "'first_record_subty"),
 'rm-real-1024': ('sha256',
                  'b5d6e4bb9bc2e53fd81e23e53bb797756c7bce16b3bc7153932524d230bb1150',
                  6113,
                  "(('ok', 'dict', 3, 200, 31, 'list', [{'record_start': 720, 'preamble': {'record_sequence_number': "
                  "1, 'first_record_subty"),
 'rm-real-default': ('sha256',
                     'b5d6e4bb9bc2e53fd81e23e53bb797756c7bce16b3bc7153932524d230bb1150',
                     6113,
                     "(('ok', 'dict', 3, 200, 31, 'list', [{'record_start': 720, 'preamble': "
                     "{'record_sequence_number': 1, 'first_record_subty"),
 'rm-real-unknown': (('raised', 'ValueError', 'unknown record type code: 50', None, None),
                     [('read', 0, (720,), (), 720), ('read', 720, (12,), (), 12)]),
 'rm-short-descriptor': (('raised',
                          'StreamError',
                          'Error in path (parsing) -> record_length_location\n'
                          'stream read less than specified amount, expected 8, found 0',
                          None,
                          None),
                         [('read', 0, (720,), (), 100)]),
 'rm-dummy-descriptor': ('sha256',
                         'e9c5b014ab439d695ecad0e7dc385deb5fe5123a3eaed764736e91b36f934de1',
                         820,
                         "(('ok', 'dict', 3, 17, 2, 'list', [{'preamble': {'record_sequence_number': 1, "
                         "'first_record_subtype': 0, 'record_type': "),
 'rm-missing-key': (('raised', 'KeyError', "'sar_data_record_length'", None, None), []),
 'names': ['_adjust_offset',
           'adjust_offsets',
           'file_descriptor_record',
           'parse_chunk',
           'processed_data_record',
           'read_file_descriptor',
           'read_metadata',
           'record_preamble',
           'record_types',
           'signal_data_record',
           'to_dict'],
 'record_types': [10, 11],
 'defaults': ["<class 'inspect._empty'>", '1024']}


def main():
    results = {k: compact(v) for k, v in collect().items()}
    if "--record" in sys.argv:
        pprint.pprint(results, width=120, sort_dicts=False)
        return
    assert EXPECTED is not None
    assert set(results) == set(EXPECTED), set(results) ^ set(EXPECTED)
    failed = [k for k in results if results[k] != EXPECTED[k]]
    for k in failed:
        print("MISMATCH", k)
        print("   expected:", EXPECTED[k])
        print("   actual:  ", results[k])
    assert not failed, failed
    print(f"equiv 1: {len(results)} cases OK")


def test_equivalence():
    sys.argv = sys.argv[:1]
    main()


if __name__ == "__main__":
    main()
