"""Equivalence check for refactoring 4 (ceos_alos2/testing.py: diff_tree).

Run as:  PYTHONPATH=<worktree> python equiv.py            (asserts against recorded values)
         PYTHONPATH=<worktree> python equiv.py --record   (prints the observations as JSON)

EXPECTED_JSON below was recorded with the unchanged code (HEAD 343c5cf).
"""

import hashlib
import itertools
import json
import random
import sys

import numpy as np

from ceos_alos2 import testing
from ceos_alos2.hierarchy import Group, Variable
from ceos_alos2.tests.utils import create_dummy_array


def G(data=None, attrs=None, path=None, url=None):
    return Group(path=path, url=url, data=dict(data or {}), attrs=dict(attrs or {}))


def V(dims, values, attrs=None, dtype="int16"):
    return Variable(dims, np.array(values, dtype=dtype), dict(attrs or {}))


def trees():
    arr1 = create_dummy_array()
    arr2 = create_dummy_array(url="other", records_per_chunk=3)
    t = {}
    t["empty"] = G()
    t["empty-named"] = G(path="root")
    t["empty-url"] = G(url="memory://a")
    t["attrs1"] = G(attrs={"a": 1, "b": "x"})
    t["attrs2"] = G(attrs={"a": 2, "c": [1, 2]})
    t["vars1"] = G({"x": V("x", [1, 2, 3]), "y": V(["x", "y"], [[1, 2], [3, 4]], {"units": "m"})})
    t["vars2"] = G({"x": V("x", [1, 2, 4]), "z": V("z", [1.5], dtype="float64")})
    t["vars3"] = G({"x": V("t", [1, 2, 3], {"long_name": "time"}), "y": V(["x", "y"], [[1, 2], [3, 4]])})
    t["array1"] = G({"data": Variable(["rows", "columns"], arr1, {})})
    t["array2"] = G({"data": Variable(["rows", "columns"], arr2, {"a": 1})})
    t["array-vs-numpy"] = G({"data": V(["rows", "columns"], np.zeros((4, 3)))})
    t["one-a"] = G({"a": G()})
    t["one-b"] = G({"b": G()})
    t["one-ab"] = G({"a": G(), "b": G()})
    t["one-ba"] = G({"b": G(), "a": G()})
    t["one-a-attrs1"] = G({"a": G(attrs={"a": 1})})
    t["one-a-attrs2"] = G({"a": G(attrs={"a": 2})})
    t["one-a-url"] = G({"a": G(url="memory://sub")}, url="memory://root")
    t["one-a-url2"] = G({"a": G()}, url="memory://root")
    t["mixed1"] = G(
        {
            "v": V("x", [1]),
            "a": G({"w": V("y", [1, 2]), "aa": G(attrs={"deep": True})}, attrs={"n": 1}),
            "b": G({"u": V("z", [0])}),
        },
        attrs={"root": 1},
    )
    t["mixed2"] = G(
        {
            "v": V("x", [2]),
            "a": G({"w": V("y", [1, 3]), "aa": G(attrs={"deep": False}), "ab": G()}, attrs={"n": 1}),
            "c": G({"u": V("z", [0])}),
        },
        attrs={"root": 2},
    )
    t["mixed3"] = G(
        {
            "a": G({"aa": G({"aaa": G({"aaaa": G(attrs={"k": 1})})})}),
            "b": G({"u": V("z", [0])}),
            "v": V("x", [1]),
        },
        attrs={"root": 1},
    )
    t["deep1"] = G({"a": G({"b": G({"c": G({"d": G(attrs={"x": 1})})})})})
    t["deep2"] = G({"a": G({"b": G({"c": G({"d": G(attrs={"x": 2})}), "e": G()})})})
    t["named-mixed"] = G({"a": G({"w": V("y", [1, 2])})}, path="prefix", url="file:///x")
    t["multiline-attr"] = G({"a": G(attrs={"text": "line1\nline2"})}, attrs={"text": "a\nb"})
    t["multiline-attr2"] = G({"a": G(attrs={"text": "line1\nline3"})}, attrs={"text": "a\nc"})
    t["weird-names"] = G({"a b": G(), "a/b": G({"c": G()}), "": G(), "{x}": G(attrs={"a": 1})})
    t["weird-names2"] = G({"a b": G(attrs={"q": 1}), "a/b": G(), "{x}": G(attrs={"a": 2})})
    return t


def call(func, *args):
    try:
        result = func(*args)
    except BaseException as e:  # noqa: B902
        return ["raise", type(e).__name__, str(e)]
    return ["return", type(result).__name__, result if isinstance(result, str) else repr(result)]


class DecoupleLog:
    """record the order in which groups are decoupled (the laziness was restructured)"""

    def __init__(self):
        self.log = []

    def __enter__(self):
        original = self.original = Group.decouple
        log = self.log

        def decouple(group):
            log.append(group.path)
            return original(group)

        Group.decouple = decouple
        return log

    def __exit__(self, *exc):
        Group.decouple = self.original


def pair_observations():
    all_trees = trees()
    obs = []
    for (name_a, a), (name_b, b) in itertools.product(all_trees.items(), repeat=2):
        with DecoupleLog() as log:
            result = call(testing.diff_tree, a, b)
        obs.append([name_a, name_b, result, list(log)])
    text = json.dumps(obs)
    return [len(obs), hashlib.sha256(text.encode()).hexdigest()]


def selected_observations():
    t = trees()
    selected = [
        ("empty", "empty"),
        ("empty", "one-a"),
        ("one-a", "empty"),
        ("one-a", "one-b"),
        ("one-ab", "one-ba"),
        ("one-a-attrs1", "one-a-attrs2"),
        ("one-a-url", "one-a-url2"),
        ("mixed1", "mixed2"),
        ("mixed2", "mixed3"),
        ("deep1", "deep2"),
        ("empty", "empty-named"),
        ("named-mixed", "mixed1"),
        ("array1", "array2"),
        ("array1", "array-vs-numpy"),
        ("multiline-attr", "multiline-attr2"),
        ("weird-names", "weird-names2"),
        ("vars1", "vars2"),
        ("vars1", "vars3"),
    ]
    obs = []
    for name_a, name_b in selected:
        obs.append([name_a, name_b, "diff_tree", call(testing.diff_tree, t[name_a], t[name_b])])
        obs.append(
            [name_a, name_b, "assert_identical", call(testing.assert_identical, t[name_a], t[name_b])]
        )
    return obs


def invalid_observations():
    t = trees()
    var = V("x", [1])
    arr = create_dummy_array()
    candidates = {
        "group": t["mixed1"],
        "variable": var,
        "array": arr,
        "none": None,
        "dict": {"a": 1},
        "int": 1,
        "str": "/",
    }
    obs = []
    for (name_a, a), (name_b, b) in itertools.product(candidates.items(), repeat=2):
        if name_a == name_b == "group":
            continue
        obs.append([name_a, name_b, "diff_tree", call(testing.diff_tree, a, b)])
        obs.append([name_a, name_b, "assert_identical", call(testing.assert_identical, a, b)])

    class Fake:
        """duck-typed tree: `subtree` yields (path, group-or-None-like) pairs"""

        def __init__(self, items):
            self.items = items

        @property
        def subtree(self):
            return iter(self.items)

    g1 = G(attrs={"a": 1})
    g2 = G(attrs={"a": 2})
    fakes = {
        "dup-paths": Fake([("/", g1), ("/", g2)]),
        "plain": Fake([("/", g1), ("/x", g2)]),
        "not-groups": Fake([("/", 1)]),
        "none-group": Fake([("/", None), ("/y", g1)]),
        "int-paths": Fake([(0, g1), (1, g2)]),
        "bad-items": Fake([("/",)]),
        "empty": Fake([]),
    }
    for (name_a, a), (name_b, b) in itertools.product(fakes.items(), repeat=2):
        with DecoupleLog() as log:
            result = call(testing.diff_tree, a, b)
        obs.append([name_a, name_b, "fake", result, list(log)])
    return obs


def random_tree(rng, depth=0):
    data = {}
    for name in rng.sample(["a", "b", "c", "d"], rng.randint(0, 3)):
        if depth < 3 and rng.random() < 0.6:
            data[name] = random_tree(rng, depth + 1)
        else:
            data[name] = V(rng.choice(["x", "y"]), [rng.randint(0, 2) for _ in range(rng.randint(1, 2))])
    attrs = {k: rng.randint(0, 1) for k in rng.sample(["p", "q", "r"], rng.randint(0, 2))}
    url = rng.choice([None, None, "memory://u"]) if depth else rng.choice([None, "memory://r"])
    return G(data, attrs, url=url)


def fuzz_observations():
    rng = random.Random(4)
    obs = []
    for _ in range(600):
        a = random_tree(rng)
        b = random_tree(rng) if rng.random() < 0.8 else a
        with DecoupleLog() as log:
            obs.append([call(testing.diff_tree, a, b), list(log)])
        obs.append(call(testing.assert_identical, a, b))
    text = json.dumps(obs)
    sample = [obs[i] for i in (0, 1, 100, 101, 500, 501)]
    return [len(obs), hashlib.sha256(text.encode()).hexdigest(), sample]


def observe():
    return {
        "selected": selected_observations(),
        "pairs": pair_observations(),
        "invalid": invalid_observations(),
        "fuzz": fuzz_observations(),
    }


EXPECTED_JSON = r"""
{"selected": [["empty", "empty", "diff_tree", ["return", "str", "Left and right Group objects are not equal\n"]], ["empty", "empty", "assert_identical", ["return", "NoneType", "None"]], ["empty", "one-a", "diff_tree", ["return", "str", "Left and right Group objects are not equal\n  Differing tree structure:\n    Missing left:\n    - /a"]], ["empty", "one-a", "assert_identical", ["raise", "AssertionError", "Left and right Group objects are not equal\n  Differing tree structure:\n    Missing left:\n    - /a"]], ["one-a", "empty", "diff_tree", ["return", "str", "Left and right Group objects are not equal\n  Differing tree structure:\n    Missing right:\n    - /a"]], ["one-a", "empty", "assert_identical", ["raise", "AssertionError", "Left and right Group objects are not equal\n  Differing tree structure:\n    Missing right:\n    - /a"]], ["one-a", "one-b", "diff_tree", ["return", "str", "Left and right Group objects are not equal\n  Differing tree structure:\n    Missing left:\n    - /b\n    Missing right:\n    - /a"]], ["one-a", "one-b", "assert_identical", ["raise", "AssertionError", "Left and right Group objects are not equal\n  Differing tree structure:\n    Missing left:\n    - /b\n    Missing right:\n    - /a"]], ["one-ab", "one-ba", "diff_tree", ["return", "str", "Left and right Group objects are not equal\n"]], ["one-ab", "one-ba", "assert_identical", ["raise", "AssertionError", "Left and right Group objects are not equal\n"]], ["one-a-attrs1", "one-a-attrs2", "diff_tree", ["return", "str", "Left and right Group objects are not equal\n  Differing groups:\n    Group /a:\n      Attributes:\n        Differing attributes:\n           L a  1\n           R a  2"]], ["one-a-attrs1", "one-a-attrs2", "assert_identical", ["raise", "AssertionError", "Left and right Group objects are not equal\n  Differing groups:\n    Group /a:\n      Attributes:\n        Differing attributes:\n           L a  1\n           R a  2"]], ["one-a-url", "one-a-url2", "diff_tree", ["return", "str", "Left and right Group objects are not equal\n  Differing groups:\n    Group /a:\n      Differing Url:\n      L  memory://sub\n      R  memory://root"]], ["one-a-url", "one-a-url2", "assert_identical", ["raise", "AssertionError", "Left and right Group objects are not equal\n  Differing groups:\n    Group /a:\n      Differing Url:\n      L  memory://sub\n      R  memory://root"]], ["mixed1", "mixed2", "diff_tree", ["return", "str", "Left and right Group objects are not equal\n  Differing tree structure:\n    Missing left:\n    - /a/ab\n    - /c\n    Missing right:\n    - /b\n  Differing groups:\n    Group /:\n      Variables:\n        Differing variables:\n           L v  (x)    int16  1\n           R v  (x)    int16  2\n      Attributes:\n        Differing attributes:\n           L root  1\n           R root  2\n    Group /a:\n      Variables:\n        Differing variables:\n           L w  (y)    int16  1 2\n           R w  (y)    int16  1 3\n    Group /a/aa:\n      Attributes:\n        Differing attributes:\n           L deep  True\n           R deep  False"]], ["mixed1", "mixed2", "assert_identical", ["raise", "AssertionError", "Left and right Group objects are not equal\n  Differing tree structure:\n    Missing left:\n    - /a/ab\n    - /c\n    Missing right:\n    - /b\n  Differing groups:\n    Group /:\n      Variables:\n        Differing variables:\n           L v  (x)    int16  1\n           R v  (x)    int16  2\n      Attributes:\n        Differing attributes:\n           L root  1\n           R root  2\n    Group /a:\n      Variables:\n        Differing variables:\n           L w  (y)    int16  1 2\n           R w  (y)    int16  1 3\n    Group /a/aa:\n      Attributes:\n        Differing attributes:\n           L deep  True\n           R deep  False"]], ["mixed2", "mixed3", "diff_tree", ["return", "str", "Left and right Group objects are not equal\n  Differing tree structure:\n    Missing left:\n    - /a/aa/aaa\n    - /a/aa/aaa/aaaa\n    - /b\n    Missing right:\n    - /a/ab\n    - /c\n  Differing groups:\n    Group /:\n      Variables:\n        Differing variables:\n           L v  (x)    int16  2\n           R v  (x)    int16  1\n      Attributes:\n        Differing attributes:\n           L root  2\n           R root  1\n    Group /a:\n      Variables:\n        Missing right:\n         - w\n      Attributes:\n        Missing right:\n         - n\n    Group /a/aa:\n      Attributes:\n        Missing right:\n         - deep"]], ["mixed2", "mixed3", "assert_identical", ["raise", "AssertionError", "Left and right Group objects are not equal\n  Differing tree structure:\n    Missing left:\n    - /a/aa/aaa\n    - /a/aa/aaa/aaaa\n    - /b\n    Missing right:\n    - /a/ab\n    - /c\n  Differing groups:\n    Group /:\n      Variables:\n        Differing variables:\n           L v  (x)    int16  2\n           R v  (x)    int16  1\n      Attributes:\n        Differing attributes:\n           L root  2\n           R root  1\n    Group /a:\n      Variables:\n        Missing right:\n         - w\n      Attributes:\n        Missing right:\n         - n\n    Group /a/aa:\n      Attributes:\n        Missing right:\n         - deep"]], ["deep1", "deep2", "diff_tree", ["return", "str", "Left and right Group objects are not equal\n  Differing tree structure:\n    Missing left:\n    - /a/b/e\n  Differing groups:\n    Group /a/b/c/d:\n      Attributes:\n        Differing attributes:\n           L x  1\n           R x  2"]], ["deep1", "deep2", "assert_identical", ["raise", "AssertionError", "Left and right Group objects are not equal\n  Differing tree structure:\n    Missing left:\n    - /a/b/e\n  Differing groups:\n    Group /a/b/c/d:\n      Attributes:\n        Differing attributes:\n           L x  1\n           R x  2"]], ["empty", "empty-named", "diff_tree", ["return", "str", "Left and right Group objects are not equal\n  Differing tree structure:\n    Missing left:\n    - root\n    Missing right:\n    - /"]], ["empty", "empty-named", "assert_identical", ["raise", "AssertionError", "Left and right Group objects are not equal\n  Differing tree structure:\n    Missing left:\n    - root\n    Missing right:\n    - /"]], ["named-mixed", "mixed1", "diff_tree", ["return", "str", "Left and right Group objects are not equal\n  Differing tree structure:\n    Missing left:\n    - /\n    - /a\n    - /a/aa\n    - /b\n    Missing right:\n    - prefix\n    - prefix/a"]], ["named-mixed", "mixed1", "assert_identical", ["raise", "AssertionError", "Left and right Group objects are not equal\n  Differing tree structure:\n    Missing left:\n    - /\n    - /a\n    - /a/aa\n    - /b\n    Missing right:\n    - prefix\n    - prefix/a"]], ["array1", "array2", "diff_tree", ["return", "str", "Left and right Group objects are not equal\n  Differing groups:\n    Group /:\n      Variables:\n        Differing variables:\n           L data  (rows, columns)    Array(shape=(4, 3), dtype=int16, rpc=2)\n             url: memory:///path/to/file\n           R data  (rows, columns)    Array(shape=(4, 3), dtype=int16, rpc=3)\n             url: memory:///path/to/other\n             a: 1"]], ["array1", "array2", "assert_identical", ["raise", "AssertionError", "Left and right Group objects are not equal\n  Differing groups:\n    Group /:\n      Variables:\n        Differing variables:\n           L data  (rows, columns)    Array(shape=(4, 3), dtype=int16, rpc=2)\n             url: memory:///path/to/file\n           R data  (rows, columns)    Array(shape=(4, 3), dtype=int16, rpc=3)\n             url: memory:///path/to/other\n             a: 1"]], ["array1", "array-vs-numpy", "diff_tree", ["return", "str", "Left and right Group objects are not equal\n  Differing groups:\n    Group /:\n      Variables:\n        Differing variables:\n           L data  (rows, columns)    Array(shape=(4, 3), dtype=int16, rpc=2)\n             url: memory:///path/to/file\n           R data  (rows, columns)    int16  0 0 0 ... 0 0"]], ["array1", "array-vs-numpy", "assert_identical", ["raise", "AssertionError", "Left and right Group objects are not equal\n  Differing groups:\n    Group /:\n      Variables:\n        Differing variables:\n           L data  (rows, columns)    Array(shape=(4, 3), dtype=int16, rpc=2)\n             url: memory:///path/to/file\n           R data  (rows, columns)    int16  0 0 0 ... 0 0"]], ["multiline-attr", "multiline-attr2", "diff_tree", ["return", "str", "Left and right Group objects are not equal\n  Differing groups:\n    Group /:\n      Attributes:\n        Differing attributes:\n           L text  a\n         b\n           R text  a\n         c\n    Group /a:\n      Attributes:\n        Differing attributes:\n           L text  line1\n         line2\n           R text  line1\n         line3"]], ["multiline-attr", "multiline-attr2", "assert_identical", ["raise", "AssertionError", "Left and right Group objects are not equal\n  Differing groups:\n    Group /:\n      Attributes:\n        Differing attributes:\n           L text  a\n         b\n           R text  a\n         c\n    Group /a:\n      Attributes:\n        Differing attributes:\n           L text  line1\n         line2\n           R text  line1\n         line3"]], ["weird-names", "weird-names2", "diff_tree", ["return", "str", "Left and right Group objects are not equal\n  Differing tree structure:\n    Missing right:\n    - /a/b/c\n  Differing groups:\n    Group /a b:\n      Attributes:\n        Missing left:\n         - q\n    Group /{x}:\n      Attributes:\n        Differing attributes:\n           L a  1\n           R a  2"]], ["weird-names", "weird-names2", "assert_identical", ["raise", "AssertionError", "Left and right Group objects are not equal\n  Differing tree structure:\n    Missing right:\n    - /a/b/c\n  Differing groups:\n    Group /a b:\n      Attributes:\n        Missing left:\n         - q\n    Group /{x}:\n      Attributes:\n        Differing attributes:\n           L a  1\n           R a  2"]], ["vars1", "vars2", "diff_tree", ["return", "str", "Left and right Group objects are not equal\n  Differing groups:\n    Group /:\n      Variables:\n        Missing left:\n         - z\n        Missing right:\n         - y\n        Differing variables:\n           L x  (x)    int16  1 2 3\n           R x  (x)    int16  1 2 4"]], ["vars1", "vars2", "assert_identical", ["raise", "AssertionError", "Left and right Group objects are not equal\n  Differing groups:\n    Group /:\n      Variables:\n        Missing left:\n         - z\n        Missing right:\n         - y\n        Differing variables:\n           L x  (x)    int16  1 2 3\n           R x  (x)    int16  1 2 4"]], ["vars1", "vars3", "diff_tree", ["return", "str", "Left and right Group objects are not equal\n  Differing groups:\n    Group /:\n      Variables:\n        Differing variables:\n           L x  (x)    int16  1 2 3\n           R x  (t)    int16  1 2 3\n             long_name: time\n           L y  (x, y)    int16  1 2 3 4\n             units: m\n           R y  (x, y)    int16  1 2 3 4"]], ["vars1", "vars3", "assert_identical", ["raise", "AssertionError", "Left and right Group objects are not equal\n  Differing groups:\n    Group /:\n      Variables:\n        Differing variables:\n           L x  (x)    int16  1 2 3\n           R x  (t)    int16  1 2 3\n             long_name: time\n           L y  (x, y)    int16  1 2 3 4\n             units: m\n           R y  (x, y)    int16  1 2 3 4"]]], "pairs": [841, "88c9124feb3c16502766cc7fa8c8674e9253e4ec1383d175bc96f5fcea90b410"], "invalid": [["group", "variable", "diff_tree", ["raise", "AttributeError", "'Variable' object has no attribute 'subtree'"]], ["group", "variable", "assert_identical", ["raise", "AssertionError", "types mismatch: <class 'ceos_alos2.hierarchy.Group'> != <class 'ceos_alos2.hierarchy.Variable'>"]], ["group", "array", "diff_tree", ["raise", "AttributeError", "'Array' object has no attribute 'subtree'"]], ["group", "array", "assert_identical", ["raise", "AssertionError", "types mismatch: <class 'ceos_alos2.hierarchy.Group'> != <class 'ceos_alos2.array.Array'>"]], ["group", "none", "diff_tree", ["raise", "AttributeError", "'NoneType' object has no attribute 'subtree'"]], ["group", "none", "assert_identical", ["raise", "AssertionError", "types mismatch: <class 'ceos_alos2.hierarchy.Group'> != <class 'NoneType'>"]], ["group", "dict", "diff_tree", ["raise", "AttributeError", "'dict' object has no attribute 'subtree'"]], ["group", "dict", "assert_identical", ["raise", "AssertionError", "types mismatch: <class 'ceos_alos2.hierarchy.Group'> != <class 'dict'>"]], ["group", "int", "diff_tree", ["raise", "AttributeError", "'int' object has no attribute 'subtree'"]], ["group", "int", "assert_identical", ["raise", "AssertionError", "types mismatch: <class 'ceos_alos2.hierarchy.Group'> != <class 'int'>"]], ["group", "str", "diff_tree", ["raise", "AttributeError", "'str' object has no attribute 'subtree'"]], ["group", "str", "assert_identical", ["raise", "AssertionError", "types mismatch: <class 'ceos_alos2.hierarchy.Group'> != <class 'str'>"]], ["variable", "group", "diff_tree", ["raise", "AttributeError", "'Variable' object has no attribute 'subtree'"]], ["variable", "group", "assert_identical", ["raise", "AssertionError", "types mismatch: <class 'ceos_alos2.hierarchy.Variable'> != <class 'ceos_alos2.hierarchy.Group'>"]], ["variable", "variable", "diff_tree", ["raise", "AttributeError", "'Variable' object has no attribute 'subtree'"]], ["variable", "variable", "assert_identical", ["return", "NoneType", "None"]], ["variable", "array", "diff_tree", ["raise", "AttributeError", "'Variable' object has no attribute 'subtree'"]], ["variable", "array", "assert_identical", ["raise", "AssertionError", "types mismatch: <class 'ceos_alos2.hierarchy.Variable'> != <class 'ceos_alos2.array.Array'>"]], ["variable", "none", "diff_tree", ["raise", "AttributeError", "'Variable' object has no attribute 'subtree'"]], ["variable", "none", "assert_identical", ["raise", "AssertionError", "types mismatch: <class 'ceos_alos2.hierarchy.Variable'> != <class 'NoneType'>"]], ["variable", "dict", "diff_tree", ["raise", "AttributeError", "'Variable' object has no attribute 'subtree'"]], ["variable", "dict", "assert_identical", ["raise", "AssertionError", "types mismatch: <class 'ceos_alos2.hierarchy.Variable'> != <class 'dict'>"]], ["variable", "int", "diff_tree", ["raise", "AttributeError", "'Variable' object has no attribute 'subtree'"]], ["variable", "int", "assert_identical", ["raise", "AssertionError", "types mismatch: <class 'ceos_alos2.hierarchy.Variable'> != <class 'int'>"]], ["variable", "str", "diff_tree", ["raise", "AttributeError", "'Variable' object has no attribute 'subtree'"]], ["variable", "str", "assert_identical", ["raise", "AssertionError", "types mismatch: <class 'ceos_alos2.hierarchy.Variable'> != <class 'str'>"]], ["array", "group", "diff_tree", ["raise", "AttributeError", "'Array' object has no attribute 'subtree'"]], ["array", "group", "assert_identical", ["raise", "AssertionError", "types mismatch: <class 'ceos_alos2.array.Array'> != <class 'ceos_alos2.hierarchy.Group'>"]], ["array", "variable", "diff_tree", ["raise", "AttributeError", "'Array' object has no attribute 'subtree'"]], ["array", "variable", "assert_identical", ["raise", "AssertionError", "types mismatch: <class 'ceos_alos2.array.Array'> != <class 'ceos_alos2.hierarchy.Variable'>"]], ["array", "array", "diff_tree", ["raise", "AttributeError", "'Array' object has no attribute 'subtree'"]], ["array", "array", "assert_identical", ["return", "NoneType", "None"]], ["array", "none", "diff_tree", ["raise", "AttributeError", "'Array' object has no attribute 'subtree'"]], ["array", "none", "assert_identical", ["raise", "AssertionError", "types mismatch: <class 'ceos_alos2.array.Array'> != <class 'NoneType'>"]], ["array", "dict", "diff_tree", ["raise", "AttributeError", "'Array' object has no attribute 'subtree'"]], ["array", "dict", "assert_identical", ["raise", "AssertionError", "types mismatch: <class 'ceos_alos2.array.Array'> != <class 'dict'>"]], ["array", "int", "diff_tree", ["raise", "AttributeError", "'Array' object has no attribute 'subtree'"]], ["array", "int", "assert_identical", ["raise", "AssertionError", "types mismatch: <class 'ceos_alos2.array.Array'> != <class 'int'>"]], ["array", "str", "diff_tree", ["raise", "AttributeError", "'Array' object has no attribute 'subtree'"]], ["array", "str", "assert_identical", ["raise", "AssertionError", "types mismatch: <class 'ceos_alos2.array.Array'> != <class 'str'>"]], ["none", "group", "diff_tree", ["raise", "AttributeError", "'NoneType' object has no attribute 'subtree'"]], ["none", "group", "assert_identical", ["raise", "AssertionError", "types mismatch: <class 'NoneType'> != <class 'ceos_alos2.hierarchy.Group'>"]], ["none", "variable", "diff_tree", ["raise", "AttributeError", "'NoneType' object has no attribute 'subtree'"]], ["none", "variable", "assert_identical", ["raise", "AssertionError", "types mismatch: <class 'NoneType'> != <class 'ceos_alos2.hierarchy.Variable'>"]], ["none", "array", "diff_tree", ["raise", "AttributeError", "'NoneType' object has no attribute 'subtree'"]], ["none", "array", "assert_identical", ["raise", "AssertionError", "types mismatch: <class 'NoneType'> != <class 'ceos_alos2.array.Array'>"]], ["none", "none", "diff_tree", ["raise", "AttributeError", "'NoneType' object has no attribute 'subtree'"]], ["none", "none", "assert_identical", ["raise", "TypeError", "can only compare Group and Variable and Array objects"]], ["none", "dict", "diff_tree", ["raise", "AttributeError", "'NoneType' object has no attribute 'subtree'"]], ["none", "dict", "assert_identical", ["raise", "AssertionError", "types mismatch: <class 'NoneType'> != <class 'dict'>"]], ["none", "int", "diff_tree", ["raise", "AttributeError", "'NoneType' object has no attribute 'subtree'"]], ["none", "int", "assert_identical", ["raise", "AssertionError", "types mismatch: <class 'NoneType'> != <class 'int'>"]], ["none", "str", "diff_tree", ["raise", "AttributeError", "'NoneType' object has no attribute 'subtree'"]], ["none", "str", "assert_identical", ["raise", "AssertionError", "types mismatch: <class 'NoneType'> != <class 'str'>"]], ["dict", "group", "diff_tree", ["raise", "AttributeError", "'dict' object has no attribute 'subtree'"]], ["dict", "group", "assert_identical", ["raise", "AssertionError", "types mismatch: <class 'dict'> != <class 'ceos_alos2.hierarchy.Group'>"]], ["dict", "variable", "diff_tree", ["raise", "AttributeError", "'dict' object has no attribute 'subtree'"]], ["dict", "variable", "assert_identical", ["raise", "AssertionError", "types mismatch: <class 'dict'> != <class 'ceos_alos2.hierarchy.Variable'>"]], ["dict", "array", "diff_tree", ["raise", "AttributeError", "'dict' object has no attribute 'subtree'"]], ["dict", "array", "assert_identical", ["raise", "AssertionError", "types mismatch: <class 'dict'> != <class 'ceos_alos2.array.Array'>"]], ["dict", "none", "diff_tree", ["raise", "AttributeError", "'dict' object has no attribute 'subtree'"]], ["dict", "none", "assert_identical", ["raise", "AssertionError", "types mismatch: <class 'dict'> != <class 'NoneType'>"]], ["dict", "dict", "diff_tree", ["raise", "AttributeError", "'dict' object has no attribute 'subtree'"]], ["dict", "dict", "assert_identical", ["raise", "TypeError", "can only compare Group and Variable and Array objects"]], ["dict", "int", "diff_tree", ["raise", "AttributeError", "'dict' object has no attribute 'subtree'"]], ["dict", "int", "assert_identical", ["raise", "AssertionError", "types mismatch: <class 'dict'> != <class 'int'>"]], ["dict", "str", "diff_tree", ["raise", "AttributeError", "'dict' object has no attribute 'subtree'"]], ["dict", "str", "assert_identical", ["raise", "AssertionError", "types mismatch: <class 'dict'> != <class 'str'>"]], ["int", "group", "diff_tree", ["raise", "AttributeError", "'int' object has no attribute 'subtree'"]], ["int", "group", "assert_identical", ["raise", "AssertionError", "types mismatch: <class 'int'> != <class 'ceos_alos2.hierarchy.Group'>"]], ["int", "variable", "diff_tree", ["raise", "AttributeError", "'int' object has no attribute 'subtree'"]], ["int", "variable", "assert_identical", ["raise", "AssertionError", "types mismatch: <class 'int'> != <class 'ceos_alos2.hierarchy.Variable'>"]], ["int", "array", "diff_tree", ["raise", "AttributeError", "'int' object has no attribute 'subtree'"]], ["int", "array", "assert_identical", ["raise", "AssertionError", "types mismatch: <class 'int'> != <class 'ceos_alos2.array.Array'>"]], ["int", "none", "diff_tree", ["raise", "AttributeError", "'int' object has no attribute 'subtree'"]], ["int", "none", "assert_identical", ["raise", "AssertionError", "types mismatch: <class 'int'> != <class 'NoneType'>"]], ["int", "dict", "diff_tree", ["raise", "AttributeError", "'int' object has no attribute 'subtree'"]], ["int", "dict", "assert_identical", ["raise", "AssertionError", "types mismatch: <class 'int'> != <class 'dict'>"]], ["int", "int", "diff_tree", ["raise", "AttributeError", "'int' object has no attribute 'subtree'"]], ["int", "int", "assert_identical", ["raise", "TypeError", "can only compare Group and Variable and Array objects"]], ["int", "str", "diff_tree", ["raise", "AttributeError", "'int' object has no attribute 'subtree'"]], ["int", "str", "assert_identical", ["raise", "AssertionError", "types mismatch: <class 'int'> != <class 'str'>"]], ["str", "group", "diff_tree", ["raise", "AttributeError", "'str' object has no attribute 'subtree'"]], ["str", "group", "assert_identical", ["raise", "AssertionError", "types mismatch: <class 'str'> != <class 'ceos_alos2.hierarchy.Group'>"]], ["str", "variable", "diff_tree", ["raise", "AttributeError", "'str' object has no attribute 'subtree'"]], ["str", "variable", "assert_identical", ["raise", "AssertionError", "types mismatch: <class 'str'> != <class 'ceos_alos2.hierarchy.Variable'>"]], ["str", "array", "diff_tree", ["raise", "AttributeError", "'str' object has no attribute 'subtree'"]], ["str", "array", "assert_identical", ["raise", "AssertionError", "types mismatch: <class 'str'> != <class 'ceos_alos2.array.Array'>"]], ["str", "none", "diff_tree", ["raise", "AttributeError", "'str' object has no attribute 'subtree'"]], ["str", "none", "assert_identical", ["raise", "AssertionError", "types mismatch: <class 'str'> != <class 'NoneType'>"]], ["str", "dict", "diff_tree", ["raise", "AttributeError", "'str' object has no attribute 'subtree'"]], ["str", "dict", "assert_identical", ["raise", "AssertionError", "types mismatch: <class 'str'> != <class 'dict'>"]], ["str", "int", "diff_tree", ["raise", "AttributeError", "'str' object has no attribute 'subtree'"]], ["str", "int", "assert_identical", ["raise", "AssertionError", "types mismatch: <class 'str'> != <class 'int'>"]], ["str", "str", "diff_tree", ["raise", "AttributeError", "'str' object has no attribute 'subtree'"]], ["str", "str", "assert_identical", ["raise", "TypeError", "can only compare Group and Variable and Array objects"]], ["dup-paths", "dup-paths", "fake", ["return", "str", "Left and right Group objects are not equal\n"], ["/", "/"]], ["dup-paths", "plain", "fake", ["return", "str", "Left and right Group objects are not equal\n  Differing tree structure:\n    Missing left:\n    - /x\n  Differing groups:\n    Group /:\n      Attributes:\n        Differing attributes:\n           L a  2\n           R a  1"], ["/", "/", "/"]], ["dup-paths", "not-groups", "fake", ["raise", "AttributeError", "'int' object has no attribute 'decouple'"], ["/"]], ["dup-paths", "none-group", "fake", ["return", "str", "Left and right Group objects are not equal\n  Differing tree structure:\n    Missing left:\n    - /y\n    Missing right:\n    - /"], ["/", "/"]], ["dup-paths", "int-paths", "fake", ["return", "str", "Left and right Group objects are not equal\n  Differing tree structure:\n    Missing left:\n    - 0\n    - 1\n    Missing right:\n    - /"], ["/", "/", "/"]], ["dup-paths", "bad-items", "fake", ["raise", "ValueError", "dictionary update sequence element #0 has length 1; 2 is required"], []], ["dup-paths", "empty", "fake", ["return", "str", "Left and right Group objects are not equal\n  Differing tree structure:\n    Missing right:\n    - /"], ["/"]], ["plain", "dup-paths", "fake", ["return", "str", "Left and right Group objects are not equal\n  Differing tree structure:\n    Missing right:\n    - /x\n  Differing groups:\n    Group /:\n      Attributes:\n        Differing attributes:\n           L a  1\n           R a  2"], ["/", "/", "/"]], ["plain", "plain", "fake", ["return", "str", "Left and right Group objects are not equal\n"], ["/", "/", "/", "/"]], ["plain", "not-groups", "fake", ["raise", "AttributeError", "'int' object has no attribute 'decouple'"], ["/"]], ["plain", "none-group", "fake", ["return", "str", "Left and right Group objects are not equal\n  Differing tree structure:\n    Missing left:\n    - /y\n    Missing right:\n    - /\n    - /x"], ["/", "/", "/"]], ["plain", "int-paths", "fake", ["return", "str", "Left and right Group objects are not equal\n  Differing tree structure:\n    Missing left:\n    - 0\n    - 1\n    Missing right:\n    - /\n    - /x"], ["/", "/", "/", "/"]], ["plain", "bad-items", "fake", ["raise", "ValueError", "dictionary update sequence element #0 has length 1; 2 is required"], []], ["plain", "empty", "fake", ["return", "str", "Left and right Group objects are not equal\n  Differing tree structure:\n    Missing right:\n    - /\n    - /x"], ["/", "/"]], ["not-groups", "dup-paths", "fake", ["raise", "AttributeError", "'int' object has no attribute 'decouple'"], []], ["not-groups", "plain", "fake", ["raise", "AttributeError", "'int' object has no attribute 'decouple'"], []], ["not-groups", "not-groups", "fake", ["raise", "AttributeError", "'int' object has no attribute 'decouple'"], []], ["not-groups", "none-group", "fake", ["raise", "AttributeError", "'int' object has no attribute 'decouple'"], []], ["not-groups", "int-paths", "fake", ["raise", "AttributeError", "'int' object has no attribute 'decouple'"], []], ["not-groups", "bad-items", "fake", ["raise", "ValueError", "dictionary update sequence element #0 has length 1; 2 is required"], []], ["not-groups", "empty", "fake", ["raise", "AttributeError", "'int' object has no attribute 'decouple'"], []], ["none-group", "dup-paths", "fake", ["return", "str", "Left and right Group objects are not equal\n  Differing tree structure:\n    Missing left:\n    - /\n    Missing right:\n    - /y"], ["/", "/"]], ["none-group", "plain", "fake", ["return", "str", "Left and right Group objects are not equal\n  Differing tree structure:\n    Missing left:\n    - /\n    - /x\n    Missing right:\n    - /y"], ["/", "/", "/"]], ["none-group", "not-groups", "fake", ["raise", "AttributeError", "'int' object has no attribute 'decouple'"], []], ["none-group", "none-group", "fake", ["return", "str", "Left and right Group objects are not equal\n  Differing tree structure:\n    Missing left:\n    - /"], ["/", "/"]], ["none-group", "int-paths", "fake", ["return", "str", "Left and right Group objects are not equal\n  Differing tree structure:\n    Missing left:\n    - /\n    - 0\n    - 1\n    Missing right:\n    - /y"], ["/", "/", "/"]], ["none-group", "bad-items", "fake", ["raise", "ValueError", "dictionary update sequence element #0 has length 1; 2 is required"], []], ["none-group", "empty", "fake", ["return", "str", "Left and right Group objects are not equal\n  Differing tree structure:\n    Missing left:\n    - /\n    Missing right:\n    - /y"], ["/"]], ["int-paths", "dup-paths", "fake", ["return", "str", "Left and right Group objects are not equal\n  Differing tree structure:\n    Missing left:\n    - /\n    Missing right:\n    - 0\n    - 1"], ["/", "/", "/"]], ["int-paths", "plain", "fake", ["return", "str", "Left and right Group objects are not equal\n  Differing tree structure:\n    Missing left:\n    - /\n    - /x\n    Missing right:\n    - 0\n    - 1"], ["/", "/", "/", "/"]], ["int-paths", "not-groups", "fake", ["raise", "AttributeError", "'int' object has no attribute 'decouple'"], ["/", "/"]], ["int-paths", "none-group", "fake", ["return", "str", "Left and right Group objects are not equal\n  Differing tree structure:\n    Missing left:\n    - /\n    - /y\n    Missing right:\n    - 0\n    - 1"], ["/", "/", "/"]], ["int-paths", "int-paths", "fake", ["return", "str", "Left and right Group objects are not equal\n"], ["/", "/", "/", "/"]], ["int-paths", "bad-items", "fake", ["raise", "ValueError", "dictionary update sequence element #0 has length 1; 2 is required"], []], ["int-paths", "empty", "fake", ["return", "str", "Left and right Group objects are not equal\n  Differing tree structure:\n    Missing right:\n    - 0\n    - 1"], ["/", "/"]], ["bad-items", "dup-paths", "fake", ["raise", "ValueError", "dictionary update sequence element #0 has length 1; 2 is required"], []], ["bad-items", "plain", "fake", ["raise", "ValueError", "dictionary update sequence element #0 has length 1; 2 is required"], []], ["bad-items", "not-groups", "fake", ["raise", "ValueError", "dictionary update sequence element #0 has length 1; 2 is required"], []], ["bad-items", "none-group", "fake", ["raise", "ValueError", "dictionary update sequence element #0 has length 1; 2 is required"], []], ["bad-items", "int-paths", "fake", ["raise", "ValueError", "dictionary update sequence element #0 has length 1; 2 is required"], []], ["bad-items", "bad-items", "fake", ["raise", "ValueError", "dictionary update sequence element #0 has length 1; 2 is required"], []], ["bad-items", "empty", "fake", ["raise", "ValueError", "dictionary update sequence element #0 has length 1; 2 is required"], []], ["empty", "dup-paths", "fake", ["return", "str", "Left and right Group objects are not equal\n  Differing tree structure:\n    Missing left:\n    - /"], ["/"]], ["empty", "plain", "fake", ["return", "str", "Left and right Group objects are not equal\n  Differing tree structure:\n    Missing left:\n    - /\n    - /x"], ["/", "/"]], ["empty", "not-groups", "fake", ["raise", "AttributeError", "'int' object has no attribute 'decouple'"], []], ["empty", "none-group", "fake", ["return", "str", "Left and right Group objects are not equal\n  Differing tree structure:\n    Missing left:\n    - /\n    - /y"], ["/"]], ["empty", "int-paths", "fake", ["return", "str", "Left and right Group objects are not equal\n  Differing tree structure:\n    Missing left:\n    - 0\n    - 1"], ["/", "/"]], ["empty", "bad-items", "fake", ["raise", "ValueError", "dictionary update sequence element #0 has length 1; 2 is required"], []], ["empty", "empty", "fake", ["return", "str", "Left and right Group objects are not equal\n"], []]], "fuzz": [1200, "a1530bf14fc440fb2feb4b53398c730b4cf9dd5bf8dde56bf39260e178cc40cc", [[["return", "str", "Left and right Group objects are not equal\n  Differing tree structure:\n    Missing right:\n    - /c\n    - /c/d\n    - /c/d/c\n    - /c/d/d\n    - /c/a\n    - /c/a/d\n  Differing groups:\n    Group /:\n      Attributes:\n        Missing left:\n         - r"], ["/", "/c", "/c/d", "/c/d/c", "/c/d/d", "/c/a", "/c/a/d", "/", "/", "/", "/c", "/c/d", "/c/d/c", "/c/d/d", "/c/a", "/c/a/d"]], ["raise", "AssertionError", "Left and right Group objects are not equal\n  Differing tree structure:\n    Missing right:\n    - /c\n    - /c/d\n    - /c/d/c\n    - /c/d/d\n    - /c/a\n    - /c/a/d\n  Differing groups:\n    Group /:\n      Attributes:\n        Missing left:\n         - r"], [["return", "str", "Left and right Group objects are not equal\n  Differing tree structure:\n    Missing right:\n    - /d\n    - /b\n    - /b/b\n  Differing groups:\n    Group /:\n      Variables:\n        Missing right:\n         - a\n      Attributes:\n        Missing right:\n         - q"], ["/", "/d", "/b", "/b/b", "/", "/", "/", "/d", "/b", "/b/b"]], ["raise", "AssertionError", "Left and right Group objects are not equal\n  Differing tree structure:\n    Missing right:\n    - /d\n    - /b\n    - /b/b\n  Differing groups:\n    Group /:\n      Variables:\n        Missing right:\n         - a\n      Attributes:\n        Missing right:\n         - q"], [["return", "str", "Left and right Group objects are not equal\n  Differing groups:\n    Group /:\n      Variables:\n        Missing left:\n         - d\n         - b\n         - a"], ["/", "/", "/", "/"]], ["raise", "AssertionError", "Left and right Group objects are not equal\n  Differing groups:\n    Group /:\n      Variables:\n        Missing left:\n         - d\n         - b\n         - a"]]]}
"""


def test_equivalent():
    expected = json.loads(EXPECTED_JSON)
    observed = json.loads(json.dumps(observe()))
    assert list(observed) == list(expected)
    for key in expected:
        assert len(observed[key]) == len(expected[key]), key
        for exp, obs in zip(expected[key], observed[key]):
            assert obs == exp, (key, exp, obs)


if __name__ == "__main__":
    if "--record" in sys.argv:
        print(json.dumps(observe(), indent=None))
    else:
        test_equivalent()
        print("refactoring 4: OK", testing.__file__)
